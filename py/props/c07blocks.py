"""C07, round 4 (a) — module-level definitions in EVERY block position Python allows at module level.

`rattr` decides which top-level definitions exist in one place (RootContextBuilder: it descends into if / for / while /
try / with blocks and adds one symbol per definition) and REACHES them in another (FileAnalyser is an ast.NodeVisitor:
generic_visit descends into every block). A definition the first forgets and the second reaches is analysed without
its symbol; for a class with an initialiser that is `ClassAnalyser.symbol`'s ValueError. The class of inputs:

    position  : if / elif / else, for / for-else, while / while-else, try / except / second except / else / finally,
                try-except* (body, handler), with (one / several items), match (first / later / wildcard case),
                and nestings of these (depth 2 and 3)
    definition: def, async def, class without / with __init__, Enum / IntEnum / NamedTuple / dataclass classes, a class with
                only a static method, a class with a nested class, lambda, namedtuple() call, import / from-import of
                stdlib and of a project module, star import, plain assignment, walrus
    place     : the target file, a followed import (`from lib import …` / `import lib` / `from lib import *`), a package
                __init__; through the CLI (this corpus) and in-process against the Lean predicates (c07.file_tie)

(b) `refine_k11`: the signature `unhandled:ValueError:ClassAnalyser.symbol@…` says only WHERE the symbol was missed; the
cause is read off the project SOURCE (ast; nothing rattr computes): the class named in the message — where it is
defined (chain of enclosing block kinds) and what else binds its name:

    …[<position>;<binding>]     position: at:module | at:if-body | at:for-else | at:try-finally/while-else | … (the full chain), or
                                          within:match-case | within:try-except-star (anywhere below such a block: K11m / K11t, fixed in /repo 6e8e4cc)
                                binding : sole-binding | builtin-name | also-bound-by:class | bound-before-by:<def|import|assign|del>
                                          | bound-after-by:<…>
"""
from __future__ import annotations

import ast
import builtins
import re

HELPER = "def helper(q):\n    return q.hq\n\n\ndef other(q):\n    return q.oq\n"
PRE = ("import contextlib\nfrom collections import namedtuple\nfrom dataclasses import dataclass\nfrom enum import Enum, IntEnum\n"
       "from typing import NamedTuple\n\nflag = other_flag = 0\nitems = ()\n\n")

# (kind, definition text at indentation 0, expression using it inside `def use(a)` or None)
DEFS = [
    ("def", "def d_fn(p):\n    return p.df", "d_fn(a)"),
    ("async-def", "async def d_afn(p):\n    return p.daf", "d_afn(a)"),
    ("class-plain", "class CPlain:\n    z = 1", "CPlain()"),
    ("class-init", "class CInit:\n    def __init__(self, s):\n        self.v = s.civ", "CInit(a)"),
    ("class-enum", "class CEnum(Enum):\n    RED = 1\n    GREEN = 2", "CEnum(a.colour)"),
    ("class-intenum", "class CIntEnum(IntEnum):\n    ONE = 1", "CIntEnum(a.n)"),
    ("class-namedtuple", "class CNt(NamedTuple):\n    x: int\n    y: int = 0", "CNt(a.x, a.y)"),
    ("class-dataclass", "@dataclass\nclass CDc:\n    x: int\n    y: int = 0", "CDc(a.dx)"),
    ("class-static", "class CStatic:\n    @staticmethod\n    def sm(w):\n        return w.sw", "CStatic.sm(a)"),
    ("class-nested", "class COuter:\n    class CInner:\n        def __init__(self, s):\n            self.i = s.ci\n    def __init__(self, s):\n        self.o = s.co", "COuter(a)"),
    ("class-init-base", "class CChild(dict):\n    def __init__(self, s, *rest, **kw):\n        self.c = s.cc", "CChild(a)"),
    ("lambda", "d_lam = lambda p: p.dl", "d_lam(a)"),
    ("namedtuple-call", "DNt = namedtuple('DNt', 'x y')", "DNt(a.p, a.q)"),
    ("import", "import json as d_json", "d_json.dumps(a.j)"),
    ("from-import", "from os.path import join as d_join", "d_join(a.l, a.r)"),
    ("local-import", "from blk_helper import helper as d_helper", "d_helper(a)"),
    ("star-import", "from blk_helper import *", "other(a)"),
    ("assign", "d_val = 1", None),
    ("walrus", "(d_w := 1)", None),
]
DEF_BY_KIND = {k: (t, u) for k, t, u in DEFS}
RISKY = ["class-init", "class-enum", "class-namedtuple"]

# (position, template; {B} = the block (indented by four spaces), {P} = `pass` at the same depth)
POSITIONS = [
    ("if-body", "if flag:\n{B}"),
    ("if-else", "if flag:\n    pass\nelse:\n{B}"),
    ("elif-body", "if flag:\n    pass\nelif other_flag:\n{B}"),
    ("elif-else", "if flag:\n    pass\nelif other_flag:\n    pass\nelse:\n{B}"),
    ("for-body", "for item in items:\n{B}"),
    ("for-else", "for item in items:\n    pass\nelse:\n{B}"),
    ("while-body", "while flag:\n{B}"),
    ("while-else", "while flag:\n    flag -= 1\nelse:\n{B}"),
    ("try-body", "try:\n{B}\nexcept Exception:\n    pass"),
    ("try-except", "try:\n    pass\nexcept Exception:\n{B}"),
    ("try-second-except", "try:\n    pass\nexcept KeyError:\n    pass\nexcept (ValueError, TypeError) as exc:\n{B}"),
    ("try-else", "try:\n    pass\nexcept Exception:\n    pass\nelse:\n{B}"),
    ("try-finally", "try:\n    pass\nfinally:\n{B}"),
    ("try-except-finally", "try:\n    pass\nexcept Exception:\n    pass\nelse:\n    pass\nfinally:\n{B}"),
    ("trystar-body", "try:\n{B}\nexcept* ValueError:\n    pass"),
    ("trystar-except", "try:\n    pass\nexcept* ValueError:\n{B}"),
    ("with-body", "with contextlib.nullcontext():\n{B}"),
    ("with-items", "with contextlib.nullcontext() as c1, contextlib.nullcontext() as c2:\n{B}"),
    ("match-case", "match flag:\n    case 0:\n    {B4}\n    case _:\n        pass"),
    ("match-second-case", "match flag:\n    case 1:\n        pass\n    case 0 | 2:\n    {B4}"),
    ("match-wildcard", "match flag:\n    case 1:\n        pass\n    case _:\n    {B4}"),
]
POS_BY_NAME = dict(POSITIONS)
ELSE_LIKE = ["if-else", "elif-else", "for-else", "while-else", "try-else", "try-finally", "try-except", "with-body", "match-case"]


def _indent(text, n=4):
    return "\n".join((" " * n + l) if l else l for l in text.split("\n"))


def wrap(position, block):
    """`block` (statements at indentation 0) placed at `position` ("a/b": b nested in a)."""
    for name in reversed(position.split("/")):
        t = POS_BY_NAME[name]
        if "{B4}" in t:
            block = t.replace("    {B4}", _indent(block, 8))
        else:
            block = t.replace("{B}", _indent(block, 4))
    return block


def module_text(position, kinds, import_helper=True):
    """A module with the definitions `kinds` at `position` (or at module level: position None) and a caller."""
    block = "\n".join(DEF_BY_KIND[k][0] for k in kinds)
    uses = [DEF_BY_KIND[k][1] for k in kinds if DEF_BY_KIND[k][1]]
    body = wrap(position, block) if position else block
    use = "def use(a):\n    return [" + ", ".join(uses or ["a.nothing"]) + "]\n"
    return PRE + body + "\n\n\n" + use


def names_of(kinds):
    out = []
    for k in kinds:
        t = DEF_BY_KIND[k][0]
        m = re.search(r"^(?:async def|def|class) (\w+)|^(\w+) = |^\((\w+) :=| as (\w+)$", t, re.M)
        if m:
            out.append(next(g for g in m.groups() if g))
    return out


ALL_KINDS = [k for k, _, _ in DEFS]
BUNDLE = [k for k in ALL_KINDS if k != "star-import"]      # (a star import changes what every later name means: on its own)


def place(kind, text, kinds):
    """-> (files, target): the module `text` as the target / a followed import."""
    names = [n for n in names_of(kinds) if not n.startswith("d_w")]
    files = {"blk_helper.py": HELPER}
    if kind == "target":
        files["target.py"] = text
    elif kind == "followed-from":
        files["lib.py"] = text
        files["target.py"] = "from lib import use, " + ", ".join(names or ["flag"]) + "\n\n\ndef main(r):\n    return use(r)\n"
    elif kind == "followed-import":
        files["lib.py"] = text
        files["target.py"] = "import lib\n\n\ndef main(r):\n    return lib.use(r), " + ", ".join(f"lib.{n}" for n in names or ["flag"]) + "\n"
    elif kind == "followed-star":
        files["lib.py"] = text
        files["target.py"] = "from lib import *\n\n\ndef main(r):\n    return use(r)\n"
    elif kind == "package-init":
        files["pkg/__init__.py"] = text
        files["target.py"] = "from pkg import use\nimport pkg\n\n\ndef main(r):\n    return use(r), pkg.use(r)\n"
    else:
        raise ValueError(kind)
    return files, "target.py"


PLACES = ["target", "followed-from", "followed-import", "followed-star", "package-init"]
NESTED_FIXED = ["if-body/for-else", "for-else/if-else", "try-finally/while-else", "with-body/try-except", "while-else/while-else",
                "for-body/for-else", "try-else/with-body/for-else", "if-else/while-body/try-finally", "match-case/if-else",
                "for-else/match-case", "trystar-except/for-else"]
OPTS = [[], ["--strict"], ["-o", "ir"], ["-o", "stats"], ["-f", "0"], ["-o", "cacheable"], ["-C", "blk-cache.json"], ["-w", "all"]]


def block_corpus(rng, tier):
    rows = []

    def add(position, kinds, where, opts=(), tag=None):
        text = module_text(position, kinds)
        try:
            compile(text, "<blk>", "exec", dont_inherit=True)
        except SyntaxError:
            return
        files, target = place(where, text, kinds)
        label = tag or ("+".join(kinds) if len(kinds) <= 2 else f"bundle{len(kinds)}")
        rows.append({"row": f"block:{position or 'module'}:{label}:{where}" + (":" + "".join(opts) if opts else ""), "files": files, "target": target,
                     "opts": list(opts), "kind": "block", "tags": [f"block-position:{position or 'module'}", f"block-place:{where}"] +
                     [f"block-def:{k}" for k in kinds]})

    single = [p for p, _ in POSITIONS]
    # controls: everything at module level, at every place
    for where in PLACES:
        add(None, BUNDLE, where)
    # (1) every position x the bundle of all definition kinds: as the target and as a followed import
    for i, p in enumerate(single + NESTED_FIXED):
        add(p, BUNDLE, "target")
        add(p, BUNDLE, PLACES[1 + i % 2])
    # (2) every position x each initialiser-bearing class kind alone (the bundle stops at its first failure)
    for p in single:
        for k in RISKY:
            add(p, [k], "target")
    for p in NESTED_FIXED:
        add(p, [rng.choice(RISKY)], "target")
    # (3) seed-dependent part: nestings of two / three positions, single kinds, places, options
    n = 40 if tier == "quick" else 600
    for _ in range(n):
        depth = rng.choice((1, 2, 2, 3))
        pos = "/".join(rng.choice(single) for _ in range(depth))
        r = rng.random()
        kinds = [rng.choice(ALL_KINDS)] if r < 0.5 else rng.sample(ALL_KINDS, 2) if r < 0.7 else BUNDLE
        add(pos, kinds, rng.choice(PLACES), rng.choice(OPTS))
    if tier != "quick":
        for p in single:
            for k in ALL_KINDS:
                add(p, [k], "target")
                add(p, [k], "followed-from")
            for where in PLACES[2:]:
                add(p, BUNDLE, where)
        for a in ELSE_LIKE:
            for b in single:
                add(f"{a}/{b}", BUNDLE, "target")
                add(f"{b}/{a}", ["class-init"], "followed-from")
    seen, out = set(), []
    for r in rows:
        if r["row"] not in seen:
            seen.add(r["row"])
            out.append(r)
    return out


def tie_modules(rng, tier):
    """(name, target, source) for c07.file_tie: single-file modules (no project import) with definitions at every position."""
    kinds = [k for k in BUNDLE if k not in ("local-import", "class-nested")]      # (a class in a class body is outside the file model's fragment)
    out = []
    for p in [q for q, _ in POSITIONS] + NESTED_FIXED[:6]:
        out.append((None, "target.py", module_text(p, kinds)))
        out.append((None, "target.py", module_text(p, [RISKY[len(out) % 3]])))
    return out


# ------------------------------------------------------------------------------------ (b) the K11 family, by cause

K11_PREFIX = "unhandled:ValueError:ClassAnalyser.symbol@"
K11_MESSAGE = re.compile(r"ValueError: class (\S+) is not in the current context")

BLOCK_FIELDS = {
    ast.If: (("body", "if-body"), ("orelse", "if-else")),
    ast.For: (("body", "for-body"), ("orelse", "for-else")),
    ast.AsyncFor: (("body", "asyncfor-body"), ("orelse", "asyncfor-else")),
    ast.While: (("body", "while-body"), ("orelse", "while-else")),
    ast.Try: (("body", "try-body"), ("orelse", "try-else"), ("finalbody", "try-finally")),
    ast.TryStar: (("body", "trystar-body"), ("orelse", "trystar-else"), ("finalbody", "trystar-finally")),
    ast.With: (("body", "with-body"),),
    ast.AsyncWith: (("body", "asyncwith-body"),),
    ast.FunctionDef: (("body", "def-body"),),
    ast.AsyncFunctionDef: (("body", "def-body"),),
    ast.ClassDef: (("body", "class-body"),),
}


def _walk_blocks(stmts, path):
    """yield (statement, path of enclosing block kinds) for every statement reachable through statement blocks.
    `elif` is an If in the orelse of an If: reported as if-else/if-body (what the tree says)."""
    for st in stmts:
        yield st, path
        for cls, fields in BLOCK_FIELDS.items():
            if type(st) is cls:
                for field, label in fields:
                    yield from _walk_blocks(getattr(st, field), path + [label])
        if isinstance(st, (ast.Try, ast.TryStar)):
            for h in st.handlers:
                yield from _walk_blocks(h.body, path + [("try" if isinstance(st, ast.Try) else "trystar") + "-except"])
        if isinstance(st, ast.Match):
            for c in st.cases:
                yield from _walk_blocks(c.body, path + ["match-case"])


UNBOUNDED_FAMILIES = (("match-case", "within:match-case"), ("trystar-", "within:try-except-star"))


def canonical_position(path):
    """The position component of the signature. A class anywhere below a `match` case / inside a `try … except*` statement is
    ONE class of inputs each (a syntactic condition: the outermost such block on the path decides; what lies around or below
    it is in the violation's detail) — the two findings K11m / K11t (fixed in /repo 6e8e4cc; the signatures stay, so a tree
    without the fix, or a regression, reports exactly them); every other position is spelled out in full."""
    for p in path:
        for prefix, label in UNBOUNDED_FAMILIES:
            if p.startswith(prefix):
                return label
    return "at:" + ("/".join(path) or "module")


def _binders(tree, name, lineno):
    """kinds of module-level (incl. blocks) statements other than a ClassDef that bind `name`: (before line, after line)."""
    before, after = set(), set()
    out = None
    for st, path in _walk_blocks(tree.body, []):
        if any(p in ("def-body", "class-body") for p in path):
            continue
        out = before if st.lineno < lineno else after
        if isinstance(st, (ast.FunctionDef, ast.AsyncFunctionDef)) and st.name == name:
            out.add("def")
        elif isinstance(st, (ast.Import, ast.ImportFrom)):
            for a in st.names:
                if (a.asname or a.name.split(".")[0]) == name:
                    out.add("import")
        elif isinstance(st, (ast.Assign, ast.AnnAssign, ast.AugAssign, ast.Delete, ast.For, ast.With)):
            tgts = []
            if isinstance(st, ast.Assign):
                tgts = st.targets
            elif isinstance(st, (ast.AnnAssign, ast.AugAssign)):
                tgts = [st.target]
            elif isinstance(st, ast.Delete):
                tgts = st.targets
            elif isinstance(st, ast.For):
                tgts = [st.target]
            elif isinstance(st, ast.With):
                tgts = [i.optional_vars for i in st.items if i.optional_vars is not None]
            for t in tgts:
                if any(isinstance(n, ast.Name) and n.id == name for n in ast.walk(t)):
                    out.add("del" if isinstance(st, ast.Delete) else "assign")
    return before, after


def k11_class(case, detail, file_text):
    """-> bracket text for the K11 family, from the message (class name) and the project source."""
    m = K11_MESSAGE.search(detail or "")
    if not m:
        return "unclassified"
    name = m.group(1)
    found = []
    for rel in sorted(case["files"]):
        text = file_text(case["files"], rel)
        if text is None or not rel.endswith(".py"):
            continue
        try:
            tree = ast.parse(text)
        except (SyntaxError, ValueError):
            continue
        classes = [(st, path) for st, path in _walk_blocks(tree.body, []) if isinstance(st, ast.ClassDef) and st.name == name]
        if not classes:
            continue
        for st, path in classes:
            pos = canonical_position(path)
            n_classes = len(classes)
            before, after = _binders(tree, name, st.lineno)
            if before:
                # the cause of the crash is the EARLIER non-class binding (Context.add keeps the first symbol of a
                # name); what re-binds the name afterwards is irrelevant to it and would only multiply the labels
                bind = "bound-before-by:" + "+".join(sorted(before))
            elif after:
                bind = "bound-after-by:" + "+".join(sorted(after))
            elif n_classes > 1:
                bind = "also-bound-by:class"
            elif hasattr(builtins, name):
                bind = "builtin-name"
            else:
                bind = "sole-binding"
            found.append(f"{pos};{bind}")
    found = sorted(set(found))
    if not found:
        return "class-not-in-project-source"
    return "|".join(found[:3])


def refine_k11(sig, case, detail, file_text):
    return f"{sig}[{k11_class(case, detail, file_text)}]"

"""Correspondence of the root-context (S2) and file / class analyser (S4) stages.

`run_file_stage(res, rng, n, model)` generates `n` whole modules (+ a curated list) in a temp
project, and demands
  (a) op `root_context`: the model's root symbol table == the real `compile_root_context(ast)`
      (names in insertion order, kind, callable, interface, qualified name) + the same diagnostics;
  (b) op `analyse_file`: the model's FileIr == the real `FileAnalyser(ast, ctx).analyse()` (keys in
      order with kind / interface, each FunctionIr with basenames and call records, the ordered
      diagnostics, the outcome class, and the context as the walk leaves it).
Disagreements go to `res.disagreements` (so the calling property reports them through the usual
verdict logic). It serves C17 (the root context is what "module-level definition, import or
assignment" means) and C01 ("every function, named lambda, class initialiser and static method that
rattr analyses").
"""
from __future__ import annotations

import json

from props import filegen, filelib


def run_file_stage(res, rng, n, model, hostile=0.03, keep=None):
    project = filelib.make_project()
    cases = []
    try:
        work = list(filegen.CURATED)
        for _ in range(n):
            src, target = filegen.gen_file_module(rng, hostile=hostile)
            work.append((target, src))
        for target, src in work:
            try:
                c = filelib.run_case(project, target, src, excluded=filegen.EXCLUDE_PATTERNS)
            except SyntaxError:
                continue
            finally:
                if target not in filelib.LOCAL_PACKAGE:
                    try:
                        (project / target).unlink()
                    except OSError:
                        pass
            cases.append(c)
    finally:
        filelib.drop_project(project)
    live = [c for c in cases if c.skipped is None]
    for c in cases:
        if c.skipped is not None:
            res.skipped_outside_fragment += 1
            res.count("filestage:skipped:" + c.skipped[:40])
    reqs = []
    for c in live:
        reqs.append(("root_context", c.payload))
        reqs.append(("analyse_file", c.payload))
    outs = model.batch(reqs)
    for i, c in enumerate(live):
        c.root_mo, c.file_mo = outs[2 * i], outs[2 * i + 1]
        res.evaluations += 1
        for st in c.payload["body"]:
            res.count("filestage:stmt:" + st["k"] + (":" + st["kind"] if st["k"] == "compound" else ""))
        res.count("filestage:root:" + c.root_im["outcome"] + (":" + c.root_im["exc"] if c.root_im["outcome"] != "ok" else ""))
        d = filelib.compare_root(c.root_im, c.root_mo)
        if d is None and c.file_im is not None:
            res.count("filestage:file:" + c.file_im["outcome"] + (":" + c.file_im["exc"] if c.file_im["outcome"] != "ok" else ""))
            if c.file_im["outcome"] == "ok":
                res.count("filestage:keys", len(c.file_im["keys"]))
                for k in c.file_im["keys"]:
                    res.count("filestage:key:" + k["sym"]["kind"] + (":dotted" if "." in k["sym"]["name"] else ""))
                if len(c.file_im["keys"]) >= 3:
                    import common
                    res.nontrivial.add(common.digest(c.src))
            d = filelib.compare_file(c.file_im, c.file_mo)
        if d is not None:
            res.disagreements.append({"case": {"stage": "root-context/file-analyser", "target": c.target, "module": c.src},
                                      "diff": d[:2000]})
        if keep is not None:
            keep.append((c, d))
    return cases


if __name__ == "__main__":      # development aid: python py/props/filestage.py [seed] [n]
    import random
    import sys
    import warnings

    sys.path.insert(0, str(__import__("pathlib").Path(__file__).resolve().parent.parent))
    import common

    warnings.simplefilter("ignore")
    seed = int(sys.argv[1]) if len(sys.argv) > 1 else 0
    n = int(sys.argv[2]) if len(sys.argv) > 2 else 20
    res = common.Result("DEV")
    keep = []
    run_file_stage(res, random.Random(seed), n, common.Model(), keep=keep)
    print(json.dumps(res.distribution, indent=1, sort_keys=True))
    print("evaluations", res.evaluations, "skipped", res.skipped_outside_fragment, "disagreements", len(res.disagreements))
    for d in res.disagreements[:int(sys.argv[3]) if len(sys.argv) > 3 else 3]:
        print("=" * 100)
        print(d["case"]["target"])
        print(d["case"]["module"] if len(d["case"]["module"]) < 3000 else d["case"]["module"][-3000:])
        print("-" * 100)
        print(d["diff"])

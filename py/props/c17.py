"""C17 — undefined-name warnings track Python's local binding rules."""
from __future__ import annotations

import ast
import random
import re
import warnings

import common
from props import accessspec as spec
from props import binder
from props import visitlib as vl

PID = "C17"
TABLES = ["RC", "C17"]
ROOT_RE = re.compile(r"^\*?([^.\[\(]*)")

WITNESSES = '''
def w_except(a):
    try:
        a.x
    except KeyError as e:
        e.args
def w_match(a):
    match a.m:
        case [u, *v]:
            u.p
            v.q
        case {"k": w, **r}:
            w.q
            r.z
        case Cls(x=q):
            q.z
def w_del_name(a):
    x = a.v
    del x
def w_del_attr(p):
    del p.attr
    p.after
def w_del_item(p):
    del p[0]
    p.after
def w_walrus_comp(xs):
    [y for x in xs if (y := x.v)]
    y.after
def w_use_after_del(a):
    x = a.v
    del x
    x.gone
def w_undefined(a):
    totally_unknown_name.attr
    a.ok
def w_bound_kinds(a, b, /, c, *va, k, **kw):
    l1 = a.x
    l2: int = b.y
    l3 = 0
    l3 += c.z
    (l4 := k.w)
    for l5 in va:
        l5.p
    with kw.cm() as l6:
        l6.q
    [t.r for t in l1 if t.s]
    l1.u; l2.u; l3.u; l4.u; l5.u; l6.u
    print(glob, other_glob, helper, Cls, lam, NT, os, collections, defaultdict, len, __name__)
'''


def node_at(fn, line, col):
    best = None
    for n in ast.walk(fn):
        if getattr(n, "lineno", None) == line and getattr(n, "col_offset", None) == col and isinstance(n, ast.expr):
            if best is None or (n.end_lineno, n.end_col_offset) > (best.end_lineno, best.end_col_offset):
                best = n
    return best


def prior_attr_del(fn, name, line):
    for n in ast.walk(fn):
        if isinstance(n, ast.Delete) and n.lineno < line:
            for t in n.targets:
                if isinstance(t, (ast.Attribute, ast.Subscript)) and ROOT_RE.match(spec.spell(t)).group(1) == name:
                    return True
    return False


def attr_del_between(fn, name, start, end):
    """a `del name.attr` / `del name[i]` located after `start` and before `end` (positions)."""
    for n in ast.walk(fn):
        if isinstance(n, ast.Delete) and start < (n.lineno, n.col_offset) < end:
            for t in n.targets:
                if isinstance(t, (ast.Attribute, ast.Subscript)) and ROOT_RE.match(spec.spell(t)).group(1) == name:
                    return True
    return False


def prior_name_del(fn, name, line):
    for n in ast.walk(fn):
        if isinstance(n, ast.Delete) and n.lineno < line:
            for t in n.targets:
                if name in binder.target_names(t):
                    return True
    return False


def latest_binding(fn, accs, name, line, col):
    """The textually latest store of bare `name` before (line, col): (access, enclosing Assign or None)."""
    best = None
    for a in accs:
        if a.kind == "set" and a.name == name and (a.node.lineno, a.node.col_offset) < (line, col):
            if best is None or (a.node.lineno, a.node.col_offset) > (best.node.lineno, best.node.col_offset):
                best = a
    return best


def rejected_namedtuple_binding(fn, name, line):
    for n in ast.walk(fn):
        if isinstance(n, ast.Assign) and n.lineno < line and isinstance(n.value, ast.Call):
            f = spec.wcb(spec.spell(n.value.func))
            if (f == "namedtuple" or f.endswith(".namedtuple")) and name in [x for t in n.targets for x in binder.target_names(t)] \
                    and not spec.valid_namedtuple_declaration(n.value):
                return True
    return False


def store_rebinding_base(fn, name, line):
    """an attribute / item store (assignment, for, with target) whose root variable is `name`, before `line`."""
    for n in ast.walk(fn):
        if isinstance(n, (ast.Attribute, ast.Subscript)) and isinstance(n.ctx, ast.Store) and n.lineno <= line:
            if ROOT_RE.match(spec.spell(n)).group(1) == name:
                return True
    return False


def chain_over_xattr(node):
    """the name chain of `node` runs through a direct getattr-family call (whose spelled base is the
    builtin's name, so definedness is checked against `getattr`, not the object)."""
    while True:
        if isinstance(node, ast.Call):
            if spec.direct_xattr(node):
                return True
            node = node.func
        elif isinstance(node, (ast.Attribute, ast.Subscript, ast.Starred)):
            node = node.value
        else:
            return False


def same_statement_rebinds(fn, name, line, col):
    """the innermost statement containing the position binds `name` through its own targets."""
    best = None
    for n in ast.walk(fn):
        if isinstance(n, ast.stmt) and binder.pos_in(n, line, col):
            if best is None or (n.lineno, n.col_offset) >= (best.lineno, best.col_offset):
                best = n
    if best is None:
        return False
    if isinstance(best, ast.Assign):
        ts = best.targets
    elif isinstance(best, (ast.AugAssign, ast.AnnAssign)):
        ts = [best.target]
    elif isinstance(best, (ast.For, ast.AsyncFor)):
        ts = [best.target]
    elif isinstance(best, (ast.With, ast.AsyncWith)):
        ts = [i.optional_vars for i in best.items if i.optional_vars is not None]
    else:
        ts = []
    return any(name in binder.target_names(t) or ROOT_RE.match(spec.spell(t)).group(1) == name for t in ts)


def inside_plugin_scope(pm, node):
    """node sits inside the first argument of a defaultdict(...) call, which rattr analyses as the
    body of a dummy lambda in its own scope."""
    while node in pm:
        p = pm[node]
        if isinstance(p, ast.Call) and spec.callee_kind(p) == "defaultdict" and p.args and p.args[0] is node:
            return True
        node = p
    return False


def in_xattr_object(pm, node):
    """node is (inside) the object argument of a direct getattr-family call."""
    if chain_over_xattr(node):
        return True
    while node in pm:
        p = pm[node]
        if isinstance(p, ast.Call) and spec.direct_xattr(p) and p.args and p.args[0] is node:
            return True
        if isinstance(p, (ast.Attribute, ast.Subscript, ast.Starred)) and p.value is node:
            node = p
            continue
        return False
    return False


def run(tier, seed, build):
    warnings.simplefilter("ignore")
    res = common.Result(PID)
    res.rule = ("same generated modules as C01 (every binding construct occurs: parameters of all five kinds, plain / "
                "augmented / annotated / walrus assignment, for, with, except, match, comprehensions, del of names, "
                "attributes and items) + witnesses; per function: real FunctionAnalyser vs Lean model (the ordered list of "
                "diagnostics must agree), then each real 'potentially undefined' warning is checked against an independent "
                "straight-line binder, and undefined / deleted names must be warned about. non-trivial = distinct function "
                "with >= 1 local binding. OPTIONS stage (props/c17opts.py): generated projects (target + followed "
                "local modules / package) with every kind of module-level binder, names the run's -x patterns do / do not "
                "match, @rattr_ignore / @rattr_results, -F, -f 0..3 through argv / --config toml; the whole pipeline "
                "in-process (parse_arguments -> Config -> main) and through the real CLI; a 'potentially undefined' "
                "warning about a name CPython has in that module's namespace is a violation; every module also goes "
                "through the Lean root-context / file-analyser model under the run's exclusion patterns; non-trivial "
                "there = distinct project run with >= 1 exclusion pattern that ended normally")
    rng = random.Random(seed)
    n_modules = 60 if tier == "quick" else 900
    model = common.Model()
    from props.bodygen import PREAMBLE
    wit_names = [l.split("(")[0][4:] for l in WITNESSES.splitlines() if l.startswith("def ")]
    cases = vl.run_batch(rng, n_modules, model, extra_sources=[(PREAMBLE + WITNESSES, wit_names)])
    cases += vl.run_file_batch(rng, n_modules // 3, model)
    __import__("props.filestage").filestage.run_file_stage(res, random.Random(seed + 7017), 120 if tier == "quick" else 1500, model)
    # the options that touch definitions (-x, -F, -f, @rattr_ignore, @rattr_results): whole projects, in-process
    # exactly as the CLI would + the real CLI, CPython's own module namespaces as the oracle (props/c17opts.py)
    from props import c17opts
    quick = tier == "quick"
    c17opts.run_options_stage(res, random.Random(seed + 17017), 50 if quick else 700, model,
                              n_cli=12 if quick else 90, n_model=30 if quick else 350)
    trees = {}
    for c in cases:
        res.evaluations += 1
        case = {"function": c.fn_src}
        if c.diff is not None:
            res.disagreements.append({"case": case, "diff": c.diff[:2000]})
        tree = trees.get(c.module_src)
        if tree is None:
            tree = trees[c.module_src] = ast.parse(c.module_src)
        if isinstance(c.fn, ast.Lambda):
            continue            # a lambda body is a single expression: no statements to read straight-line
        fn = next(n for n in ast.walk(tree) if isinstance(n, (ast.FunctionDef, ast.AsyncFunctionDef))
                  and n.name == c.name and n.lineno == c.fn.lineno)
        anywhere = binder.bound_anywhere(tree)
        module_names = binder.module_bound(tree)
        if any(isinstance(n, (ast.Assign, ast.For, ast.With, ast.NamedExpr, ast.AugAssign, ast.AnnAssign)) for n in ast.walk(fn)):
            res.nontrivial.add(common.digest(c.fn_src))
        warned = {}
        accs = spec.accesses(fn, spec.local_class_names(fn, vl.MODULE_CLASSES))
        pm = spec.parent_map(fn)
        for ev in c.events:
            m = re.match(r"^'(.*)' potentially undefined$", ev["message"])
            if not m:
                continue
            name = m.group(1)
            warned.setdefault(name, set()).add((ev["line"], ev["col"]))
            b = binder.bound_at(tree, fn, ev["line"], ev["col"])
            if b is binder.EXEMPT or b is None:
                res.count("warning:in-nested-scope-or-unlocated")
                continue
            if name not in b:
                res.count("warning:justified")
                continue
            node = node_at(fn, ev["line"], ev["col"])
            how = b[name]
            lb = latest_binding(fn, accs, name, ev["line"], ev["col"])
            if lb is not None and lb.tags and how not in ("parameter",):
                cause = "binding-in-position-rattr-does-not-visit"
            elif how == "assign" and rejected_namedtuple_binding(fn, name, ev["line"] + 1):
                cause = "bound-by-assign:namedtuple-declaration-rejected"
            elif lb is not None and how.startswith("walrus") and inside_plugin_scope(pm, lb.node):
                cause = "bound-by-walrus-inside-defaultdict-factory-expression"
            elif isinstance(node, ast.Name) and isinstance(node.ctx, ast.Del):
                cause = "on-the-del-statement-itself"
            elif attr_del_between(fn, name, (lb.node.lineno, lb.node.col_offset) if lb is not None else (0, 0),
                                  (ev["line"], ev["col"])):
                cause = "after-del-of-attribute-or-item"
            else:
                cause = "bound-by-" + how
            sig = "spurious-warning:" + cause
            res.count("verdict:" + sig)
            res.violations.append({"signature": sig, "case": case, "name": name, "line": ev["line"], "col": ev["col"],
                                   "bound_by": how})
        if c.im["outcome"] != "ok":
            continue
        # must-warn
        for a in accs:
            if a.tags or a.kind == "set":
                continue
            root = ROOT_RE.match(a.name).group(1)
            if not root or root.startswith("@"):
                continue
            if root not in anywhere:
                if root in warned:
                    res.count("must-warn:undefined-name:warned")
                else:
                    if in_xattr_object(pm, a.node) or (isinstance(a.node, ast.Call) and spec.direct_xattr(a.node)):
                        cause = "getattr-family-object"
                    elif store_rebinding_base(fn, root, 10 ** 9):
                        cause = "base-registered-by-attribute-or-item-store"
                    else:
                        cause = "plain"
                    sig = "missing-warning:undefined-name:" + cause
                    res.count("verdict:" + sig)
                    res.violations.append({"signature": sig, "case": case, "name": root, "line": a.node.lineno})
                continue
            b = binder.bound_at(tree, fn, a.node.lineno, a.node.col_offset)
            if b is binder.EXEMPT or b is None or root in b:
                continue
            if prior_name_del(fn, root, a.node.lineno) and a.kind != "del":
                if (a.node.lineno, a.node.col_offset) in warned.get(root, ()):
                    res.count("must-warn:use-after-del:warned")
                else:
                    if in_xattr_object(pm, a.node) or (isinstance(a.node, ast.Call) and spec.direct_xattr(a.node)):
                        cause = "getattr-family-object"
                    elif same_statement_rebinds(fn, root, a.node.lineno, a.node.col_offset):
                        cause = "rebound-by-target-of-the-same-statement"
                    elif root in module_names:
                        cause = "local-named-like-module-level-name-or-builtin"
                    elif store_rebinding_base(fn, root, a.node.lineno):
                        cause = "base-rebound-by-attribute-or-item-store"
                    else:
                        cause = "plain"
                    sig = "missing-warning:use-after-del:" + cause
                    res.count("verdict:" + sig)
                    res.violations.append({"signature": sig, "case": case, "name": root, "line": a.node.lineno})
        res.sample({"function": c.fn_src, "warnings": sorted(warned)}, cap=3)
    res.assumptions = [
        "[interp] straight-line reading: a name counts as bound at a use only if a PREVIOUS statement (or an enclosing header: for / with / except / match / comprehension) bound it",
        "[interp] warnings located inside nested def / lambda / class bodies are not judged",
        "[interp] options stage: a module-level name is what CPython's import of the module leaves in vars(module); "
        "targets of a module-level for / with statement are bindings but none of 'definition, import or assignment': "
        "warnings about them are counted, not judged",
        "[interp] options stage: a walrus at module level counts as an assignment",
        "[interp] options stage, must-warn: only plain undecorated module-level defs of the TARGET whose name matches no -x "
        "pattern are required to warn about a name bound nowhere (which imports are followed is C12's subject)",
    ]
    return res


def replay(path):
    import json
    d = json.load(open(path))
    if isinstance(d.get("case"), dict) and d["case"].get("stage") == "options":
        from props import c17opts
        return c17opts.replay(d)
    print(json.dumps(d, indent=1)[:5000])
    return 0

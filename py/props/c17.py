"""C17 — undefined-name warnings track Python's local binding rules."""
from __future__ import annotations

import ast
import random
import re
import warnings

import common
from props import accessspec as spec
from props import binder
from props import visitlib as vl

PID = "C17"
TABLES = ["RC", "C17"]
ROOT_RE = re.compile(r"^\*?([^.\[\(]*)")

WITNESSES = '''
def w_except(a):
    try:
        a.x
    except KeyError as e:
        e.args
def w_match(a):
    match a.m:
        case [u, *v]:
            u.p
            v.q
        case {"k": w, **r}:
            w.q
            r.z
        case Cls(x=q):
            q.z
def w_del_name(a):
    x = a.v
    del x
def w_del_attr(p):
    del p.attr
    p.after
def w_del_item(p):
    del p[0]
    p.after
def w_walrus_comp(xs):
    [y for x in xs if (y := x.v)]
    y.after
def w_use_after_del(a):
    x = a.v
    del x
    x.gone
def w_undefined(a):
    totally_unknown_name.attr
    a.ok
def w_bound_kinds(a, b, /, c, *va, k, **kw):
    l1 = a.x
    l2: int = b.y
    l3 = 0
    l3 += c.z
    (l4 := k.w)
    for l5 in va:
        l5.p
    with kw.cm() as l6:
        l6.q
    [t.r for t in l1 if t.s]
    (l7): int = a.y
    (l8): 'Str' = l7.w
    l1.u; l2.u; l3.u; l4.u; l5.u; l6.u; l7.u; l8.u
    print(glob, other_glob, helper, Cls, lam, NT, os, collections, defaultdict, len, __name__)
'''


def node_at(fn, line, col):
    best = None
    for n in ast.walk(fn):
        if getattr(n, "lineno", None) == line and getattr(n, "col_offset", None) == col and isinstance(n, ast.expr):
            if best is None or (n.end_lineno, n.end_col_offset) > (best.end_lineno, best.end_col_offset):
                best = n
    return best


def prior_attr_del(fn, name, line):
    for n in ast.walk(fn):
        if isinstance(n, ast.Delete) and n.lineno < line:
            for t in n.targets:
                if isinstance(t, (ast.Attribute, ast.Subscript)) and ROOT_RE.match(spec.spell(t)).group(1) == name:
                    return True
    return False


def attr_del_between(fn, name, start, end):
    """a `del name.attr` / `del name[i]` located after `start` and before `end` (positions)."""
    for n in ast.walk(fn):
        if isinstance(n, ast.Delete) and start < (n.lineno, n.col_offset) and (n.end_lineno, n.end_col_offset) <= end:
            for t in n.targets:
                if isinstance(t, (ast.Attribute, ast.Subscript)) and ROOT_RE.match(spec.spell(t)).group(1) == name:
                    return True
    return False


def prior_name_del(fn, name, line):
    for n in ast.walk(fn):
        if isinstance(n, ast.Delete) and n.lineno < line:
            for t in n.targets:
                if name in binder.target_names(t):
                    return True
    return False


def latest_binding(fn, accs, name, line, col):
    """The textually latest store of bare `name` before (line, col): (access, enclosing Assign or None)."""
    best = None
    for a in accs:
        if a.kind == "set" and a.name == name and (a.node.lineno, a.node.col_offset) < (line, col):
            if best is None or (a.node.lineno, a.node.col_offset) > (best.node.lineno, best.node.col_offset):
                best = a
    return best


def rejected_namedtuple_binding(fn, name, line):
    for n in ast.walk(fn):
        if isinstance(n, ast.Assign) and n.lineno < line and isinstance(n.value, ast.Call):
            f = spec.wcb(spec.spell(n.value.func))
            if (f == "namedtuple" or f.endswith(".namedtuple")) and name in [x for t in n.targets for x in binder.target_names(t)] \
                    and not spec.valid_namedtuple_declaration(n.value):
                return True
    return False


def store_rebinding_base(fn, name, line):
    """an attribute / item store (assignment, for, with target) whose root variable is `name`, before `line`."""
    for n in ast.walk(fn):
        if isinstance(n, (ast.Attribute, ast.Subscript)) and isinstance(n.ctx, ast.Store) and n.lineno <= line:
            if ROOT_RE.match(spec.spell(n)).group(1) == name:
                return True
    return False


def chain_over_xattr(node):
    """the name chain of `node` runs through a direct getattr-family call (whose spelled base is the
    builtin's name, so definedness is checked against `getattr`, not the object)."""
    while True:
        if isinstance(node, ast.Call):
            if spec.direct_xattr(node):
                return True
            node = node.func
        elif isinstance(node, (ast.Attribute, ast.Subscript, ast.Starred)):
            node = node.value
        else:
            return False


def same_statement_rebinds(fn, name, line, col):
    """the innermost statement containing the position binds `name` through its own targets."""
    best = None
    for n in ast.walk(fn):
        if isinstance(n, ast.stmt) and binder.pos_in(n, line, col):
            if best is None or (n.lineno, n.col_offset) >= (best.lineno, best.col_offset):
                best = n
    if best is None:
        return False
    if isinstance(best, ast.Assign):
        ts = best.targets
    elif isinstance(best, (ast.AugAssign, ast.AnnAssign)):
        ts = [best.target]
    elif isinstance(best, (ast.For, ast.AsyncFor)):
        ts = [best.target]
    elif isinstance(best, (ast.With, ast.AsyncWith)):
        ts = [i.optional_vars for i in best.items if i.optional_vars is not None]
    else:
        ts = []
    return any(name in binder.target_names(t) or ROOT_RE.match(spec.spell(t)).group(1) == name for t in ts)


def inside_plugin_scope(pm, node):
    """node sits inside the first argument of a defaultdict(...) call, which rattr analyses as the
    body of a dummy lambda in its own scope."""
    while node in pm:
        p = pm[node]
        if isinstance(p, ast.Call) and spec.callee_kind(p) == "defaultdict" and p.args and p.args[0] is node:
            return True
        node = p
    return False


def in_xattr_object(pm, node):
    """node is (inside) the object argument of a direct getattr-family call."""
    if chain_over_xattr(node):
        return True
    while node in pm:
        p = pm[node]
        if isinstance(p, ast.Call) and spec.direct_xattr(p) and p.args and p.args[0] is node:
            return True
        if isinstance(p, (ast.Attribute, ast.Subscript, ast.Starred)) and p.value is node:
            node = p
            continue
        return False
    return False


def judge_case(res, c, trees, stage=None, meta=None):
    """one analysed function (visitlib.Case / c17pos.FileCase): correspondence + the binder oracle."""
    from props import c17order as order
    res.evaluations += 1
    case = {"function": c.fn_src}
    if stage is not None:
        case["stage"] = stage
        if meta:
            case["meta"] = meta
        if getattr(c, "file", None):
            case["file"], case["via"] = c.file, c.via
    if c.diff is not None:
        res.disagreements.append({"case": case, "diff": c.diff[:2000]})
    tree = trees.get(c.module_src)
    if tree is None:
        tree = trees[c.module_src] = ast.parse(c.module_src)
    if isinstance(c.fn, ast.Lambda):
        return            # a lambda body is a single expression: no statements to read straight-line
    fn = next(n for n in ast.walk(tree) if isinstance(n, (ast.FunctionDef, ast.AsyncFunctionDef))
              and n.name == c.name and n.lineno == c.fn.lineno)
    anywhere = binder.bound_anywhere(tree)
    module_names = binder.module_bound(tree)
    if any(isinstance(n, (ast.Assign, ast.For, ast.With, ast.NamedExpr, ast.AugAssign, ast.AnnAssign)) for n in ast.walk(fn)):
        res.nontrivial.add(common.digest(c.fn_src))
    warned = {}
    accs = spec.accesses(fn, spec.local_class_names(fn, vl.MODULE_CLASSES))
    pm = spec.parent_map(fn)
    for ev in c.events:
        m = re.match(r"^'(.*)' potentially undefined$", ev["message"])
        if not m:
            continue
        name = m.group(1)
        warned.setdefault(name, set()).add((ev["line"], ev["col"]))
        wb = order.walrus_at_chain_base(fn, ev["line"], ev["col"], name)
        if wb is not None and binder.bound_at(tree, fn, ev["line"], ev["col"]) not in (binder.EXEMPT, None):
            # `(x := e).a` / `(x := e)[i]` / `*(x := e)` / `(x := e)(...)`: the value whose attribute / item is taken
            # IS the walrus, so `x` has just been bound; the expression holds no load of `x` at all
            sig = "spurious-warning:bound-by-walrus:the-reported-name-chain-starts-at-the-walrus-itself"
            res.count("verdict:" + sig)
            res.violations.append({"signature": sig, "case": case, "name": name, "line": ev["line"], "col": ev["col"],
                                   "bound_by": "walrus", "expression": ast.unparse(wb[0])})
            continue
        b, via = order.bound_for_load(tree, fn, pm, ev["line"], ev["col"], name)
        if b is binder.EXEMPT or b is None:
            res.count("warning:in-nested-scope-or-unlocated")
            continue
        if name not in b:
            res.count("warning:justified")
            continue
        res.count("warning:name-bound-via:" + via)
        node = node_at(fn, ev["line"], ev["col"])
        how = b[name]
        lb = latest_binding(fn, accs, name, ev["line"], ev["col"])
        if lb is not None and lb.tags and how not in ("parameter",):
            cause = "binding-in-position-rattr-does-not-visit"
        elif how == "assign" and rejected_namedtuple_binding(fn, name, ev["line"] + 1):
            cause = "bound-by-assign:namedtuple-declaration-rejected"
        elif lb is not None and how.startswith("walrus") and inside_plugin_scope(pm, lb.node):
            cause = "bound-by-walrus-inside-defaultdict-factory-expression"
        elif isinstance(node, ast.Name) and isinstance(node.ctx, ast.Del):
            cause = "on-the-del-statement-itself"
        elif attr_del_between(fn, name, (lb.node.lineno, lb.node.col_offset) if lb is not None else (0, 0),
                              (ev["line"], ev["col"])):
            cause = "after-del-of-attribute-or-item"
        else:
            cause = "bound-by-" + how
            if via == "earlier-in-the-same-statement":
                cause += order.same_statement_shape(fn, pm, lb.node if lb is not None else None, ev["line"], ev["col"], name)
        sig = "spurious-warning:" + cause
        res.count("verdict:" + sig)
        res.violations.append({"signature": sig, "case": case, "name": name, "line": ev["line"], "col": ev["col"],
                               "bound_by": how, "via": via})
    if c.im["outcome"] != "ok":
        return
    # must-warn
    for a in accs:
        if a.tags or a.kind == "set":
            continue
        root = ROOT_RE.match(a.name).group(1)
        if not root or root.startswith("@"):
            continue
        if root not in anywhere:
            if root in warned:
                res.count("must-warn:undefined-name:warned")
            else:
                if in_xattr_object(pm, a.node) or (isinstance(a.node, ast.Call) and spec.direct_xattr(a.node)):
                    cause = "getattr-family-object"
                elif store_rebinding_base(fn, root, 10 ** 9):
                    cause = "base-registered-by-attribute-or-item-store"
                else:
                    cause = "plain"
                sig = "missing-warning:undefined-name:" + cause
                res.count("verdict:" + sig)
                res.violations.append({"signature": sig, "case": case, "name": root, "line": a.node.lineno})
            continue
        b = binder.bound_at(tree, fn, a.node.lineno, a.node.col_offset)
        if b is binder.EXEMPT or b is None or root in b:
            continue
        if root in order.header_walruses(fn, a.node.lineno, a.node.col_offset) or root in order.possible_same_statement(fn, a.node):
            continue        # (re)bound by a walrus of an enclosing header / of the same statement
        if prior_name_del(fn, root, a.node.lineno) and a.kind != "del":
            if (a.node.lineno, a.node.col_offset) in warned.get(root, ()):
                res.count("must-warn:use-after-del:warned")
            else:
                if in_xattr_object(pm, a.node) or (isinstance(a.node, ast.Call) and spec.direct_xattr(a.node)):
                    cause = "getattr-family-object"
                elif same_statement_rebinds(fn, root, a.node.lineno, a.node.col_offset):
                    cause = "rebound-by-target-of-the-same-statement"
                elif root in module_names:
                    cause = "local-named-like-module-level-name-or-builtin"
                elif store_rebinding_base(fn, root, a.node.lineno):
                    cause = "base-rebound-by-attribute-or-item-store"
                else:
                    cause = "plain"
                sig = "missing-warning:use-after-del:" + cause
                res.count("verdict:" + sig)
                res.violations.append({"signature": sig, "case": case, "name": root, "line": a.node.lineno})
    if stage is None:
        res.sample({"function": c.fn_src, "warnings": sorted(warned)}, cap=3)


def run_positions_stage(res, rng, tier, model, trees):
    from props import c17pos
    quick = tier == "quick"
    fns = (c17pos.walrus_functions(rng, 100 if quick else 2500, core=0.45 if quick else 1.0)
           + c17pos.call_functions(rng, 100 if quick else 4000, core=0.45 if quick else 1.0))
    ok_fns = []
    for c, meta in c17pos.run_functions(fns, model):
        res.count("positions:" + meta["family"])
        res.count("positions:outcome:" + c.im["outcome"])
        judge_case(res, c, trees, stage="positions", meta=meta)
        if c.im["outcome"] == "ok":
            ok_fns.append((c.name, next(s for n, s, _ in fns if n == c.name), meta))
    # whole files: the same functions (those that end normally) through the CLI and in-process, in the target and in a
    # followed import
    rng.shuffle(ok_fns)
    n_runs = 2 if quick else 8
    per = 60 if quick else 150
    for i in range(n_runs):
        part = ok_fns[i * 2 * per:(i + 1) * 2 * per]
        if len(part) < 4:
            break
        style = ["from-star", "import", "from-names"][i % 3]
        files = c17pos.file_project(part[:len(part) // 2], part[len(part) // 2:], style)
        via = "cli" if i % 2 == 0 else "in-process"
        run = c17pos.run_files(files, 1 + i % 2, via)
        res.count(f"positions:file-run:{via}:{run['outcome']}")
        if run["outcome"] != "ok":
            res.internal_errors.append({"what": "positions stage: a file run over functions that each end normally did not",
                                        "via": via, "outcome": run["outcome"], "exc": run.get("exc", "")[:300],
                                        "files": files})
            continue
        metas = {n: m for n, _, m in part}
        for fc in c17pos.file_cases(files, run, via):
            res.count(f"positions:file-function:{fc.file}")
            judge_case(res, fc, trees, stage="positions-file", meta=dict(metas.get(fc.name, {}), argv=run["argv"], import_style=style))


def run(tier, seed, build):
    warnings.simplefilter("ignore")
    res = common.Result(PID)
    res.rule = ("same generated modules as C01 (every binding construct occurs: parameters of all five kinds, plain / "
                "augmented / annotated / walrus assignment, for, with, except, match, comprehensions, del of names, "
                "attributes and items) + witnesses; per function: real FunctionAnalyser vs Lean model (the ordered list of "
                "diagnostics must agree), then each real 'potentially undefined' warning is checked against an independent "
                "straight-line binder, and undefined / deleted names must be warned about. non-trivial = distinct function "
                "with >= 1 local binding. OPTIONS stage (props/c17opts.py): generated projects (target + followed "
                "local modules / package) with every kind of module-level binder, names the run's -x patterns do / do not "
                "match, @rattr_ignore / @rattr_results, -F, -f 0..3 through argv / --config toml; the whole pipeline "
                "in-process (parse_arguments -> Config -> main) and through the real CLI; a 'potentially undefined' "
                "warning about a name CPython has in that module's namespace is a violation; every module also goes "
                "through the Lean root-context / file-analyser model under the run's exclusion patterns; non-trivial "
                "there = distinct project run with >= 1 exclusion pattern that ended normally. POSITIONS stage "
                "(props/c17pos.py, oracle refinement props/c17order.py): walrus-position forms (base of an attribute / item / "
                "starred / call chain, argument / keyword / ** operand of every call kind, operator operand, index, f-string, "
                "display element / key / value, comprehension condition / element / iterable, lambda, getattr-family ...) x "
                "statement contexts x uses (same statement, body of the compound statement, after it); call kinds x argument "
                "layouts (undefined / walrus-bound / deleted / bound name in positional, keyword, *, ** slots) x statement "
                "contexts (assigned one-to-one, annotated, walrus, returned, discarded, nested ...): real FunctionAnalyser vs "
                "Lean model, then whole files through the CLI and in-process, in the target and in a followed import; "
                "non-trivial there = distinct function")
    rng = random.Random(seed)
    n_modules = 60 if tier == "quick" else 900
    model = common.Model()
    from props.bodygen import PREAMBLE
    wit_names = [l.split("(")[0][4:] for l in WITNESSES.splitlines() if l.startswith("def ")]
    cases = vl.run_batch(rng, n_modules, model, extra_sources=[(PREAMBLE + WITNESSES, wit_names)])
    cases += vl.run_file_batch(rng, n_modules // 3, model)
    __import__("props.filestage").filestage.run_file_stage(res, random.Random(seed + 7017), 120 if tier == "quick" else 1500, model)
    # the options that touch definitions (-x, -F, -f, @rattr_ignore, @rattr_results): whole projects, in-process
    # exactly as the CLI would + the real CLI, CPython's own module namespaces as the oracle (props/c17opts.py)
    from props import c17opts
    quick = tier == "quick"
    c17opts.run_options_stage(res, random.Random(seed + 17017), 50 if quick else 700, model,
                              n_cli=12 if quick else 90, n_model=30 if quick else 350)
    trees = {}
    for c in cases:
        judge_case(res, c, trees)
    # where inside a statement a binding / an unbound load sits (props/c17pos.py): walrus positions x statement
    # contexts x uses, call kinds x argument layouts x statement contexts; FunctionAnalyser + Lean model, then
    # whole files through the CLI / in-process, target and followed import
    run_positions_stage(res, random.Random(seed + 27017), tier, model, trees)
    res.assumptions = [
        "[interp] straight-line reading: a name counts as bound at a use only if a PREVIOUS statement (or an enclosing header: for / with / except / match / comprehension) bound it",
        "[interp] warnings located inside nested def / lambda / class bodies are not judged",
        "[interp] sub-statement order (props/c17order.py): a walrus also counts as an earlier binding when it sits in the header "
        "of an enclosing for / with / match statement, or in the same statement and is both textually complete before the load "
        "and evaluated before it by CPython (not in the other arm of a conditional expression, not inside a comprehension / "
        "nested scope); a warning located on a name chain whose base IS `(x := ...)` is a warning about a bound name",
        "[interp] options stage: a module-level name is what CPython's import of the module leaves in vars(module); "
        "targets of a module-level for / with statement are bindings but none of 'definition, import or assignment': "
        "warnings about them are counted, not judged",
        "[interp] options stage: a walrus at module level counts as an assignment",
        "[interp] options stage, must-warn: only plain undecorated module-level defs of the TARGET whose name matches no -x "
        "pattern are required to warn about a name bound nowhere (which imports are followed is C12's subject)",
    ]
    return res


def replay(path):
    import json
    d = json.load(open(path))
    if isinstance(d.get("case"), dict) and d["case"].get("stage") == "options":
        from props import c17opts
        return c17opts.replay(d)
    if isinstance(d.get("case"), dict) and "function" in d["case"] and d.get("signature"):
        return replay_function(d)
    print(json.dumps(d, indent=1)[:5000])
    return 0


def replay_function(d):
    """re-run one recorded function: the real FunctionAnalyser (+ Lean model) and, for a file-stage case, the real
    CLI on a one-function project (in the target or in a followed import, as recorded); 1 if the verdict reproduces."""
    from props import c17pos
    from props.bodygen import PREAMBLE
    warnings.simplefilter("ignore")
    case = d["case"]
    src = case["function"] + "\n"
    name = re.match(r"^(?:async )?def (\w+)", src).group(1)
    print(PREAMBLE.rstrip() + "\n\n" + src)
    hits = 0
    res = common.Result("REPLAY")
    fname = name
    cases = c17pos.run_functions([(fname, src, case.get("meta") or {})], common.Model())
    for c, meta in cases:
        print("[FunctionAnalyser] outcome:", c.im["outcome"], " undefined-name warnings:",
              sorted((e["line"], e["col"], e["message"]) for e in c.events if "potentially undefined" in e["message"]))
        if c.diff:
            print("[model != implementation]", c.diff[:600])
        judge_case(res, c, {}, stage="replay", meta=meta)
    if case.get("stage") == "positions-file":
        other = ("other0", "def other0(a, b):\n    return a.x\n", {})
        mine = (fname, src, {})
        files = c17pos.file_project([mine] if case.get("file") == "target.py" else [other],
                                    [other] if case.get("file") == "target.py" else [mine],
                                    (case.get("meta") or {}).get("import_style", "from-star"))
        for via in ("cli", "in-process"):
            run = c17pos.run_files(files, 1, via)
            print(f"[{via}] (cd <project>; python -m rattr {' '.join(run['argv'])})  outcome={run['outcome']} warnings={sorted(set(run['warnings']))}")
            for fc in c17pos.file_cases(files, run, via):
                judge_case(res, fc, {}, stage="replay-file")
    for v in res.violations:
        mark = v["signature"] == d["signature"] and v.get("name") == d.get("name")
        hits += bool(mark)
        print("VIOLATION", v["signature"], "name=" + str(v.get("name")), "line=" + str(v.get("line")),
              "(" + v["case"].get("via", "function-analyser") + ")", " <== the recorded violation" if mark else "")
    print("reproduced" if hits else "not reproduced")
    return 1 if hits else 0

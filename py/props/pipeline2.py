"""Correspondence of the MULTI-file pipeline (`python -m rattr -o results --follow-imports 1 target.py`).

`run_pipeline2_stage(res, rng, n, model)` generates `n` multi-file projects (2-4 modules + package
`__init__`s; from-imports, module imports with dotted calls, aliases, relative imports inside
packages, `__init__` re-exports by name and by `*`, classes with `__init__` and static methods across
modules, same-named helpers in target and import, chains of imports of depth >= 2, module cycles
incl. a module importing the target back) plus a curated list, and demands for each: the Lean model
`Pipeline2.run2` (op `pipeline2`; input = the AST encoding of every project file + the location facts
computed by the REAL locator functions) produces exactly

  * the outcome class of the real `rattr.__main__.main` run in-process with `-o results -f 1`,
  * the printed results document,
  * every diagnostic, in emission order (target root context, imports in BFS order, target file
    walk, result generation),
  * the sets of EVERY FileIr (target and followed modules) as result generation leaves them, and the
    keys of `import_irs` in order.

A sample also goes through the real CLI in a subprocess.

Facts protocol: the model answers `crash Need{Qual,Mod,File}:<what>` for a fact it was not given;
the harness computes it with the real function and asks again (bounded number of rounds).

Outside the fragment (`pipeline2:skipped:*`): what `filelib.Encoder` cannot encode; star imports of
modules without Python source; documents that depend on CPython's hash order (a tie of equal-named
resolvable Call symbols inside one function whose two orders give different answers).
"""
from __future__ import annotations

import ast
import contextlib
import io
import json
import os
import random
import re
import shutil
import subprocess
import sys
import tempfile
from pathlib import Path
from unittest import mock

sys.path.insert(0, str(Path(__file__).resolve().parent.parent))

import common  # noqa: E402
import impl  # noqa: E402
from props import filelib, pipeline
from props import visitlib as vl

from rattr.analyser.util import is_excluded_name
from rattr.cli import parse_arguments
from rattr.config import Config, State
from rattr.config.state import enter_file
from rattr.models.symbol import PYTHON_BUILTINS
from rattr.module_locator.util import (
    derive_module_name_from_path,
    find_module_name_and_spec,
    is_in_import_blacklist,
    is_in_pip,
    is_in_stdlib,
)

EXCLUDE = ["excl_.*", "Hidden"]
EXCLUDE_IMPORTS = ["ghost_.*"]
MAX_ROUNDS = 60


def argv_for(target_rel):
    a = ["-o", "results", "-f", "1", "-w", "all"]
    for p in EXCLUDE:
        a += ["-x", p]
    for p in EXCLUDE_IMPORTS:
        a += ["-F", p]
    return a + [target_rel]


# ------------------------------------------------------------------ diagnostics


def _as(m):
    return m if m else ""


IMPORT_TEMPLATES = [
    (re.compile(r"^unable to resolve call to '(.*)' in import '(.*)'(?: \(imported as '(.*)'\))?, it is likely ignored$"),
     "import-likely-ignored", lambda m: f"{m[1]}|{m[2]}|{_as(m[3])}"),
    (re.compile(r"^unable to resolve call to '(.*)' in import '(.*)'(?: \(imported as '(.*)'\))?, it is a method$"),
     "import-is-method", lambda m: f"{m[1]}|{m[2]}|{_as(m[3])}"),
    (re.compile(r"^unable to resolve call to '(.*)' in import '(.*)'(?: \(imported as '(.*)'\))?, it is likely undefined$"),
     "import-likely-undefined", lambda m: f"{m[1]}|{m[2]}|{_as(m[3])}"),
    (re.compile(r"^ignoring call to '(.*)' imported from pip installed module '(.*)'$"), "import-ignored-pip", lambda m: f"{m[1]}|{m[2]}"),
    (re.compile(r"^ignoring call to '(.*)' imported from stdlib module '(.*)'$"), "import-ignored-stdlib", lambda m: f"{m[1]}|{m[2]}"),
    (re.compile(r"^unable to resolve builtin module '(.*)'$"), "import-builtin", lambda m: m[1]),
    (re.compile(r"^unable to resolve import '(.*)'$"), "import-unresolved", lambda m: m[1]),
]


def template_of(ev):
    msg = ev["message"]
    for pat, tid, arg in IMPORT_TEMPLATES:
        m = pat.match(msg)
        if m:
            return [ev["level"], tid, arg(m)]
    return pipeline.template_of(ev)


# ------------------------------------------------------------------ the real thing, in-process


def _sets_json(file_idx, fir):
    return [{"file": file_idx, "name": k.name, "gets": vl.names_json(v["gets"]), "sets": vl.names_json(v["sets"]),
             "dels": vl.names_json(v["dels"])} for k, v in fir._file_ir.items()]


def real_pipeline2(project: Path, target_rel: str):
    """`rattr.__main__.main` on project/target_rel with imports followed."""
    import rattr.__main__ as main_mod

    out = io.StringIO()
    with impl.in_dir(str(project)):
        pipeline._drop_config()
        impl.clear_caches_fast()
        try:
            with impl.Tap():
                args = parse_arguments(sys_args=argv_for(target_rel))
                cfg = Config(arguments=args, state=State())
            captured = {}
            orig = main_mod.generate_results_from_ir

            def gen(*, target_ir, import_irs):
                captured["ir"] = target_ir
                captured["imports"] = import_irs
                captured["irs"] = list(import_irs.keys())
                return orig(target_ir=target_ir, import_irs=import_irs)

            with impl.Tap() as tap, contextlib.redirect_stdout(out), mock.patch.object(main_mod, "generate_results_from_ir", gen):
                oc = impl.outcome_of(main_mod.main, cfg)
        finally:
            pipeline._drop_config()
    diags = [template_of(e) for e in tap.events]
    r = {"diags": filelib.canon_diags(diags), "stdout": out.getvalue(), "store": None, "irs": captured.get("irs")}
    if oc[0] == "ok" and "ir" in captured:
        st = _sets_json(0, captured["ir"])
        for i, (_, fir) in enumerate(captured["imports"].items()):
            st += _sets_json(i + 1, fir)
        r["store"] = st
    if oc[0] == "ok":
        r["outcome"], r["exc"] = "ok", ""
        try:
            doc = json.loads(out.getvalue())
            r["doc"] = {k: {f: sorted(v[f]) for f in ("gets", "sets", "dels", "calls")} for k, v in doc.items()}
        except Exception as e:  # noqa
            r["outcome"], r["exc"] = "crash", "unparseable-stdout:" + type(e).__name__
    elif oc[0] == "fatal":
        fat = [d for d in diags if d[0] == "fatal"]
        r["outcome"], r["exc"] = "fatal", (fat[0][1] if fat else "")
    else:
        r["outcome"], r["exc"] = "crash", oc[1]
    return r


def cli_run(project: Path, target_rel: str, hashseed=0):
    env = dict(os.environ, PYTHONHASHSEED=str(hashseed), PYTHONDONTWRITEBYTECODE="1")
    p = subprocess.run([sys.executable, "-m", "rattr", *argv_for(target_rel)], cwd=str(project), env=env,
                       capture_output=True, text=True, timeout=180)
    r = {"exit": p.returncode, "traceback": "Traceback (most recent call last)" in p.stderr}
    if p.returncode == 0:
        try:
            doc = json.loads(p.stdout)
            r["doc"] = {k: {f: sorted(v[f]) for f in ("gets", "sets", "dels", "calls")} for k, v in doc.items()}
        except Exception:  # noqa
            r["doc"] = None
    return r


# ------------------------------------------------------------------ facts (the REAL locator functions)


def qual_fact(q):
    """What the locator says about the qualified name of an Import symbol."""
    mn, spec = find_module_name_and_spec(q)
    if mn is None:
        return {"module": None, "origin": None, "pySource": True, "builtinLoader": False, "blacklisted": False,
                "inPip": False, "inStdlib": False}
    origin = spec.origin
    py = True
    if origin is not None:
        rp = Path(origin).resolve()
        py = rp.suffix == ".py" and rp.is_file()
        if py and str(rp) != str(origin):
            raise filelib.OutsideFragment("module origin is not a resolved path (enter_file would differ between the two stages)")
    return {"module": mn, "origin": origin, "pySource": bool(py),
            "builtinLoader": "BuiltinImporter" in str(getattr(spec, "loader", None)),
            "blacklisted": bool(is_in_import_blacklist(mn)), "inPip": bool(is_in_pip(mn)), "inStdlib": bool(is_in_stdlib(mn))}


def encode_file(origin: str):
    """(SrcFile JSON, candidate names) for the file at `origin`, encoded as rattr sees it under
    `enter_file(origin)`. Must run inside `impl.in_dir(project)` with a fresh Config."""
    src = Path(origin).read_text()
    tree = ast.parse(src)
    with enter_file(origin):
        enc = filelib.Encoder()
        body = [enc.top(s) for s in tree.body]
        derived = derive_module_name_from_path(Path(origin))
    names = {n.name for n in ast.walk(tree) if isinstance(n, (ast.FunctionDef, ast.AsyncFunctionDef, ast.ClassDef))}
    return ({"origin": origin, "derived": derived, "isInit": Path(origin).name == "__init__.py", "body": body},
            set(enc.candidates), names)


def right_prefixes(name):
    parts = name.split(".")
    return [".".join(parts[:i]) for i in range(len(parts), 0, -1)]


class Facts:
    """The growing fact tables of one project."""

    def __init__(self, project: Path, target_rel: str):
        self.project, self.target_rel = project, target_rel
        self.mods, self.quals, self.files = {}, {}, {}
        self.excluded = set()
        self.target = None
        self.skipped = None

    @contextlib.contextmanager
    def _cfg(self):
        with impl.in_dir(str(self.project)):
            impl.reset_config(target=Path(self.target_rel), _excluded_names=list(EXCLUDE), _follow_imports_level=1,
                              _excluded_imports=list(EXCLUDE_IMPORTS))
            try:
                with enter_file(Path(self.target_rel)):
                    yield
            finally:
                pipeline._drop_config()

    def _names(self, names):
        for n in names:
            for p in right_prefixes(n) + [n + ".*"]:
                if p not in self.mods:
                    self.mods[p] = filelib.mod_fact(p)
                if p not in self.quals:
                    self.quals[p] = qual_fact(p)

    def _file(self, origin):
        sf, cands, names = encode_file(origin)
        self.excluded |= {n for n in names if is_excluded_name(n)}
        self._names(cands)
        return sf

    def seed(self):
        """Everything that can be known up front: every .py file of the project, the names its import
        statements mention."""
        try:
            with self._cfg():
                self.target = self._file(self.target_rel)
                for p in sorted(self.project.rglob("*.py")):
                    o = str(p)
                    self.files[o] = self._file(o)
        except filelib.OutsideFragment as e:
            self.skipped = str(e)
        except SyntaxError:
            self.skipped = "syntax error"

    def supply(self, need):
        """`need` = 'NeedQual:q' | 'NeedMod:q' | 'NeedFile:origin'; False if it cannot be supplied."""
        kind, _, what = need.partition(":")
        try:
            with self._cfg():
                if kind in ("NeedQual", "NeedMod"):
                    before = (len(self.mods), len(self.quals))
                    self._names([what])
                    return (len(self.mods), len(self.quals)) != before
                if kind == "NeedFile":
                    if what in self.files or not Path(what).is_file():
                        return False
                    self.files[what] = self._file(what)
                    return True
        except filelib.OutsideFragment as e:
            self.skipped = str(e)
        except SyntaxError:
            self.skipped = "syntax error"
        return False

    def also_excluded(self, names):
        with self._cfg():
            self.excluded |= {x for x in names if is_excluded_name(x)}

    def payload(self, ties="insertion"):
        return {"env": vl.env_json(), "builtins": list(PYTHON_BUILTINS),
                "mods": [[n, f] for n, f in sorted(self.mods.items())],
                "quals": [[n, f] for n, f in sorted(self.quals.items())],
                "excluded": sorted(self.excluded), "target": self.target,
                "files": [self.files[o] for o in sorted(self.files)], "ties": ties}


# ------------------------------------------------------------------ comparison


def compare(im, mo):
    d = pipeline.compare({**im, "store": None}, mo)
    if d is not None:
        return d
    if im["outcome"] != "ok":
        return None
    if im.get("irs") is not None and im["irs"] != mo.get("irs"):
        return f"import_irs keys: impl={im['irs']} model={mo.get('irs')}"
    if im.get("store") is not None:
        ms = [{"file": e["file"], "name": e["name"], **{f: sorted(map(list, {tuple(n) for n in e[f]})) for f in ("gets", "sets", "dels")}}
              for e in (mo.get("store") or [])]
        if im["store"] != ms:
            for a, b in zip(im["store"], ms):
                if a != b:
                    return f"IR after result generation, file {a['file']} {a['name']}: impl={a} model={b}"
            return f"IR after result generation: impl has {len(im['store'])} keys, model {len(ms)}"
    return None


# ------------------------------------------------------------------ generated projects


def ind(lines, n=1):
    return ["    " * n + l for l in lines]


class Unit:
    __slots__ = ("i", "mod", "kind", "name", "params", "defaults", "kwonly", "edges", "marks")

    @property
    def call(self):
        return self.name + (".sm" if self.kind == "static" else "")


class ProjGen:
    """A random multi-file project with a call graph that crosses the module boundaries."""

    LAYOUTS = ["flat", "flat", "pkg", "pkg", "tpkg", "mixed", "nested", "nested"]
    TWIN_NAMES = ["util", "helper", "Shared"]

    def __init__(self, rng: random.Random):
        self.r = rng
        self.layout = rng.choice(self.LAYOUTS)
        self.shared_params = rng.random() < 0.5
        self.hostile = rng.random() < 0.35
        self.mods = {}          # dotted name -> {"init": bool, "imports": [..], "extra": [..]}
        self.units = []
        self.target = None
        self.alias_n = 0
        self.forms = []

    # ---- layout
    def add_mod(self, name, init=False):
        self.mods[name] = {"init": init, "imports": [], "extra": []}

    def path_of(self, name):
        return name.replace(".", "/") + ("/__init__.py" if self.mods[name]["init"] else ".py")

    def make_layout(self):
        r, L = self.r, self.layout
        if L == "flat":
            self.target = "target"
            self.add_mod("target")
            for m in ["ma", "mb", "mc"][: r.randint(1, 3)]:
                self.add_mod(m)
        elif L == "pkg":
            self.target = "target"
            self.add_mod("target")
            self.add_mod("pk", init=True)
            for m in ["pk.xa", "pk.xb", "pk.xc"][: r.randint(1, 3)]:
                self.add_mod(m)
        elif L == "tpkg":
            self.target = "tp.tmod"
            self.add_mod("tp", init=True)
            self.add_mod("tp.tmod")
            for m in ["tp.sa", "tp.sb"][: r.randint(1, 2)]:
                self.add_mod(m)
            if r.random() < 0.5:
                self.add_mod("mo")
        elif L == "mixed":
            self.target = "target"
            self.add_mod("target")
            self.add_mod("ma")
            self.add_mod("pk", init=True)
            self.add_mod("pk.xa")
            if r.random() < 0.5:
                self.add_mod("pk.xb")
        else:   # nested
            self.target = r.choice(["target", "pk.sub.tdeep"])
            if self.target == "target":
                self.add_mod("target")
            self.add_mod("pk", init=True)
            self.add_mod("pk.xa")
            self.add_mod("pk.sub", init=True)
            self.add_mod("pk.sub.deep")
            if r.random() < 0.7:
                self.add_mod("pk.deep")     # a module of the SAME name one package level up (same-named units: TWIN_NAMES)
            if self.target != "target":
                self.add_mod("pk.sub.tdeep")

    # ---- units
    def make_units(self):
        r = self.r
        names = list(self.mods)
        i = 0
        twin = r.choice(self.TWIN_NAMES) if r.random() < 0.6 else None
        twin_sig = None
        for m in names:
            is_init = self.mods[m]["init"]
            n = r.randint(0, 1) if is_init else r.randint(1, 3)
            if m == self.target:
                n = r.randint(2, 4)
            for _ in range(n):
                u = Unit()
                u.i, u.mod = i, m
                u.kind = r.choice(["def"] * 6 + ["init", "init", "static", "ignored", "excluded"])
                u.name = {"def": f"f{i}", "init": f"K{i}", "static": f"S{i}", "ignored": f"ig{i}", "excluded": f"excl_f{i}"}[u.kind]
                np_ = r.randint(1, 3)
                u.params = r.sample(["left", "right", "item"], np_) if self.shared_params else [f"p{i}{c}" for c in "abc"[:np_]]
                u.defaults = r.random() < 0.25
                u.kwonly = r.random() < 0.12 and np_ >= 2
                u.edges, u.marks = [], []
                self.units.append(u)
                i += 1
            if twin is not None and (m == self.target or r.random() < 0.7) and not is_init:
                u = Unit()
                u.i, u.mod = i, m
                u.kind = "init" if twin[0].isupper() else "def"
                u.name = twin
                if twin_sig is None or r.random() < 0.25:
                    twin_sig = (r.sample(["left", "right", "item"], r.randint(1, 2)) if self.shared_params else ["a", "b"][: r.randint(1, 2)])
                u.params = list(twin_sig)
                u.defaults, u.kwonly = False, False
                u.edges, u.marks = [], []
                self.units.append(u)
                i += 1

    def make_edges(self):
        r = self.r
        us = self.units
        for u in us:
            for v in us:
                if v is u:
                    continue
                same = v.mod == u.mod
                fwd = v.i > u.i
                p = (0.4 if same else 0.3) if fwd else (0.06 if same else 0.02)
                if u.mod == self.target and not same:
                    p = 0.45
                if v.mod == self.target and not same:
                    p = 0.07        # a followed module calling back into the target (an import cycle through it)
                if r.random() < p:
                    u.edges.append(v.i)

    # ---- import forms
    def pkg_of(self, m):
        return m if self.mods[m]["init"] else (m.rsplit(".", 1)[0] if "." in m else "")

    def relative(self, n, m):
        """(dots, rest) such that `from <dots><rest> import …` in module n names module m, or None."""
        base = self.pkg_of(n)
        if not base:
            return None
        parts = base.split(".")
        for level in range(1, len(parts) + 1):
            b = ".".join(parts[: len(parts) - level + 1])
            if m == b:
                return "." * level, ""
            if m.startswith(b + "."):
                return "." * level, m[len(b) + 1:]
        return None

    def alias(self, stem):
        self.alias_n += 1
        return f"{stem}_al{self.alias_n}"

    def spell(self, u, v):
        """Add the import statement(s) module u.mod needs to reach v; return the callee spelling."""
        r = self.r
        n, m = u.mod, v.mod
        imp = self.mods[n]["imports"]
        nm = v.name
        forms = ["from", "from", "from-as", "import", "import-as"]
        if "." not in m or self.mods[n]["init"] or self.r.random() < 0.03:
            forms.append("star")        # a dotted `from p.m import *` outside __init__ crashes in the warning's codegen (C07)
        parent = m.rsplit(".", 1)[0] if "." in m else None
        if parent is not None:
            forms += ["from-parent", "from-parent"]
        rel = self.relative(n, m)
        if rel is not None:
            forms += ["rel-from", "rel-from", "rel-from"]
            if rel[1] and "." not in rel[1]:
                forms += ["rel-module", "rel-module"]
        if parent is not None and parent in self.mods and self.mods[parent]["init"] and parent != n:
            forms += ["reexport", "reexport", "reexport-star", "reexport-mod", "reexport-abs"]
            sibs = [x for x in self.mods if x != m and x != n and x.startswith(parent + ".") and not self.mods[x]["init"]
                    and x.count(".") == m.count(".")]
            if sibs:
                forms += ["reexport-chain", "reexport-chain", "reexport-star-chain", "reexport-star-chain"]
        # star re-export chains that cross TWO package levels (m = P.S.leaf, both P and P.S packages): what the inner
        # `from .leaf import *` means depends on the file that is current when P/S/__init__'s root context is compiled
        grand = parent.rsplit(".", 1)[0] if parent is not None and "." in parent else None
        if (grand is not None and grand in self.mods and self.mods[grand]["init"] and parent in self.mods
                and self.mods[parent]["init"] and n not in (parent, grand) and not self.mods[m]["init"]):
            forms += ["reexport-star-2level"] * 4 + ["reexport-star-2level-named"] * 2
        # … and one that goes UP from the inner package: P/S/__init__: from ..leaf import *  (m = P.leaf)
        subs = [x for x in self.mods if parent is not None and x.startswith(parent + ".") and self.mods[x]["init"]
                and x.count(".") == parent.count(".") + 1]
        if (parent is not None and parent in self.mods and self.mods[parent]["init"] and subs and n != parent
                and n not in subs and not self.mods[m]["init"]):
            forms += ["reexport-star-up"] * 3
        if self.mods[m]["init"]:
            forms = [f for f in forms if f not in ("rel-module",)]
        f = r.choice(forms)
        self.forms.append(f)
        leaf = m.rsplit(".", 1)[-1]

        def add(line, where=None):
            lst = imp if where is None else self.mods[where]["imports"]
            if line not in lst:
                lst.append(line)

        if f == "from":
            add(f"from {m} import {nm}")
            sp = nm
        elif f == "from-as":
            al = self.alias(nm)
            add(f"from {m} import {nm} as {al}")
            sp = al
        elif f == "star":
            add(f"from {m} import *")
            sp = nm
        elif f == "import":
            add(f"import {m}")
            sp = f"{m}.{nm}"
        elif f == "import-as":
            al = self.alias("mod")
            add(f"import {m} as {al}")
            sp = f"{al}.{nm}"
        elif f == "from-parent":
            add(f"from {parent} import {leaf}")
            sp = f"{leaf}.{nm}"
        elif f == "rel-from":
            add(f"from {rel[0]}{rel[1]} import {nm}")
            sp = nm
        elif f == "rel-module":
            add(f"from {rel[0]} import {rel[1]}")
            sp = f"{rel[1]}.{nm}"
        elif f == "reexport":
            add(f"from .{leaf} import {nm}", parent)
            add(f"from {parent} import {nm}")
            sp = nm
        elif f == "reexport-abs":
            add(f"from {m} import {nm}", parent)
            add(f"from {parent} import {nm}")
            sp = nm
        elif f == "reexport-star":
            add(f"from .{leaf} import *", parent)
            add(f"from {parent} import {nm}")
            sp = nm
        elif f == "reexport-mod":
            add(f"from .{leaf} import {nm}", parent)
            add(f"import {parent}")
            sp = f"{parent}.{nm}"
        elif f == "reexport-star-2level":
            add(f"from .{leaf} import *", parent)
            add(f"from .{parent.rsplit('.', 1)[-1]} import *", grand)
            add(f"from {grand} import {nm}")
            sp = nm
        elif f == "reexport-star-2level-named":
            add(f"from .{leaf} import {nm}", parent)
            add(f"from .{parent.rsplit('.', 1)[-1]} import *", grand)
            add(f"from {grand} import {nm}")
            sp = nm
        elif f == "reexport-star-up":
            sub = r.choice(subs)
            add(f"from ..{leaf} import *", sub)
            add(f"from .{sub.rsplit('.', 1)[-1]} import *", parent)
            add(f"from {parent} import {nm}")
            sp = nm
        elif f == "reexport-star-chain":   # parent/__init__: from .sib import * ; sib: from .leaf import nm
            sib = r.choice(sibs)
            sleaf = sib.rsplit(".", 1)[-1]
            add(f"from .{leaf} import {nm}", sib)
            add(f"from .{sleaf} import *", parent)
            add(f"from {parent} import {nm}")
            sp = nm
        else:   # reexport-chain: parent/__init__ -> sibling -> m
            sib = r.choice(sibs)
            sleaf = sib.rsplit(".", 1)[-1]
            add(f"from .{leaf} import {nm}", sib)
            add(f"from .{sleaf} import {nm}", parent)
            add(f"from {parent} import {nm}")
            sp = nm
        return sp + (".sm" if v.kind == "static" else "")

    # ---- source
    def arg(self, ps, i):
        r = self.r
        p = r.choice(ps)
        return r.choice([p, p, p, p, f"{p}.n{i}", "1", f"{p}[0]"])

    def call_expr(self, u, v, spelled):
        r = self.r
        npos = len(v.params) - (1 if v.kwonly else 0)
        req = npos - (1 if v.defaults else 0)
        k = r.randint(req, npos)
        if r.random() < 0.06:
            k = r.randint(0, npos + 1)
        parts = [self.arg(u.params, v.i) for _ in range(k)]
        for p in v.params[k:npos]:
            if r.random() < 0.5 or p == v.params[req - 1 if req else 0]:
                parts.append(f"{p}={self.arg(u.params, v.i)}")
        if v.kwonly:
            parts.append(f"{v.params[-1]}={self.arg(u.params, v.i)}")
        if r.random() < 0.04:
            parts.append(f"bogus={self.arg(u.params, v.i)}")
        return f"{spelled}({', '.join(parts)})"

    def unit_source(self, u):
        r = self.r
        i = u.i
        body = []
        for p in u.params:
            if r.random() < 0.85:
                k = r.choice(["get", "get", "set", "del", "deep"])
                mark = {"get": f"g{i}", "set": f"s{i}", "del": f"d{i}", "deep": f"q{i}"}[k]
                body.append({"get": [f"{p}.{mark}"], "set": [f"{p}.{mark} = 1"], "del": [f"del {p}.{mark}"],
                             "deep": [f"{p}.m{i}.{mark}"]}[k])
        for j in u.edges:
            v = self.units[j]
            sp = v.call if v.mod == u.mod else self.spell(u, v)
            c = self.call_expr(u, v, sp)
            form = r.choice(["expr", "expr", "assign", "return", "print"])
            body.append({"expr": [c], "assign": [f"res{i}_{j} = {c}"], "return": [f"if {u.params[0]}:", f"    return {c}"],
                         "print": [f"print({c})"]}[form])
        if self.hostile:
            p = u.params[0]
            for _ in range(r.choice([0, 1, 1, 2])):
                body.append(r.choice([
                    [f"{p}.meth({p})"], [f"undefined_fn({p})"], [f"os.path.join({p}.q)"],
                    [f"ghost({p})"] if r.random() < 0.2 else [f"os.getcwd({p})"],
                    [f"def inner(z):", "    return z.n", f"inner({p})"], [f"getattr({p}, 'ga')"], [f"{p}()"],
                    [f"missing_name({p})"], [f"CONST({p})"], [f"sqrt({p}.sq)"],
                ]))
        r.shuffle(body)
        flat = [l for b in body for l in b] or ["pass"]
        sig = list(u.params)
        if u.kwonly:
            sig = sig[:-1] + ["*", sig[-1]]
        elif u.defaults:
            sig[-1] = sig[-1] + "=0"
        sig = ", ".join(sig)
        if u.kind in ("def", "ignored", "excluded"):
            return (["@rattr_ignore"] if u.kind == "ignored" else []) + [f"def {u.name}({sig}):"] + ind(flat)
        if u.kind == "init":
            extra = [f"    attr{i} = 1"] if r.random() < 0.4 else []
            return [f"class {u.name}:"] + extra + ind([f"def __init__(self, {sig}):"] + ind(flat))
        extra = [f"    attr{i} = 1"] if r.random() < 0.3 else []
        return [f"class {u.name}:"] + extra + ind(["@staticmethod", f"def sm({sig}):"] + ind(flat))

    def build(self):
        r = self.r
        self.make_layout()
        self.make_units()
        self.make_edges()
        chunks = {m: [] for m in self.mods}
        order = list(self.units)
        r.shuffle(order)
        for u in order:
            chunks[u.mod].append(self.unit_source(u))
        # cycles and back-references
        others = [m for m in self.mods if m != self.target]
        if r.random() < 0.3 and others:
            self.mods[r.choice(others)]["imports"].append(f"import {self.target}")
        if r.random() < 0.3 and len(others) >= 2:
            a, b = r.sample(others, 2)
            self.mods[a]["imports"].append(f"import {b}")
            self.mods[b]["imports"].append(f"from {a} import *" if (self.mods[b]["init"] and r.random() < 0.5) else f"import {a}")
        files = {}
        # two files competing for one module name (facts come from the REAL locator; the model follows what it says)
        self.file_layout = None
        plain = [m for m in others if not self.mods[m]["init"] and not any(l.startswith("from .") for l in self.mods[m]["imports"])]
        if plain and r.random() < 0.2:
            m = r.choice(plain)
            if r.random() < 0.6:
                # the module grew into a package: definitions in m/__init__.py, a stale m.py with the same names next to it
                names = [u.name for u in self.units if u.mod == m]
                self.mods[m]["init"] = True
                files[m.replace(".", "/") + ".py"] = "".join(f"def {x}(*a, **k):\n    return a[0].stale_{x}\n" for x in names) or "STALE = 1\n"
                self.file_layout = "package-next-to-stale-module"
            else:
                files[m.replace(".", "/") + "/notes.txt"] = "not python\n"
                self.file_layout = "module-next-to-plain-directory"
        for m, d in self.mods.items():
            head = []
            if self.hostile:
                head += ["import os", "from ghost_mod import ghost", "from math import sqrt"]
                if r.random() < 0.5 and others and m == self.target:
                    head.append(f"from {r.choice(others)} import missing_name, CONST")
            if any(u.kind == "ignored" for u in self.units if u.mod == m):
                head.append("from rattr.analyser.annotations import rattr_ignore")
            imports = list(d["imports"])
            if r.random() < 0.3:
                r.shuffle(imports)
            lines = head + imports
            if r.random() < 0.5:
                lines.append("CONST = 3")
            for c in chunks[m]:
                lines += c
            files[self.path_of(m)] = "\n".join(lines) + "\n"
        return files, self.path_of(self.target)


def gen_project(rng):
    g = ProjGen(rng)
    files, target = g.build()
    # how the target is named on the command line (the working directory is the project)
    spelling = rng.choice(["relative"] * 5 + ["absolute"] * 4 + ["dot-slash"])
    return files, target, {"layout": g.layout, "forms": g.forms, "hostile": g.hostile, "file_layout": g.file_layout,
                           "spelling": spelling}


CURATED = [
    # the C06 statement for `from m import f`
    ({"target.py": "from m import f\ndef caller(x, y):\n    f(x)\n    return y.own\n", "m.py": "def f(p):\n    return p.in_f\n"}, "target.py"),
    # module import + dotted call, alias, class with instance argument, static method, stdlib
    ({"target.py": "import m\nimport m as mm\nfrom m import K as KK, K\nimport os\ndef caller(x, y):\n    m.f(x)\n    mm.f(y)\n    a = K(x)\n    b = KK(y)\n    m.K.sm(x)\n    os.path.join(y)\n",
      "m.py": "def f(p):\n    return p.in_f\nclass K:\n    def __init__(self, v):\n        self.v = v.in_init\n    @staticmethod\n    def sm(z):\n        return z.in_sm\n"}, "target.py"),
    # same-named helpers resolved module-locally (fix 2103117), classes (fix 8b74e12)
    ({"target.py": "from m import f, mk\ndef util(a):\n    return a.t_util\nclass H:\n    def __init__(self, q):\n        self.q = q.t_h\ndef caller(x, y):\n    util(x)\n    f(y)\n    mk(y)\n    h = H(x)\n",
      "m.py": "def util(a):\n    return a.m_util\nclass H:\n    def __init__(self, q):\n        self.q = q.m_h\ndef f(p):\n    util(p)\n    return p.in_f\ndef mk(w):\n    return H(w)\n"}, "target.py"),
    # a class without initialiser in the calling file, a same-named class WITH one elsewhere (fix bb30ccd)
    ({"target.py": "from m import mk\nclass K:\n    def __init__(self, v):\n        self.t = v.t_init\ndef caller(x):\n    mk(x)\n    k = K(x)\n",
      "m.py": "class K:\n    attr = 1\ndef mk(w):\n    k = K(w)\n    return k\n"}, "target.py"),
    # equal Call symbols in two modules: `seen` is keyed on (call, file) (fix ab5bdf0)
    ({"target.py": "from m import f\ndef util(a):\n    return a.t_util\ndef caller(a):\n    util(a)\n    f(a)\n",
      "m.py": "def util(a):\n    return a.m_util\ndef f(a):\n    util(a)\n    return a.in_f\n"}, "target.py"),
    # re-export through __init__, star re-export, chain, relative imports
    ({"target.py": "from pkg import g, g3, h\nimport pkg\ndef caller(x, y):\n    g(x)\n    g3(y)\n    h(x)\n    pkg.g(y)\n    pkg.sub.g(x)\n",
      "pkg/__init__.py": "from .sub import *\nfrom .other import g2 as g3\nfrom .chain import h\n",
      "pkg/sub.py": "def g(w):\n    return w.in_g\nCONST = 3\n", "pkg/other.py": "def g2(w):\n    return w.in_g2\n",
      "pkg/chain.py": "from .deep import h\n", "pkg/deep.py": "from . import sub\ndef h(w):\n    sub.g(w)\n    return w.in_h\n"}, "target.py"),
    # module cycle through the target itself; ignored / undefined / method / variable in the import
    ({"target.py": "from m import ig, nothing, f, V\nimport m\ndef caller(x):\n    ig(x)\n    nothing(x)\n    f(x)\n    V(x)\n    m.K.meth(x)\n    m.back(x)\ndef home(z):\n    return z.at_home\n",
      "m.py": "import target\nfrom rattr.analyser.annotations import rattr_ignore\nV = 1\n@rattr_ignore\ndef ig(a):\n    return a.x\ndef f(a):\n    return a.in_f\nclass K:\n    def meth(self):\n        pass\ndef back(q):\n    return target.home(q)\n"}, "target.py"),
    # re-export cycle of a NAME: RecursionError
    ({"target.py": "from a import f\ndef caller(x):\n    f(x)\n", "a.py": "from b import f\n", "b.py": "from a import f\n"}, "target.py"),
    # target inside a package, relative imports of level 1 and 2, package __init__ analysed
    ({"tp/__init__.py": "from .sib import s1\n", "tp/tmod.py": "from .sib import s1\nfrom . import sib\nfrom .sub.leaf import lf\ndef caller(x):\n    s1(x)\n    sib.s1(x.y)\n    lf(x)\n",
      "tp/sib.py": "def s1(a):\n    return a.in_s1\n", "tp/sub/__init__.py": "", "tp/sub/leaf.py": "from ..sib import s1\ndef lf(b):\n    s1(b)\n    return b.in_lf\n"}, "tp/tmod.py"),
    # star import in the target (warned), names of the starred module, first binding wins
    ({"target.py": "from m import *\nfrom n import f\ndef caller(x):\n    f(x)\n    g(x)\n", "m.py": "def f(a):\n    return a.m_f\ndef g(a):\n    return a.m_g\n", "n.py": "def f(a):\n    return a.n_f\n"}, "target.py"),
    # star re-export of a name the starred module itself imports; nested star; star of a star
    ({"target.py": "from pkg import g, h\ndef caller(x):\n    g(x)\n    h(x)\n", "pkg/__init__.py": "from .mid import *\n",
      "pkg/mid.py": "from .leaf import g\nfrom .more import *\n", "pkg/leaf.py": "def g(a):\n    return a.in_g\n",
      "pkg/more.py": "def h(a):\n    return a.in_h\n"}, "target.py"),
    # depth >= 2 across three modules with class initialisers and static methods
    ({"target.py": "from a import top\ndef caller(x):\n    return top(x)\n", "a.py": "from b import K\ndef top(p):\n    k = K(p)\n    return K.sm(p.z)\n",
      "b.py": "import c\nclass K:\n    def __init__(self, v):\n        self.w = c.leaf(v)\n    @staticmethod\n    def sm(s):\n        return c.leaf(s.t)\n", "c.py": "def leaf(l):\n    return l.in_leaf\n"}, "target.py"),
]


# run with the target named by its ABSOLUTE path: an import cycle through the target meets the target file again under
# the very path it was entered with (two FileIrs, one `location.defined_in`)
CURATED_ABS = [
    # the C06-m9 shape: the callee of the followed module calls back into a target function
    ({"target.py": "from a import fa\ndef base(b):\n    return b.base_attr\ndef caller(o):\n    return fa(o)\n",
      "a.py": "from target import base\ndef fa(x):\n    return base(x.left)\n"}, "target.py"),
    # equal Call symbols `helper(b)` held by the target's `caller` and by the re-analysed copy of the target's `base`:
    # ONE equality class (same path), so the second is not expanded again
    ({"target.py": "from a import fa\ndef helper(b):\n    return b.h_attr\ndef base(b):\n    helper(b)\n    return b.base_attr\n"
                   "def caller(b, c):\n    helper(b)\n    return fa(c)\n",
      "a.py": "import target\ndef fa(b):\n    return target.base(b)\n"}, "target.py"),
    # class initialiser and static method of the target reached back through the cycle
    ({"tp/__init__.py": "", "tp/tmod.py": "from .sib import mk\nclass K:\n    def __init__(self, v):\n        self.w = v.in_init\n"
                                          "    @staticmethod\n    def sm(z):\n        return z.in_sm\ndef caller(x):\n    return mk(x)\n",
      "tp/sib.py": "from . import tmod\nfrom .tmod import K\ndef mk(q):\n    k = K(q)\n    tmod.K.sm(q.r)\n    return k\n"}, "tp/tmod.py"),
]


# ------------------------------------------------------------------ the stage


class PCase:
    __slots__ = ("files", "target", "project", "facts", "im", "mo", "mo_rev", "skipped", "diff", "meta", "rounds", "target_arg")


def spelled(project: Path, target_rel: str, spelling: str) -> str:
    """The target argument; `str(Path(arg))` is what `config.arguments.target` / `enter_file` hold."""
    if spelling == "absolute":
        return str(project / target_rel)
    if spelling == "dot-slash":
        return "./" + target_rel
    return target_rel


def write_project(root: Path, files):
    for rel, text in files.items():
        p = root / rel
        p.parent.mkdir(parents=True, exist_ok=True)
        p.write_text(text)


def _need(mo):
    if "__error__" in mo:
        return None
    if mo.get("outcome") == "crash" and str(mo.get("exc", "")).startswith(("NeedQual:", "NeedMod:", "NeedFile:")):
        return mo["exc"]
    return None


def run_model(cases, model, ties="insertion", attr="mo"):
    """The facts protocol: ask, supply what is missing, ask again."""
    live = list(cases)
    for rnd in range(MAX_ROUNDS):
        if not live:
            break
        outs = model.batch([("pipeline2", c.facts.payload(ties)) for c in live])
        nxt = []
        for c, mo in zip(live, outs):
            setattr(c, attr, mo)
            c.rounds = rnd + 1
            nd = _need(mo)
            if nd is not None:
                if c.facts.supply(nd) and c.facts.skipped is None:
                    nxt.append(c)
                elif c.facts.skipped is None:
                    setattr(c, attr, {"__error__": f"cannot supply {nd}"})
                continue
            if "__error__" not in mo and attr == "mo" and mo.get("callTargets") is not None and not getattr(c, "_excl_done", False):
                # exclusion verdicts for the call-target names the model saw (one more round if any is new)
                before = set(c.facts.excluded)
                c.facts.also_excluded(mo["callTargets"])
                if set(c.facts.excluded) != before:
                    nxt.append(c)
        live = nxt


def run_pipeline2_stage(res, rng, n, model, cli_sample=5, keep=None, curated=True):
    work = [(dict(f), t, {"layout": "curated", "forms": [], "hostile": False}) for f, t in CURATED] if curated else []
    if curated:
        work += [(dict(f), t, {"layout": "curated", "forms": [], "hostile": False, "spelling": "absolute"}) for f, t in CURATED_ABS]
    for _ in range(n):
        work.append(gen_project(rng))
    cases = []
    root = Path(tempfile.mkdtemp(prefix="rattr-p2-")).resolve()
    try:
        for i, (files, target, meta) in enumerate(work):
            c = PCase()
            c.files, c.target, c.meta = files, target, meta
            c.skipped = c.diff = c.mo = c.mo_rev = c.im = None
            c.rounds = 0
            c.project = root / f"p{i}"
            write_project(c.project, files)
            try:
                for text in files.values():
                    ast.parse(text)
            except SyntaxError:
                continue
            c.target_arg = spelled(c.project, target, meta.get("spelling", "relative"))
            c.facts = Facts(c.project, str(Path(c.target_arg)))
            c.facts.seed()
            if c.facts.skipped is not None:
                c.skipped = c.facts.skipped
                cases.append(c)
                continue
            c.im = real_pipeline2(c.project, c.target_arg)
            cases.append(c)
        live = [c for c in cases if c.skipped is None]
        run_model(live, model)
        live3 = [c for c in live if c.facts.skipped is None and "__error__" not in c.mo and c.mo.get("maxTie", 0) == 2]
        run_model(live3, model, ties="reversed", attr="mo_rev")
        for c in cases:
            if c.skipped is None and c.facts.skipped is not None:
                c.skipped = c.facts.skipped
            if c.skipped is not None:
                res.skipped_outside_fragment += 1
                res.count("pipeline2:skipped:" + c.skipped[:50])
                continue
            mo = c.mo
            if "__error__" not in mo and mo.get("outcome") == "crash" and str(mo.get("exc", "")).startswith("Outside:"):
                res.skipped_outside_fragment += 1
                res.count("pipeline2:skipped:" + mo["exc"])
                c.skipped = mo["exc"]
                continue
            if "__error__" not in mo and mo.get("maxTie", 0) >= 3:
                res.skipped_outside_fragment += 1
                res.count("pipeline2:skipped:hash-order:3-way tie of equal-named calls")
                c.skipped = "tie3"
                continue
            if c.mo_rev is not None and "__error__" not in c.mo_rev and "__error__" not in mo:
                def proj(m):
                    st = [{k: (sorted(map(tuple, v)) if isinstance(v, list) else v) for k, v in e.items()} for e in (m.get("store") or [])]
                    return (m.get("outcome"), m.get("doc"), m.get("diags"), st)
                if proj(mo) != proj(c.mo_rev):
                    res.skipped_outside_fragment += 1
                    res.count("pipeline2:skipped:hash-order:document depends on the order of a tie")
                    c.skipped = "tie2"
                    continue
                res.count("pipeline2:tie-order-irrelevant")
            res.evaluations += 1
            im = c.im
            res.count("pipeline2:outcome:" + im["outcome"] + (":" + im["exc"] if im["outcome"] != "ok" else ""))
            res.count("pipeline2:layout:" + c.meta["layout"])
            res.count("pipeline2:target-spelling:" + c.meta.get("spelling", "relative"))
            tmod = c.target[:-3].replace("/", ".")
            if tmod in (im.get("irs") or []) or tmod.rsplit(".", 1)[-1] in (im.get("irs") or []):
                # an import cycle led back to the target: it is analysed a second time, as an import
                res.count("pipeline2:target-met-again-by-the-import-walk:" + c.meta.get("spelling", "relative"))
            if c.meta.get("file_layout"):
                res.count("pipeline2:file-layout:" + c.meta["file_layout"])
            for f in c.meta["forms"]:
                res.count("pipeline2:form:" + f)
            res.count("pipeline2:fact-rounds", c.rounds)
            if im["outcome"] == "ok":
                for d in im["diags"]:
                    if d[1].startswith(("call-", "init-", "import-", "swaps-")) and d[1] not in pipeline.vl_ids():
                        res.count("pipeline2:results-diag:" + d[1])
                res.count("pipeline2:functions", len(im["doc"]))
                res.count(f"pipeline2:followed-modules:{min(len(im.get('irs') or []), 5)}")
                if "__error__" not in mo:
                    res.count("pipeline2:resolvable-call-edges", mo.get("edges", 0))
                    res.count("pipeline2:cross-module-edges", mo.get("crossEdges", 0))
                    res.count("pipeline2:class-initialiser-edges", mo.get("clsEdges", 0))
                    res.count(f"pipeline2:call-tree-depth:{min(mo.get('depth', 0), 4)}")
                    if mo.get("crossEdges", 0) >= 1:
                        res.nontrivial.add(common.digest(c.files))
            c.diff = compare(im, mo)
            if c.diff is not None:
                res.disagreements.append({"case": {"stage": "pipeline2", "target": c.target, "files": c.files}, "diff": c.diff[:2000]})
            if keep is not None:
                keep.append(c)
        sample = [c for c in cases if c.skipped is None and c.mo is not None and "__error__" not in c.mo]
        rng.shuffle(sample)
        for c in sample[:cli_sample]:
            cli = cli_run(c.project, c.target_arg, hashseed=rng.randrange(1, 1000))
            res.count("pipeline2:cli:exit:" + str(cli["exit"]))
            d = pipeline.compare_cli(cli, c.mo)
            if d is not None:
                res.disagreements.append({"case": {"stage": "pipeline2-cli", "target": c.target, "files": c.files}, "diff": d[:2000]})
    finally:
        shutil.rmtree(root, ignore_errors=True)
    return cases


if __name__ == "__main__":      # development aid: python py/props/pipeline2.py [seed] [n] [show]
    import time
    import warnings

    warnings.simplefilter("ignore")
    seed = int(sys.argv[1]) if len(sys.argv) > 1 else 0
    n = int(sys.argv[2]) if len(sys.argv) > 2 else 20
    res = common.Result("DEV")
    t0 = time.time()
    keep = []
    run_pipeline2_stage(res, random.Random(seed), n, common.Model(), keep=keep)
    print(json.dumps(res.distribution, indent=1, sort_keys=True))
    print("evaluations", res.evaluations, "skipped", res.skipped_outside_fragment, "nontrivial", len(res.nontrivial),
          "disagreements", len(res.disagreements), "wall", round(time.time() - t0, 1))
    for d in res.disagreements[:int(sys.argv[3]) if len(sys.argv) > 3 else 3]:
        print("=" * 100)
        print(d["case"]["target"], d["case"]["stage"])
        for k, v in d["case"]["files"].items():
            print("-----", k)
            print(v)
        print("-" * 100)
        print(d["diff"])

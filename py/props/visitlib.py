"""Shared harness for the function-analyser properties (C01, C02, C09, C17, C08).

ast -> JSON for the Lean model, real FunctionAnalyser runs, message templates, body generators.
"""
from __future__ import annotations

import ast
import random
import re
from pathlib import Path

import impl

from rattr.analyser.function import FunctionAnalyser
from rattr.config.state import enter_file
from rattr.models.context import compile_root_context
from rattr.models.symbol import (
    PYTHON_BUILTINS,
    Builtin,
    Call,
    Class,
    Func,
    Import,
    Name,
)
from rattr.models.symbol._symbols import PYTHON_NON_PRIMITIVE_RETURNING_BUILTINS
from rattr.module_locator.util import module_exists

TARGET = Path("target.py")
CTX = {ast.Load: 0, ast.Store: 1, ast.Del: 2}

# ------------------------------------------------------------------ ast -> model JSON


def params_json(a: ast.arguments):
    return {"posonly": [x.arg for x in a.posonlyargs], "args": [x.arg for x in a.args],
            "vararg": a.vararg.arg if a.vararg else None,
            "kwonly": [x.arg for x in a.kwonlyargs], "kwarg": a.kwarg.arg if a.kwarg else None}


def generic_children(node):
    """Child AST nodes in the order ast.NodeVisitor.generic_visit visits them, without the
    childless operator / expr_context nodes."""
    out = []
    for _, value in ast.iter_fields(node):
        if isinstance(value, list):
            for item in value:
                if isinstance(item, ast.AST):
                    out.append(item)
        elif isinstance(value, ast.AST):
            out.append(value)
    return [c for c in out if not isinstance(c, (ast.expr_context, ast.operator, ast.unaryop, ast.boolop, ast.cmpop))]


def enc(n, hook=None):
    """`hook(node, E)` (optional, default: none = the encoding as it always was): may return the JSON of a
    node itself (`E` encodes sub-nodes with the same hook) or None to fall through."""
    E = enc if hook is None else (lambda x: enc(x, hook))
    if hook is not None:
        r = hook(n, E)
        if r is not None:
            return r
    L = lambda xs: [E(x) for x in xs]  # noqa: E731
    c = lambda node: CTX[type(node.ctx)]  # noqa: E731
    if isinstance(n, ast.Name):
        return {"k": "name", "id": n.id, "c": c(n)}
    if isinstance(n, ast.Attribute):
        return {"k": "attr", "v": E(n.value), "a": n.attr, "c": c(n)}
    if isinstance(n, ast.Subscript):
        return {"k": "sub", "v": E(n.value), "sl": E(n.slice), "c": c(n)}
    if isinstance(n, ast.Starred):
        return {"k": "starred", "v": E(n.value), "c": c(n)}
    if isinstance(n, ast.Call):
        return {"k": "call", "f": E(n.func), "args": L(n.args), "kwn": [k.arg for k in n.keywords],
                "kwv": [E(k.value) for k in n.keywords]}
    if isinstance(n, ast.Lambda):
        return {"k": "lam", "ps": params_json(n.args), "body": E(n.body)}
    if isinstance(n, (ast.ListComp, ast.SetComp, ast.GeneratorExp)):
        return {"k": "comp", "kind": type(n).__name__, "elts": [E(n.elt)], "gens": L(n.generators)}
    if isinstance(n, ast.DictComp):
        return {"k": "comp", "kind": "DictComp", "elts": [E(n.key), E(n.value)], "gens": L(n.generators)}
    if isinstance(n, ast.comprehension):
        return {"k": "gen", "t": E(n.target), "iter": E(n.iter), "ifs": L(n.ifs)}
    if isinstance(n, ast.NamedExpr):
        return {"k": "walrus", "t": E(n.target), "v": E(n.value)}
    if isinstance(n, ast.Constant):
        if isinstance(n.value, str):
            return {"k": "str", "s": n.value}
        return {"k": "const"}
    if isinstance(n, (ast.Tuple, ast.List)):
        return {"k": "seq", "kind": type(n).__name__, "elts": L(n.elts), "c": c(n)}
    if isinstance(n, ast.Set):
        return {"k": "seq", "kind": "Set", "elts": L(n.elts), "c": 0}
    if isinstance(n, ast.Dict):
        return {"k": "dict", "keys": [E(k) for k in n.keys if k is not None], "vals": L(n.values)}
    if isinstance(n, ast.Assign):
        return {"k": "assign", "targets": L(n.targets), "v": E(n.value)}
    if isinstance(n, ast.AnnAssign):
        return {"k": "ann", "t": E(n.target), "ann": E(n.annotation), "v": [E(n.value)] if n.value is not None else []}
    if isinstance(n, ast.AugAssign):
        return {"k": "aug", "t": E(n.target), "v": E(n.value)}
    if isinstance(n, ast.Delete):
        return {"k": "delete", "targets": L(n.targets)}
    if isinstance(n, (ast.For, ast.AsyncFor)):
        return {"k": "for", "t": E(n.target), "iter": E(n.iter), "body": L(n.body), "orelse": L(n.orelse)}
    if isinstance(n, (ast.With, ast.AsyncWith)):
        return {"k": "with", "items": L(n.items), "body": L(n.body)}
    if isinstance(n, ast.withitem):
        return {"k": "withitem", "ce": E(n.context_expr),
                "vars": [E(n.optional_vars)] if n.optional_vars is not None else []}
    if isinstance(n, (ast.FunctionDef, ast.AsyncFunctionDef)):
        return {"k": "def", "name": n.name, "ps": params_json(n.args), "body": L(n.body)}
    if isinstance(n, ast.ClassDef):
        return {"k": "class", "name": n.name}
    if isinstance(n, ast.Return):
        return {"k": "ret", "v": [E(n.value)] if n.value is not None else []}
    if isinstance(n, (ast.Global, ast.Nonlocal, ast.Import, ast.ImportFrom)):
        return {"k": "forbidden", "kind": type(n).__name__}
    return {"k": "other", "kind": type(n).__name__, "kids": L(generic_children(n))}


# ------------------------------------------------------------------ context snapshot


def iface_json(i):
    if i is None or type(i).__name__ == "AnyCallInterface":
        return None
    return {"posonly": list(i.posonlyargs), "args": list(i.args), "vararg": i.vararg,
            "kwonly": list(i.kwonlyargs), "kwarg": i.kwarg}


def sym_json(s):
    d = {"kind": type(s).__name__, "name": s.name, "callable": s.is_callable, "iface": iface_json(s.interface)}
    if isinstance(s, Import):
        d["qual"] = s.qualified_name
        d["modExists"] = bool(module_exists(s.qualified_name))
        if s.name == "*":
            d["name"] = s.id
    return d


def target_json(t):
    if t is None:
        return None
    d = {"kind": type(t).__name__, "name": t.name, "callable": t.is_callable, "iface": iface_json(t.interface),
         "qual": getattr(t, "qualified_name", "")}
    return d


def root_snapshot(ctx):
    return [sym_json(s) for s in ctx.symbol_table.symbols]


_ENV = None


def env_json():
    global _ENV
    if _ENV is None:
        from rattr.ast.types import AstLiterals
        from rattr.plugins import plugins

        prims = sorted({b for b in PYTHON_BUILTINS if b[0].isalpha()} - set(PYTHON_NON_PRIMITIVE_RETURNING_BUILTINS))
        _ENV = {"prims": prims, "literals": [c.__name__ for c in AstLiterals],
                "analysers": sorted(plugins._analysers_by_fully_qualified_name.keys())}
    return _ENV


# ------------------------------------------------------------------ message templates

Q = r"['\"]([^'\"]*)['\"]"
TEMPLATES = [
    (re.compile(r"^'(.*)' potentially undefined$"), "undefined"),
    (re.compile(r"^unable to resolve call to '(.*)', target lhs is a literal$"), "call-literal"),
    (re.compile(r"^unable to resolve call to '(.*)', target lhs is run-time dependent$"), "call-subscript-lhs"),
    (re.compile(r"^unable to resolve call to '(.*)', target is run-time dependent$"), "call-subscript"),
    (re.compile(r"^unable to resolve call to '(.*)', target is a method$"), "call-method"),
    (re.compile(r"^unable to resolve call to '(.*)', target is undefined$"), "call-undefined"),
    (re.compile(r"^unable to resolve call to '(.*)', target is a call on a call$"), "call-on-call"),
    (re.compile(r"^unable to resolve call to '(.*)', target is likely a procedural parameter$"), "call-procedural"),
    (re.compile(r"^unable to resolve call to '(.*)', target is not callable$"), "call-not-callable"),
    (re.compile(r"^'(.*)' initialised but not stored$"), "class-not-stored"),
    (re.compile(r"^iterable unpacking not supported in function calls$"), "starred-arg"),
    (re.compile(r"^unable to unbind nested functions$"), "nested-function"),
    (re.compile(r"^unable to unbind anonymous lambdas$"), "anon-lambda"),
    (re.compile(r"^nested classes unsupported$"), "nested-class"),
    (re.compile(r"^unable to unbind lambdas defined in functions$"), "lambda-in-function"),
    (re.compile(r"^lambda assignment must be one-to-one$"), "lambda-one-to-one"),
    (re.compile(r"^namedtuple assignment must be one-to-one$"), "namedtuple-one-to-one"),
    (re.compile(r"^class assignment must be one-to-one$"), "class-one-to-one"),
    (re.compile(r"^namedtuple expects exactly two positional arguments"), "namedtuple-invalid-signature"),
    (re.compile(r"^namedtuple expects the second positional argument"), "namedtuple-invalid-second"),
    (re.compile(r"^do not use global keyword$"), "forbidden-global"),
    (re.compile(r"^do not use nonlocal keyword$"), "forbidden-nonlocal"),
    (re.compile(r"^imports must be at the top level$"), "forbidden-import"),
    (re.compile(r"^invalid call to '(.*)', too few args$"), "xattr-too-few"),
    (re.compile(r"^'(.*)' may only be nested in other calls to"), "xattr-nested"),
    (re.compile(r"^invalid call to '(.*)', not enough args$"), "xattr-too-few-old"),
    (re.compile(r"^'(.*)' expects name to be a string literal$"), "xattr-not-literal"),
    (re.compile(r"^'(.*)' object must be a name or a call to"), "xattr-nested-old"),
]


def template_of(ev):
    msg = ev["message"]
    for pat, tid in TEMPLATES:
        m = pat.match(msg)
        if m:
            return [ev["level"], tid, m.group(1) if m.groups() else ""]
    return [ev["level"], "other:" + msg[:60], ""]


def canon_model_diag(d):
    lvl, tid, arg = d
    if tid == "forbidden":
        tid = {"Global": "forbidden-global", "Nonlocal": "forbidden-nonlocal"}.get(arg, "forbidden-import")
        arg = ""
    return [lvl, tid, arg]


# ------------------------------------------------------------------ implementation side


def names_json(s):
    return sorted([n.name, n.basename] for n in s)


def call_json(c: Call):
    return {"name": c.name, "args": list(c.args.args), "kwargs": sorted([k, v] for k, v in c.args.kwargs.items()),
            "target": target_json(c.target)}


def canon_call(c):
    t = c["target"]
    if t is not None:
        t = {"kind": t["kind"], "name": t["name"], "callable": t["callable"], "iface": t["iface"],
             "qual": t.get("qual", "") if t["kind"] == "Import" else ""}
    return {"name": c["name"], "args": c["args"], "kwargs": sorted(map(list, c["kwargs"])), "target": t}


def prepare(source: str):
    """Parse, build the real root context. Returns (tree, ctx)."""
    impl.reset_config(target=TARGET)
    tree = ast.parse(source)
    with impl.Tap(), enter_file(TARGET):
        ctx = compile_root_context(tree)
    return tree, ctx


def analyse_function(fn_node, ctx):
    """Real FunctionAnalyser on one def/lambda in the given (real) root context."""
    with impl.Tap() as tap, enter_file(TARGET):
        depth0 = _depth(ctx)
        fa = FunctionAnalyser(fn_node, ctx)
        out = impl.outcome_of(fa.analyse)
    diags = [template_of(e) for e in tap.events]
    ir = fa.func_ir
    res = {
        "gets": names_json(ir["gets"]), "sets": names_json(ir["sets"]), "dels": names_json(ir["dels"]),
        "calls": sorted((canon_call(call_json(c)) for c in ir["calls"]), key=lambda c: impl_json_key(c)),
        "diags": diags,
    }
    if out[0] == "ok":
        res["outcome"], res["exc"] = "ok", ""
    elif out[0] == "fatal":
        res["outcome"], res["exc"] = "fatal", (diags[-1][1] if diags else "")
    else:
        res["outcome"], res["exc"] = "crash", out[1]
    return res, tap.events


def impl_json_key(c):
    import json
    return json.dumps(c, sort_keys=True)


def _depth(ctx):
    d = 0
    while ctx is not None:
        d += 1
        ctx = ctx.parent
    return d


def canon_model_out(mo):
    return {
        "gets": sorted(map(list, {tuple(n) for n in mo["gets"]})),
        "sets": sorted(map(list, {tuple(n) for n in mo["sets"]})),
        "dels": sorted(map(list, {tuple(n) for n in mo["dels"]})),
        "calls": sorted((canon_call(c) for c in mo["calls"]), key=impl_json_key),
        "diags": [canon_model_diag(d) for d in mo["diags"]],
        "outcome": mo["outcome"],
        "exc": mo["exc"] if mo["outcome"] != "fatal" else canon_model_diag(["fatal", mo["exc"], ""])[1]
        if mo["exc"] == "forbidden" else mo["exc"],
    }


def model_request(tree_fn, ctx, enc_hook=None):
    args = tree_fn.args
    body = tree_fn.body if not isinstance(tree_fn, ast.Lambda) else [tree_fn.body]
    return ("analyse_fn", {"env": env_json(), "root": root_snapshot(ctx), "module": "target",
                           "params": params_json(args), "body": [enc(s, enc_hook) for s in body]})


def compare(im, mo):
    """None if the model reproduces the implementation, else a short description."""
    mm = canon_model_out(mo)
    if im["outcome"] != mm["outcome"]:
        return f"outcome {im['outcome']}/{im['exc']} vs {mm['outcome']}/{mm['exc']}"
    if im["outcome"] == "crash":
        # after a crash only the exception class is compared
        return None if im["exc"] == mm["exc"] else f"crash class {im['exc']} vs {mm['exc']}"
    if im["outcome"] == "fatal" and im["exc"] != mm["exc"] and not (mm["exc"].startswith("forbidden")):
        return f"fatal {im['exc']} vs {mm['exc']}"
    for k in ("gets", "sets", "dels", "calls", "diags"):
        if im[k] != mm[k]:
            return f"{k}: impl={im[k]} model={mm[k]}"
    return None


# ------------------------------------------------------------------ batch runner shared by C01/C02/C09/C17

MODULE_CLASSES = ("Cls", "Bare", "NT", "WithStatic")


class Case:
    __slots__ = ("module_src", "name", "fn", "fn_src", "im", "events", "mo", "diff")


def run_batch(rng, n_modules, model, hostile=0.015, extra_sources=(), enc_hook=None):
    """Generate modules, run the real FunctionAnalyser and the Lean model on every function.
    `enc_hook`: see `enc` (default None: unchanged encoding)."""
    from props import bodygen

    cases, reqs = [], []
    sources = list(extra_sources)
    for _ in range(n_modules):
        sources.append(bodygen.gen_module(rng, hostile=hostile))
    for src, names in sources:
        for name in names:
            tree, ctx = prepare(src)
            fn = next(n for n in tree.body if isinstance(n, (ast.FunctionDef, ast.AsyncFunctionDef)) and n.name == name)
            c = Case()
            c.module_src, c.name, c.fn = src, name, fn
            c.fn_src = ast.unparse(fn)
            reqs.append(model_request(fn, ctx, enc_hook))
            c.im, c.events = analyse_function(fn, ctx)
            cases.append(c)
    outs = model.batch(reqs)
    for c, mo in zip(cases, outs):
        c.mo = mo
        c.diff = "model error: " + str(mo["__error__"]) if "__error__" in mo else compare(c.im, mo)
    return cases


def run_file_batch(rng, n_modules, model, hostile=0.015):
    """Like run_batch, but through the real FileAnalyser: every callable rattr analyses in the file
    (module-level defs, named lambdas, class initialisers, static methods) is captured at the moment
    its FunctionAnalyser runs, together with the context as it is at that moment."""
    from props import bodygen
    from rattr.analyser.file import FileAnalyser

    cases, reqs = [], []
    for _ in range(n_modules):
        src, _names = bodygen.gen_module(rng, n_funcs=3, hostile=hostile, with_classes=True)
        impl.reset_config(target=TARGET)
        tree = ast.parse(src)
        captured = []
        depth = [0]
        orig = FunctionAnalyser.analyse

        def wrapper(self):
            if depth[0] > 0:
                return orig(self)
            depth[0] += 1
            try:
                req = model_request(self.ast, self.context)
                tap = impl.Tap()
                with tap:
                    out = impl.outcome_of(orig, self)
                captured.append((self.ast, req, self, out, list(tap.events)))
                if out[0] == "ok":
                    return out[1]
                if out[0] == "fatal":
                    raise SystemExit(out[1])
                raise RuntimeError("crash:" + str(out[1]))
            finally:
                depth[0] -= 1

        with impl.Tap(), enter_file(TARGET):
            ctx = compile_root_context(tree)
            FunctionAnalyser.analyse = wrapper
            try:
                impl.outcome_of(lambda: FileAnalyser(tree, ctx).analyse())
            finally:
                FunctionAnalyser.analyse = orig
        for node, req, fa, out, events in captured:
            c = Case()
            c.module_src, c.fn = src, node
            c.name = getattr(node, "name", "<lambda>")
            c.fn_src = ast.unparse(node)
            ir = fa.func_ir
            diags = [template_of(e) for e in events]
            im = {"gets": names_json(ir["gets"]), "sets": names_json(ir["sets"]), "dels": names_json(ir["dels"]),
                  "calls": sorted((canon_call(call_json(x)) for x in ir["calls"]), key=impl_json_key), "diags": diags}
            if out[0] == "ok":
                im["outcome"], im["exc"] = "ok", ""
            elif out[0] == "fatal":
                im["outcome"], im["exc"] = "fatal", (diags[-1][1] if diags else "")
            else:
                im["outcome"], im["exc"] = "crash", out[1]
            c.im, c.events = im, events
            reqs.append(req)
            cases.append(c)
    outs = model.batch(reqs)
    for c, mo in zip(cases, outs):
        c.mo = mo
        c.diff = "model error: " + str(mo["__error__"]) if "__error__" in mo else compare(c.im, mo)
    return cases

"""C03 — results are the call-graph closure of own accesses under argument substitution."""
from __future__ import annotations

import random

import common
import impl
from props import resultslib as rl

PID = "C03"
TABLES = ["C04"]

CORPUS = [
    # (name, source) — the known-finding witnesses of DESIGN §7 run first
    ("dedupe", "def top(a, b):\n    one(a)\n    two(b)\ndef one(x):\n    leaf(x)\ndef two(x):\n    leaf(x)\ndef leaf(l):\n    l.attr\n"),
    ("compound", "def top(z):\n    mid(z.y)\ndef mid(p):\n    low(p.q)\ndef low(m):\n    leaf(m)\ndef leaf(l):\n    l.attr = 1\n"),
    ("sharedstore", "def ev(a):\n    a.e\n    od(a.n)\ndef od(b):\n    b.o\n    ev(b.m)\n"),
    ("bracket", "def callee(p):\n    getattr(p[0], 'x')\ndef caller(q):\n    callee(q)\n"),
    ("xattr", "def callee(p):\n    getattr(p, 'b').c\ndef caller(q):\n    callee(q)\n"),
    ("kwempty", "def f(**kw):\n    kw.y\ndef g():\n    f()\n"),
    ("selfrec", "def f(a):\n    a.x\n    f(a)\n"),
    ("chain3", "def a(p):\n    b(p)\ndef b(q):\n    q.bq\n    c(q)\ndef c(r):\n    r.cr = 1\n    del r.cd\n"),
    # round 3: a keyword spelled like a positional-only / *args / **kwargs parameter goes into **kwargs (three levels)
    ("kwclash", "def log(msg, /, *rest, **meta):\n    msg.text = 1\n    return rest.n, meta.level\ndef mid(m, other):\n    return log(m, msg=other, rest=other, meta=m)\ndef top(a, b):\n    return mid(a, b)\n"),
    # round 3: recursion with non-identity arguments: one unrolling in the function and in every caller
    ("swaprec", "def swap(a, b):\n    a.left = b.right\n    return swap(b, a)\ndef use(x, y):\n    return swap(x, y)\ndef outer(u, v):\n    return use(v, u)\n"),
    ("mutualrec", "def ping(a, b):\n    a.pi\n    pong(b, b=a)\ndef pong(c, b):\n    del c.po\n    ping(b, c)\ndef use(x, y):\n    ping(x, y)\n"),
    ("cycle3", "def f(a, b, c):\n    a.fa = 1\n    g(b, c, a)\ndef g(p, q, r):\n    p.gp\n    h(q, r, p)\ndef h(x, y, z):\n    del x.hx\n    f(y, z, x)\n"),
]


def sigs_from_source(src):
    import ast
    out = {}
    for node in ast.parse(src).body:
        if isinstance(node, (ast.FunctionDef, ast.AsyncFunctionDef)):
            a = node.args
            npos = len(a.posonlyargs) + len(a.args)
            ndef = len(a.defaults)
            dpos = [i >= npos - ndef for i in range(npos)]
            out[node.name] = {
                "posonly": [{"name": x.arg, "default": dpos[i]} for i, x in enumerate(a.posonlyargs)],
                "args": [{"name": x.arg, "default": dpos[len(a.posonlyargs) + i]} for i, x in enumerate(a.args)],
                "vararg": a.vararg.arg if a.vararg else None,
                "kwonly": [{"name": x.arg, "default": d is not None} for x, d in zip(a.kwonlyargs, a.kw_defaults)],
                "kwarg": a.kwarg.arg if a.kwarg else None,
            }
    return out


class ProgGen3(rl.ProgGen):
    """round 3: callees over all five parameter kinds are also called with keywords spelled like a
    positional-only / *args / **kwargs parameter of a callee that has **kwargs (Python puts them into
    **kwargs: `record(ev, event=x)` for `def record(event, /, **fields)`), with a value that differs
    from the positional one; recursive calls (self / back edges) pass a non-identity selection of the
    caller's parameters."""

    def signature(self, i):
        sig = super().signature(i)
        r = self.rng
        if not self.clean and sig["kwarg"] is None and r.random() < 0.25:
            sig["kwarg"] = f"kw{i}"
        return sig

    def call_to(self, caller_i, caller_params, callee_i, sig):
        r = self.rng
        text = super().call_to(caller_i, caller_params, callee_i, sig)
        if callee_i <= caller_i and len(caller_params) >= 2:
            for _ in range(8):      # a recursive call that passes the parameters through unchanged unrolls to nothing new
                inner = text[text.index("(") + 1:-1]
                if [a.strip() for a in inner.split(",")][:len(caller_params)] != list(caller_params):
                    break
                text = super().call_to(caller_i, caller_params, callee_i, sig)
        if sig["kwarg"] and not self.clean:
            inner = text[text.index("(") + 1:-1]
            parts = [a.strip() for a in inner.split(",")] if inner.strip() else []
            npos = len([a for a in parts if "=" not in a and not a.startswith("*")])
            clash = [p["name"] for p in sig["posonly"][:npos]] + [x for x in (sig["vararg"], sig["kwarg"]) if x]
            given = dict(zip([p["name"] for p in sig["posonly"]], parts))
            for name in clash:
                if r.random() < 0.4 and not any(a.startswith(name + "=") for a in parts):
                    v = self.arg_expr(caller_params, r.choice(["param", "param", "attr"]), callee_i)
                    for _ in range(6):
                        if v != given.get(name):
                            break
                        v = self.arg_expr(caller_params, r.choice(["param", "attr"]), callee_i)
                    parts.append(f"{name}={v}")
            text = text[:text.index("(") + 1] + ", ".join(parts) + ")"
        return text


def signature_of(bad, feats):
    for f in rl.FEATURE_PRIORITY:
        if f in feats:
            return f"closure-violated:{f}"
    return f"closure-violated:clean-fragment:{bad[0]}:{bad[1]}"


def process(res, src, model, label, rounds=1):
    """Analyse one program with the real code, run model and oracle. Returns list of
    (snap, impl_out, model_out)."""
    out = impl.outcome_of(rl.analyse_source, src)
    if out[0] != "ok":
        res.count("analysis:" + out[0])
        res.skipped_outside_fragment += 1
        return None
    file_ir = out[1]
    snap = rl.snapshot(file_ir)
    if any(not (k is None or isinstance(k, int)) for _, k in snap["resolve"]):
        res.count("resolve:foreign-or-crash")
        res.skipped_outside_fragment += 1
        return None
    im = rl.run_impl(file_ir, rounds=rounds)
    return snap, im


def run(tier, seed, build):
    res = common.Result(PID)
    res.rule = ("generated single-file programs (2-7 functions; chains, diamonds, a callee reached twice, self and mutual "
                "recursion; argument shapes param/attr/subscript/call/literal/tuple/keyword/omitted; signatures over the "
                "five parameter kinds; random definition order) + a corpus of known-finding witnesses. The real "
                "FileAnalyser produces the IR; the real generate_results_from_ir, the Lean model and the closure oracle "
                "run on that IR. non-trivial = distinct program with >= 1 resolvable call. Pipeline stage: generated whole modules "
                "(plain / async functions, named lambdas, classes with __init__, static methods, namedtuples, enums, declared / "
                "ignored / excluded functions, imports, module-level statements of every kind) through the real main() with "
                "-o results -f 0 vs the Lean model Pipeline.run: outcome, printed document, ordered diagnostics of all three "
                "stages, IR after result generation; a sample through the CLI subprocess. Project stage: generated multi-file "
                "projects (target + 0-3 followed modules in packages / namespace packages; same-named same-signature helpers and "
                "classes in different files; call forests of any depth with bare arguments, or depth-one graphs with attribute / "
                "subscript / keyword / omitted arguments and instances stored in names, attributes and items) through the real "
                "main() with --follow-imports 1 and the CLI, judged by a closure oracle computed from the source text; a fourth of them "
                "mixes everything (compound arguments at depth, imported classes, variadic callees, repeated calls, recursion) and "
                "a deviation there counts as a known finding only under its syntactic feature AND if the Lean project model "
                "(Project.run: every file's root context and walk, location-aware resolver, one store) prints the same entry; "
                "the model's document must equal the real one on every project. Round 3, in every stage: callees over all "
                "five parameter kinds called with keywords spelled like their positional-only / *args / **kwargs parameters "
                "(Python: into **kwargs); recursion of every kind of callable (function, lambda, static method calling itself, "
                "static <-> function, static <-> static of one class, initialiser constructing its own class, longer cycles) "
                "with non-identity bare arguments in a `cycle` fragment whose only feature is the cycle, judged by ONE "
                "UNROLLING in the callable and in every caller (paths that visit no callable twice + the closing call's own "
                "accesses) <= results <= least fixpoint of the closure; every call statement in any position a call can sit in "
                "(conditions, loop headers, with items, comprehension iterables / conditions / elements, return / yield / "
                "yield from / await, parameter-less lambdas, f-strings, assert, raise, match subjects / guards, operands of every "
                "operator, displays, try handlers) and under any compound statement; the same single-file modules also through "
                "the pipeline model (diagnostics in order)")
    rng = random.Random(seed)
    n_rand, n_clean = (250, 250) if tier == "quick" else (4000, 3000)
    programs = [(name, src) for name, src in CORPUS]
    for i in range(n_clean):
        src, _ = rl.ProgGen(rng, clean=True).build()
        programs.append((f"clean{i}", src))
    for i in range(n_rand):
        src, _ = (ProgGen3 if i % 2 else rl.ProgGen)(rng).build()
        programs.append((f"rand{i}", src))

    model = common.Model()
    batch, metas = [], []
    for label, src in programs:
        res.evaluations += 1
        p = process(res, src, model, label)
        if p is None:
            continue
        snap, im = p
        sigs = sigs_from_source(src)
        batch.append(("results", {**snap, "rounds": 1}))
        metas.append((label, src, snap, im, sigs))
    outs = model.batch(batch)
    # ---- the Lean SPEC the theorems are about (`Spec.derive`, `Spec.unrollRoot`) against the harness' own closure oracle
    # (`resultslib.Closure.derive`, `resultslib.unroll_once`), on every program: a mismatch is an inconsistency of my
    # machinery (exit 2), never a verdict about rattr
    spec_depth = 3
    spec_reqs = []
    for (label, src, snap, im, sigs) in metas:
        cl0 = rl.Closure(snap, sigs, 0)
        spec_reqs.append(("c03_spec", {"fns": snap["fns"], "resolve": snap["resolve"], "depth": spec_depth,
                                       "sigs": [cl0.sig_of(k) for k in range(len(snap["fns"]))]}))
    for (label, src, snap, im, sigs), so in zip(metas, model.batch(spec_reqs)):
        if "__error__" in so:
            res.internal_errors.append({"stage": "c03_spec", "label": label, "error": str(so["__error__"])[:300]})
            continue
        cl = rl.Closure(snap, sigs, spec_depth)
        for k in range(len(snap["fns"])):
            want_d = cl.derive(k, spec_depth)
            want_u = rl.unroll_once(snap, sigs, k)
            for kind in ("gets", "sets", "dels"):
                a = sorted({f for f, _ in want_d[kind]})
                b = sorted(set(so["derive"][k][kind]))
                if a != b:
                    res.internal_errors.append({"stage": "c03_spec:derive", "label": label, "source": src, "fn": k, "kind": kind,
                                                "python": a, "lean": b})
                a = sorted(want_u[kind])
                b = sorted(set(so["unroll"][k][kind]))
                if a != b:
                    res.internal_errors.append({"stage": "c03_spec:unroll", "label": label, "source": src, "fn": k, "kind": kind,
                                                "python": a, "lean": b})
        res.count("spec:lean-vs-python:compared")
    for (label, src, snap, im, sigs), mo in zip(metas, outs):
        n_res = sum(1 for _, k in snap["resolve"] if isinstance(k, int))
        if n_res:
            res.nontrivial.add(common.digest(src))
        res.count(f"resolvable_calls:{min(n_res, 6)}")
        case = {"label": label, "source": src}
        if im["outcome"] != "ok":
            res.count("impl:" + str(im["outcome"]))
            res.violations.append({"signature": f"result-generation-crash:{im['outcome']}", "case": case})
            continue
        # correspondence
        if "__error__" in mo or mo.get("outcome") != "ok":
            res.disagreements.append({"case": case, "model": mo})
        else:
            mm = rl.canon_model_round(mo["rounds"][0])
            ii = rl.strip_calls(im["rounds"][0])
            if mm != ii:
                res.disagreements.append({"case": case, "impl": ii, "model": mm})
        # property oracle on the implementation's output. A deviation from the closure is a KNOWN
        # defect only if the Lean model of the pinned code (whose defects are proved as counterexample
        # theorems) predicts exactly the same result for that root; otherwise it is new behaviour.
        model_by_key = {}
        if "__error__" not in mo and mo.get("outcome") == "ok":
            for r in rl.canon_model_round(mo["rounds"][0])["results"]:
                model_by_key[r["key"]] = r
        impl_by_key = {r["key"]: r for r in im["rounds"][0]["results"]}
        for k, bad, feats in rl.judge_results(snap, sigs, im["rounds"][0], unroll=True, kwarg_clash_is_finding=False):
            fl = "clean" if not feats else "+".join(sorted(feats))
            if bad is None:
                res.count("verdict:holds|" + ("clean" if not feats else "defect-feature-present"))
            elif "python-rejected-call" in feats:
                # [interp] a program containing a call CPython itself rejects has no defined
                # closure; rattr diagnoses the call and may or may not inline it.
                res.count("verdict:interp:python-rejected-call")
            else:
                sig = signature_of(bad, feats)
                mr, ir_ = model_by_key.get(k), impl_by_key.get(k)
                if mr is None or any(mr[x] != ir_[x] for x in ("gets", "sets", "dels")):
                    sig = "closure-violated:not-the-pinned-behaviour:" + sig.split(":", 1)[1]
                res.count("verdict:" + sig)
                res.violations.append({"signature": sig, "case": case, "root": snap["fns"][k]["name"],
                                       "detail": bad[2], "features": fl})
        res.sample({"label": label, "source": src, "impl_results": im["rounds"][0]["results"]}, cap=4)
    # ---- the whole pipeline in ONE model: source text -> root context -> file / class / function analysers
    # -> result generation -> printed document, against the real `rattr.__main__.main` (in-process) and,
    # for a sample, the real CLI in a subprocess
    from props import pipeline
    from props import c03proj
    # round 3: single-file modules of the project generator (five-kind signatures with keywords that clash with
    # positional-only names, recursion of every kind of callable, calls in every statement position incl. match guards)
    # also go through the single-file pipeline model: outcome, document, DIAGNOSTICS in order, IR after generation
    prng = random.Random(seed + 5507)
    extra = []
    for i in range(24 if tier == "quick" else 320):
        files, target, _ = c03proj.gen_project(prng, ("cycle", "depth1", "tree", "wild")[i % 4], n_modules=0)
        if target == "target.py":
            extra.append((target, files[target]))
    pipeline.run_pipeline_stage(res, random.Random(seed + 7103), 60 if tier == "quick" else 800, model,
                                cli_sample=6 if tier == "quick" else 40, class_targets=True, extra=extra)
    # ---- projects (target + followed local modules): Tie B against the Lean project model + the source-level oracle end to end through main() / the CLI with --follow-imports 1,
    # judged by a closure oracle computed from the SOURCE TEXT of every file (module-local resolution of callees,
    # the instance an initialiser is bound to = the spelled assignment target)
    from props import c03proj
    c03proj.run_project_stage(res, random.Random(seed + 9241), 160 if tier == "quick" else 2400, model,
                              cli_sample=8 if tier == "quick" else 80, modes=("tree", "depth1", "cycle", "wild"))
    res.assumptions = [
        "own IRs are taken from the real analyser (C01/C02 are about them); the resolver is the real find_call_target_and_ir (C06/C08/C11/C12 are about it)",
        "binding oracle = real CPython calls (see C04)",
        "[interp] a call Python rejects contributes no demanded substitution",
        "project stage: own accesses, call sites, callee resolution (Python's module-level scoping) and binding (CPython) are all read from the sources by py/props/c03proj.py; only import forms rattr resolves are generated (un-aliased from-imports, `import m [as a]`, `from p import m`), static methods are called after their class is defined; [interp] an instance that is not stored has no expression for `self`",
        "[interp] a static method is resolvable from its own body and from every body the file walk analyses later (initialiser first, then the static methods in source order); a call to a static method registered later is unresolvable for rattr (the C08 row `...static-method:callers-first`) and contributes no demanded substitution; names bound by match patterns and `except ... as` are strings in the AST and are not judged",
        "a keyword spelled like a positional-only / *args / **kwargs parameter of a callee with **kwargs is NOT a leniency feature: the pinned code diagnoses the call (C04's finding) but binds it as Python does (`C03_swaps_are_binding_inside_E1`)",
        "pipeline stage: follow-imports 0, no starred imports; location facts (module found / blacklisted / excluded names) from the real locator functions; modules whose document depends on CPython's hash order of equal-named Call symbols are skipped (counted)",
    ]
    return res


def replay(path):
    import json
    j = json.load(open(path))
    if "files" in j.get("case", {}):
        from props import c03proj
        return c03proj.replay_case(j["case"])
    src = j["case"]["source"]
    file_ir = rl.analyse_source(src)
    snap = rl.snapshot(file_ir)
    im = rl.run_impl(file_ir)
    print(src)
    print(json.dumps(im, indent=1))
    for v in rl.judge_results(snap, sigs_from_source(src), im["rounds"][0], unroll=True, kwarg_clash_is_finding=False):
        print(v)
    return 0

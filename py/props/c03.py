"""C03 — results are the call-graph closure of own accesses under argument substitution."""
from __future__ import annotations

import random

import common
import impl
from props import resultslib as rl

PID = "C03"
TABLES = ["C04"]

CORPUS = [
    # (name, source) — the known-finding witnesses of DESIGN §7 run first
    ("dedupe", "def top(a, b):\n    one(a)\n    two(b)\ndef one(x):\n    leaf(x)\ndef two(x):\n    leaf(x)\ndef leaf(l):\n    l.attr\n"),
    ("compound", "def top(z):\n    mid(z.y)\ndef mid(p):\n    low(p.q)\ndef low(m):\n    leaf(m)\ndef leaf(l):\n    l.attr = 1\n"),
    ("sharedstore", "def ev(a):\n    a.e\n    od(a.n)\ndef od(b):\n    b.o\n    ev(b.m)\n"),
    ("bracket", "def callee(p):\n    getattr(p[0], 'x')\ndef caller(q):\n    callee(q)\n"),
    ("xattr", "def callee(p):\n    getattr(p, 'b').c\ndef caller(q):\n    callee(q)\n"),
    ("kwempty", "def f(**kw):\n    kw.y\ndef g():\n    f()\n"),
    ("selfrec", "def f(a):\n    a.x\n    f(a)\n"),
    ("chain3", "def a(p):\n    b(p)\ndef b(q):\n    q.bq\n    c(q)\ndef c(r):\n    r.cr = 1\n    del r.cd\n"),
]


def sigs_from_source(src):
    import ast
    out = {}
    for node in ast.parse(src).body:
        if isinstance(node, (ast.FunctionDef, ast.AsyncFunctionDef)):
            a = node.args
            npos = len(a.posonlyargs) + len(a.args)
            ndef = len(a.defaults)
            dpos = [i >= npos - ndef for i in range(npos)]
            out[node.name] = {
                "posonly": [{"name": x.arg, "default": dpos[i]} for i, x in enumerate(a.posonlyargs)],
                "args": [{"name": x.arg, "default": dpos[len(a.posonlyargs) + i]} for i, x in enumerate(a.args)],
                "vararg": a.vararg.arg if a.vararg else None,
                "kwonly": [{"name": x.arg, "default": d is not None} for x, d in zip(a.kwonlyargs, a.kw_defaults)],
                "kwarg": a.kwarg.arg if a.kwarg else None,
            }
    return out


def signature_of(bad, feats):
    for f in rl.FEATURE_PRIORITY:
        if f in feats:
            return f"closure-violated:{f}"
    return f"closure-violated:clean-fragment:{bad[0]}:{bad[1]}"


def process(res, src, model, label, rounds=1):
    """Analyse one program with the real code, run model and oracle. Returns list of
    (snap, impl_out, model_out)."""
    out = impl.outcome_of(rl.analyse_source, src)
    if out[0] != "ok":
        res.count("analysis:" + out[0])
        res.skipped_outside_fragment += 1
        return None
    file_ir = out[1]
    snap = rl.snapshot(file_ir)
    if any(not (k is None or isinstance(k, int)) for _, k in snap["resolve"]):
        res.count("resolve:foreign-or-crash")
        res.skipped_outside_fragment += 1
        return None
    im = rl.run_impl(file_ir, rounds=rounds)
    return snap, im


def run(tier, seed, build):
    res = common.Result(PID)
    res.rule = ("generated single-file programs (2-7 functions; chains, diamonds, a callee reached twice, self and mutual "
                "recursion; argument shapes param/attr/subscript/call/literal/tuple/keyword/omitted; signatures over the "
                "five parameter kinds; random definition order) + a corpus of known-finding witnesses. The real "
                "FileAnalyser produces the IR; the real generate_results_from_ir, the Lean model and the closure oracle "
                "run on that IR. non-trivial = distinct program with >= 1 resolvable call. Pipeline stage: generated whole modules "
                "(plain / async functions, named lambdas, classes with __init__, static methods, namedtuples, enums, declared / "
                "ignored / excluded functions, imports, module-level statements of every kind) through the real main() with "
                "-o results -f 0 vs the Lean model Pipeline.run: outcome, printed document, ordered diagnostics of all three "
                "stages, IR after result generation; a sample through the CLI subprocess. Project stage: generated multi-file "
                "projects (target + 0-3 followed modules in packages / namespace packages; same-named same-signature helpers and "
                "classes in different files; call forests of any depth with bare arguments, or depth-one graphs with attribute / "
                "subscript / keyword / omitted arguments and instances stored in names, attributes and items) through the real "
                "main() with --follow-imports 1 and the CLI, judged by a closure oracle computed from the source text; a fourth of them "
                "mixes everything (compound arguments at depth, imported classes, variadic callees, repeated calls, recursion) and "
                "a deviation there counts as a known finding only under its syntactic feature AND if the Lean project model "
                "(Project.run: every file's root context and walk, location-aware resolver, one store) prints the same entry; "
                "the model's document must equal the real one on every project")
    rng = random.Random(seed)
    n_rand, n_clean = (250, 250) if tier == "quick" else (4000, 3000)
    programs = [(name, src) for name, src in CORPUS]
    for i in range(n_clean):
        src, _ = rl.ProgGen(rng, clean=True).build()
        programs.append((f"clean{i}", src))
    for i in range(n_rand):
        src, _ = rl.ProgGen(rng).build()
        programs.append((f"rand{i}", src))

    model = common.Model()
    batch, metas = [], []
    for label, src in programs:
        res.evaluations += 1
        p = process(res, src, model, label)
        if p is None:
            continue
        snap, im = p
        sigs = sigs_from_source(src)
        batch.append(("results", {**snap, "rounds": 1}))
        metas.append((label, src, snap, im, sigs))
    outs = model.batch(batch)
    for (label, src, snap, im, sigs), mo in zip(metas, outs):
        n_res = sum(1 for _, k in snap["resolve"] if isinstance(k, int))
        if n_res:
            res.nontrivial.add(common.digest(src))
        res.count(f"resolvable_calls:{min(n_res, 6)}")
        case = {"label": label, "source": src}
        if im["outcome"] != "ok":
            res.count("impl:" + str(im["outcome"]))
            res.violations.append({"signature": f"result-generation-crash:{im['outcome']}", "case": case})
            continue
        # correspondence
        if "__error__" in mo or mo.get("outcome") != "ok":
            res.disagreements.append({"case": case, "model": mo})
        else:
            mm = rl.canon_model_round(mo["rounds"][0])
            ii = rl.strip_calls(im["rounds"][0])
            if mm != ii:
                res.disagreements.append({"case": case, "impl": ii, "model": mm})
        # property oracle on the implementation's output. A deviation from the closure is a KNOWN
        # defect only if the Lean model of the pinned code (whose defects are proved as counterexample
        # theorems) predicts exactly the same result for that root; otherwise it is new behaviour.
        model_by_key = {}
        if "__error__" not in mo and mo.get("outcome") == "ok":
            for r in rl.canon_model_round(mo["rounds"][0])["results"]:
                model_by_key[r["key"]] = r
        impl_by_key = {r["key"]: r for r in im["rounds"][0]["results"]}
        for k, bad, feats in rl.judge_results(snap, sigs, im["rounds"][0]):
            fl = "clean" if not feats else "+".join(sorted(feats))
            if bad is None:
                res.count("verdict:holds|" + ("clean" if not feats else "defect-feature-present"))
            elif "python-rejected-call" in feats:
                # [interp] a program containing a call CPython itself rejects has no defined
                # closure; rattr diagnoses the call and may or may not inline it.
                res.count("verdict:interp:python-rejected-call")
            else:
                sig = signature_of(bad, feats)
                mr, ir_ = model_by_key.get(k), impl_by_key.get(k)
                if mr is None or any(mr[x] != ir_[x] for x in ("gets", "sets", "dels")):
                    sig = "closure-violated:not-the-pinned-behaviour:" + sig.split(":", 1)[1]
                res.count("verdict:" + sig)
                res.violations.append({"signature": sig, "case": case, "root": snap["fns"][k]["name"],
                                       "detail": bad[2], "features": fl})
        res.sample({"label": label, "source": src, "impl_results": im["rounds"][0]["results"]}, cap=4)
    # ---- the whole pipeline in ONE model: source text -> root context -> file / class / function analysers
    # -> result generation -> printed document, against the real `rattr.__main__.main` (in-process) and,
    # for a sample, the real CLI in a subprocess
    from props import pipeline
    pipeline.run_pipeline_stage(res, random.Random(seed + 7103), 60 if tier == "quick" else 800, model,
                                cli_sample=6 if tier == "quick" else 40, class_targets=True)
    # ---- projects (target + followed local modules): Tie B against the Lean project model + the source-level oracle end to end through main() / the CLI with --follow-imports 1,
    # judged by a closure oracle computed from the SOURCE TEXT of every file (module-local resolution of callees,
    # the instance an initialiser is bound to = the spelled assignment target)
    from props import c03proj
    c03proj.run_project_stage(res, random.Random(seed + 9241), 120 if tier == "quick" else 2400, model,
                              cli_sample=8 if tier == "quick" else 80)
    res.assumptions = [
        "own IRs are taken from the real analyser (C01/C02 are about them); the resolver is the real find_call_target_and_ir (C06/C08/C11/C12 are about it)",
        "binding oracle = real CPython calls (see C04)",
        "[interp] a call Python rejects contributes no demanded substitution",
        "project stage: own accesses, call sites, callee resolution (Python's module-level scoping) and binding (CPython) are all read from the sources by py/props/c03proj.py; only import forms rattr resolves are generated (un-aliased from-imports, `import m [as a]`, `from p import m`), static methods are called after their class is defined; [interp] an instance that is not stored has no expression for `self`",
        "pipeline stage: follow-imports 0, no starred imports; location facts (module found / blacklisted / excluded names) from the real locator functions; modules whose document depends on CPython's hash order of equal-named Call symbols are skipped (counted)",
    ]
    return res


def replay(path):
    import json
    j = json.load(open(path))
    if "files" in j.get("case", {}):
        from props import c03proj
        return c03proj.replay_case(j["case"])
    src = j["case"]["source"]
    file_ir = rl.analyse_source(src)
    snap = rl.snapshot(file_ir)
    im = rl.run_impl(file_ir)
    print(src)
    print(json.dumps(im, indent=1))
    for v in rl.judge_results(snap, sigs_from_source(src), im["rounds"][0]):
        print(v)
    return 0

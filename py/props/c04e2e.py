"""C04, the part of the property that lives OUTSIDE `construct_call_swaps`: "the parameter-to-argument
substitution USED FOR INLINING" and "a call Python would reject yields an error diagnostic".

Two stages, both with an oracle the code under test never consults (real CPython calls):

`unbind_stage`   `construct_call_swaps` ; `unbind_ir_with_call_swaps` on a callee IR whose names are rooted
                 at the callee's parameters, the call's arguments being (partly) a permutation of / overlapping
                 with the callee's OWN parameter names.  Real code vs Lean `Swaps.construct` ; `Results.unbindIr`
                 (op `unbind`), and the oracle: every name rooted at an explicitly bound parameter comes out
                 rooted at exactly that argument (simultaneous substitution).

`module_stage`   whole modules through the real pipeline (`rattr.__main__.main` in-process, a sample through the
                 CLI subprocess), in the target file (follow-imports 0: also compared with the Lean pipeline
                 model, op `pipeline`) and with the callees in a followed import (follow-imports 1).  A module
                 is a bag of independent scenarios:
                   perm    callee touches `<param>.m<i>_<param>` (get / set / del) for every parameter; callers
                           pass their own variables, which are named like the callee's parameters, permuted;
                           def / async def / named lambda / static method callees
                   rec     a recursive function which permutes its arguments on the way down
                   chain   caller -> mid -> leaf, both hops permuting
                   cls     class whose `__init__` does `self.k<i>_<p> = <p>.s<i>_<p>`; instantiated into a plain
                           name, an attribute, a nested attribute, a subscript, an annotated attribute, a
                           `self.member` of another initialiser, returned, and not stored at all
                   empty   callee with a completely EMPTY IR (pass / ... / docstring / return constant / calls
                           only another such function / initialiser with `pass` / namedtuple / constant lambda);
                           one caller per call, calls Python accepts and calls Python rejects
                   reject  the same calls against a callee that does touch its parameters (control)
                 Oracle: the marked names in the caller's results are EXACTLY those CPython's binding predicts;
                 an error diagnostic `call to …` is attributed (by line) to a call iff CPython rejects it for an
                 arity reason ([interp] a merely missing required argument: no demand).
"""
from __future__ import annotations

import contextlib
import io
import json
import os
import random
import re
import subprocess
import sys
from pathlib import Path
from unittest import mock

sys.path.insert(0, str(Path(__file__).resolve().parent.parent))

import common  # noqa: E402
import impl

from rattr.config import Config, State
from rattr.cli import parse_arguments

PARAMS = ["a", "b", "c", "d", "e"]
CALLER_PARAMS = PARAMS + ["o", "t", "u"]
ANSI = re.compile(r"\x1b\[[0-9;]*m")


# ===================================================================== shared: signatures, calls, CPython


def _c04():
    from props import c04
    return c04


def gen_sig(rng, names=None, max_named=4, variadics=True, defaults=True):
    """A signature over the five kinds whose parameter NAMES are a random arrangement of a..e (so that
    both orders of any two names occur as binding order)."""
    n = rng.randint(1, max_named)
    names = list(names or rng.sample(PARAMS, n))
    n = len(names)
    cut1 = rng.choice([0, 0, rng.randint(0, n)])
    cut2 = rng.randint(cut1, n) if rng.random() < 0.6 else n
    po, ar, ko = names[:cut1], names[cut1:cut2], names[cut2:]
    pos = po + ar
    k = rng.randint(0, len(pos)) if defaults and rng.random() < 0.4 else 0
    dpos = [i >= len(pos) - k for i in range(len(pos))]
    return {
        "posonly": [{"name": x, "default": dpos[i]} for i, x in enumerate(po)],
        "args": [{"name": x, "default": dpos[len(po) + i]} for i, x in enumerate(ar)],
        "vararg": "va" if variadics and rng.random() < 0.3 else None,
        "kwonly": [{"name": x, "default": defaults and rng.random() < 0.4} for x in ko],
        "kwarg": "kw" if variadics and rng.random() < 0.3 else None,
    }


def named(sig):
    return [p["name"] for k in ("posonly", "args", "kwonly") for p in sig[k]]


def with_self(sig, self_name="self"):
    """The signature of `__init__(self, <sig>)`."""
    s = {k: (list(v) if isinstance(v, list) else v) for k, v in sig.items()}
    if s["posonly"]:
        s["posonly"] = [{"name": self_name, "default": False}] + s["posonly"]
    else:
        s["args"] = [{"name": self_name, "default": False}] + s["args"]
    return s


ARG_POOL = ["o", "u", "o.x", "a.y", "b.z.w", "t[0]", "e.q"]


def spelled(arg):
    """rattr's spelling of an argument expression of the shapes generated here (README naming rules)."""
    return re.sub(r"\[[^\]]*\]", "[]", arg)


DSTAR_POOL = ["o", "o.extra", "u.kw", "u"]
STAR_POOL = ["t", "o.items", "u"]


def decorate(rng, call, dstar_p=0.4, star_p=0.0):
    """Source-level decorations the binding machinery must look THROUGH: `**mapping` unpackings at any
    position among the keywords (before / between / after the explicit ones, one or two of them) and
    `*iterable` unpackings among the positionals.  `dstar` / `star`: [[index, expression]] = written just before
    the explicit keyword / positional of that index (index == len: at the end).  The explicit part of the call
    (`args`, `kwargs`) is unchanged: it is the instance of the call in which every unpacked object is empty,
    which is what CPython is asked about."""
    call = dict(call)
    if rng.random() < dstar_p:
        nk = len(call["kwargs"])
        k = rng.choice([1, 1, 1, 2])
        # every position: bias towards "before an explicit keyword" (the unusual spelling)
        idx = sorted(rng.choice(list(range(nk + 1)) + list(range(nk))) for _ in range(k))
        call["dstar"] = [[i, e] for i, e in zip(idx, rng.sample(DSTAR_POOL, k))]
    if rng.random() < star_p:
        call["star"] = [[rng.randint(0, len(call["args"])), rng.choice(STAR_POOL)]]
    return call


def gen_call(rng, sig, want, permute=True, literals=False, tries=60):
    """A call of `sig` that CPython accepts (`want='ok'`) / rejects for an arity reason (`want='arity'`),
    outside the known-finding classes E1 / E2 (judged by the direct check).  Argument values are the
    callee's own parameter names, permuted, with a few other shapes mixed in."""
    c04 = _c04()
    names = named(sig)
    for _ in range(tries):
        n_pos_params = len(sig["posonly"]) + len(sig["args"])
        if want == "ok":
            hi = n_pos_params + (2 if sig["vararg"] else 0)
            lo = len(sig["posonly"])
            npos = rng.randint(min(lo, hi), hi)
        else:
            npos = rng.randint(0, n_pos_params + 2)
        kw_pool = names + ["zz", "yy"]
        nk = rng.randint(0, min(3, len(kw_pool)))
        ks = rng.sample(kw_pool, nk)
        if want == "ok":
            # keywords for what is not filled by position (+ the occasional extra one for **kw)
            filled = set((sig["posonly"] + sig["args"])[i]["name"] for i in range(min(npos, n_pos_params)))
            open_ = [p["name"] for p in sig["args"] + sig["kwonly"] if p["name"] not in filled]
            req = [p["name"] for p in sig["args"] + sig["kwonly"] if p["name"] not in filled and not p["default"]]
            ks = list(dict.fromkeys(req + [k for k in ks if k in open_ or (sig["kwarg"] and k in ("zz", "yy"))]))
            rng.shuffle(ks)
        values = []
        src = list(PARAMS)
        rng.shuffle(src)
        for i in range(npos + len(ks)):
            r = rng.random()
            if permute and r < 0.75:
                values.append(src[i % len(src)])
            elif literals and r < 0.85:
                values.append(rng.choice(["1", "'s'", "None"]))
            else:
                values.append(rng.choice(ARG_POOL))
        call = {"args": values[:npos], "kwargs": [[k, v] for k, v in zip(ks, values[npos:])]}
        if len(call["args"]) < len(sig["posonly"]) and want == "ok":
            continue                                    # E2
        clash = [p["name"] for p in sig["posonly"]] + [x for x in (sig["vararg"], sig["kwarg"]) if x]
        if sig["kwarg"] and any(k in clash for k, _ in call["kwargs"]):
            continue                                    # E1
        pb = c04.python_bind(sig, call)
        got = "ok" if pb[0] == "ok" else pb[1]
        if got == want:
            return call, pb
    return None, None


def call_text(call):
    pos, kws = [], []
    star, dstar = call.get("star") or [], call.get("dstar") or []
    for i, a in enumerate(list(call["args"]) + [None]):
        pos += ["*" + e for j, e in star if j == i]
        if a is not None:
            pos.append(a)
    for i, kv in enumerate(list(call["kwargs"]) + [None]):
        kws += ["**" + e for j, e in dstar if j == i]
        if kv is not None:
            kws.append(f"{kv[0]}={kv[1]}")
    return ", ".join(pos + kws)


def unpack_features(call):
    """which unpacking shapes a call has (for the reach statistics and the violation signatures)"""
    out = []
    nk = len(call["kwargs"])
    for j, _ in call.get("dstar") or []:
        out.append("dict-unpacking:" + ("alone" if nk == 0 else "before-every-keyword" if j == 0 else
                                        "after-every-keyword" if j == nk else "between-keywords"))
    for j, _ in call.get("star") or []:
        out.append("iterable-unpacking:" + ("last-positional" if j == len(call["args"]) else "before-a-positional"))
    return out


def firm_params(sig, call, pb):
    """The parameters whose binding CPython fixes in EVERY instance of a call that has `*iterable` among its
    positionals: those filled by a positional written before the first unpacking, and keyword-only ones."""
    star = call.get("star") or []
    if not star:
        return None
    first = min(j for j, _ in star)
    pos = [p["name"] for p in sig["posonly"] + sig["args"]]
    ko = {p["name"] for p in sig["kwonly"]}
    return set(pos[:first]) | {p for p, _ in pb[1] if p in ko}


def holders(sig, pb):
    """parameter -> the spelled argument CPython binds to it (explicitly bound ones only)."""
    return {p: spelled(v) for p, v in pb[1]}


# ===================================================================== stage 1: the substitution, unit level


def _ir_names(rng, sig):
    """Names of a callee IR: rooted at every parameter (plain, attribute, nested, subscript, starred) and a
    few rooted elsewhere."""
    from rattr.models.symbol import Name

    roots = named(sig) + [x for x in (sig["vararg"], sig["kwarg"]) if x]
    out = {"gets": [], "sets": [], "dels": []}
    for p in roots:
        for _ in range(rng.randint(1, 2)):
            suffix = rng.choice(["", ".x", ".x.y", "[]", "[].x", f".m_{p}"])
            star = "*" if rng.random() < 0.08 else ""
            out[rng.choice(["gets", "gets", "sets", "dels"])].append((star + p + suffix, p))
    for q in rng.sample(["g", "zz", "o", "loc"], rng.randint(0, 2)):
        out["gets"].append((q + rng.choice(["", ".x"]), q))
    for k in out:
        out[k] = sorted(set(out[k]))
    return out, lambda pairs: {Name(n, b) for n, b in pairs}


def unbind_stage(res, rng, n, model):
    """`unbind_ir_with_call_swaps(ir, construct_call_swaps(func, call))`: real code vs Lean model vs CPython."""
    from rattr.config.state import enter_file
    from rattr.models.symbol import Call, CallArguments, CallInterface, Func
    from rattr.results import construct_call_swaps
    from rattr.results._simplify_utils import unbind_ir_with_call_swaps

    c04 = _c04()
    impl.reset_config()
    cases = []
    while len(cases) < n:
        sig = gen_sig(rng)
        call, pb = gen_call(rng, sig, "ok")
        if call is None:
            continue
        call = {"args": [spelled(a) for a in call["args"]], "kwargs": [[k, spelled(v)] for k, v in call["kwargs"]]}
        pb = c04.python_bind(sig, call)
        names, mk = _ir_names(rng, sig)
        cases.append((sig, call, pb, names, mk))
    # a few raw swaps dictionaries that no call produces (cycles, chains, identity) — correspondence only
    raw = []
    for _ in range(max(20, n // 10)):
        ks = rng.sample(PARAMS, rng.randint(1, 4))
        vs = list(ks)
        rng.shuffle(vs)
        sw = [[k, rng.choice([v, v, "o", "@Tuple", k])] for k, v in zip(ks, vs)]
        sig = {"posonly": [], "args": [{"name": k, "default": False} for k in PARAMS], "vararg": None, "kwonly": [], "kwarg": None}
        names, mk = _ir_names(rng, sig)
        raw.append((sw, names, mk))

    reqs = [("unbind", {"sig": s, "call": c, **nm}) for s, c, _, nm, _ in cases]
    reqs += [("unbind", {"swaps": sw, **nm}) for sw, nm, _ in raw]
    outs = model.batch(reqs)

    def canon(ir):
        return {k: sorted([x.name, x.basename] for x in ir[k]) for k in ("gets", "sets", "dels")}

    def canon_model(mo):
        return {k: sorted(map(list, {tuple(x) for x in mo[k]})) for k in ("gets", "sets", "dels")}

    for (sig, call, pb, names, mk), mo in zip(cases, outs):
        res.evaluations += 1
        case = {"stage": "unbind", "sig": c04.py_source(sig), "call": call, "callee_ir": names}
        with enter_file(impl.Path("target.py")):
            func = Func(name="callee", interface=CallInterface(
                posonlyargs=[p["name"] for p in sig["posonly"]], args=[p["name"] for p in sig["args"]],
                vararg=sig["vararg"], kwonlyargs=[p["name"] for p in sig["kwonly"]], kwarg=sig["kwarg"]))
            c = Call(name="callee", args=CallArguments(args=call["args"], kwargs=dict(map(tuple, call["kwargs"]))))
            ir = {k: mk(v) for k, v in names.items()}
        ir["calls"] = set()
        with impl.Tap() as tap:
            out = impl.outcome_of(lambda: unbind_ir_with_call_swaps(ir, construct_call_swaps(func, c)))
        res.nontrivial.add(common.digest(case))
        permuted = bool((set(call["args"]) | {v for _, v in call["kwargs"]}) & set(named(sig)))
        res.count("unbind:arguments-overlap-parameter-names" if permuted else "unbind:arguments-disjoint-from-parameters")
        if out[0] != "ok":
            res.violations.append({"signature": f"inlining-substitution:crash:{out[1]}", "case": case})
            continue
        got = canon(out[1])
        if "__error__" in mo or mo.get("outcome") != "ok":
            res.disagreements.append({"case": case, "impl": got, "model": mo})
        elif canon_model(mo) != got:
            res.disagreements.append({"case": case, "impl": got, "model": canon_model(mo)})
        if tap.events:
            continue        # an accepted call that is diagnosed is the direct check's business
        # oracle: CPython's binding, applied to the root of every name, all at once
        hold = holders(sig, pb)
        bad = None
        for k in ("gets", "sets", "dels"):
            want = set()
            free = False
            for full, base in names[k]:
                if base == sig["vararg"]:
                    new = "@Tuple"
                elif base == sig["kwarg"]:
                    if not pb[3]:
                        free = True         # E3 (known finding): unmapped or `@Dict`
                        continue
                    new = "@Dict"
                else:
                    new = hold.get(base, base)
                star = "*" if full.startswith("*") else ""
                want.add((star + new + full[len(star) + len(base):], new))
            have = {tuple(x) for x in got[k]}
            if free:
                kwn = sig["kwarg"]
                have = {x for x in have if x[1] not in (kwn, "@Dict")}
                want = {x for x in want if x[1] not in (kwn, "@Dict")}
            if have != want:
                bad = {"set": k, "expected": sorted(want), "got": sorted(have)}
                break
        if bad is None:
            res.count("unbind:holds")
        else:
            sig_ = "inlining-substitution:name-not-rebound-to-exactly-its-argument:" + \
                ("argument-spelled-like-a-parameter" if permuted else "arguments-disjoint-from-parameters")
            res.count("verdict:" + sig_)
            res.violations.append({"signature": sig_, "case": case, "detail": bad, "python_binding": pb[1]})
    for (sw, names, mk), mo in zip(raw, outs[len(cases):]):
        res.evaluations += 1
        with enter_file(impl.Path("target.py")):
            ir = {k: mk(v) for k, v in names.items()}
            ir["calls"] = set()
            out = impl.outcome_of(lambda: unbind_ir_with_call_swaps(ir, dict(map(tuple, sw))))
        case = {"stage": "unbind-raw", "swaps": sw, "callee_ir": names}
        res.count("unbind:raw-swaps")
        if out[0] != "ok":
            if mo.get("outcome") != "never" or out[1] != "ValueError":
                res.disagreements.append({"case": case, "impl": list(out[:2]), "model": mo})
            continue
        got = canon(out[1])
        if "__error__" in mo or mo.get("outcome") != "ok" or canon_model(mo) != got:
            res.disagreements.append({"case": case, "impl": got, "model": mo})


# ===================================================================== stage 2: whole modules


class Call_:
    """one call site: which function it sits in, its statement, what CPython says about it"""
    __slots__ = ("fn", "text", "python", "line")


class Scenario:
    def __init__(self, i, kind):
        self.i, self.kind = i, kind
        self.lib = []           # source lines that define the callee(s): target file or followed import
        self.imports = []       # names the target must import for the lib part
        self.callers = []       # source lines of the callers (always in the target file)
        self.expect = []        # (function name, bucket, regex of marked names, (required, allowed), call record | None)
        self.calls = []         # call records, see `rec`
        self.features = set()


def rec(fn, text, want, init=None, call=None):
    """One call site. `init` (initialiser calls only): what is needed to predict the PINNED behaviour for a
    class that is imported (known finding: no implicit `self`): {isig, call, selfn, i, ps}.
    `want`: 'ok' | 'arity' | 'missingRequired' (CPython on the explicit part of the call) | 'starred-ok' (explicit
    part accepted, `*iterable` among the positionals: rattr announces it does not support the call)."""
    return {"fn": fn, "text": text, "want": want, "init": init, "pinned": None,
            "unpack": unpack_features(call) if call else []}


def _candidates(call, p):
    """every spelling a parameter that CPython leaves open (call with `*iterable`) may be rooted at"""
    xs = [spelled(a) for a in call["args"]] + [spelled(v) for _, v in call["kwargs"]]
    xs += ["*" + spelled(e) for _, e in call.get("star") or []]
    return set(xs) | {p, "@Tuple", "@Dict"}


EMPTY_BODIES = ["pass", "...", '"""Override me."""', "return 42", "return None", "return", "HELPER()"]
ACCESS = {"gets": "{x}", "sets": "{x} = 1", "dels": "del {x}"}


def _header(sig, name, prefix="def", first=None):
    c04 = _c04()
    s = with_self(sig, first) if first else sig
    return c04.py_source(s).replace("def callee(", f"{prefix} {name}(").replace(": pass", ":")


def _params_text(sig):
    return _c04().py_source(sig)[len("def callee("):-len("): pass")]


def _caller(name, body, params=CALLER_PARAMS):
    return [f"def {name}({', '.join(params)}):"] + ["    " + b for b in body] + [""]


def sc_perm(rng, i, q=lambda n: n, static_ok=True):
    sc = Scenario(i, "perm")
    form = rng.choice(["def", "def", "def", "async", "lambda", "static" if static_ok else "def"])
    sig = gen_sig(rng)
    ps = named(sig)
    kinds = {p: ("gets" if form == "lambda" else rng.choice(["gets", "sets", "dels"])) for p in ps}
    touch_va = sig["vararg"] and rng.random() < 0.7
    touch_kw = sig["kwarg"] and rng.random() < 0.7
    mark = lambda p: f"{p}.m{i}_{p}"      # noqa: E731
    name = f"fn{i}"
    callee = name
    if form == "lambda":
        items = [mark(p) for p in ps] + ([mark("va")] if touch_va else []) + ([mark("kw")] if touch_kw else [])
        sc.lib = [f"{name} = lambda {_params_text(sig)}: ({', '.join(items)},)", ""]
        sc.imports = [name]
    else:
        body = [ACCESS[kinds[p]].format(x=mark(p)) for p in ps]
        if touch_va:
            body.append(mark("va"))
        if touch_kw:
            body.append(mark("kw"))
        if form == "static":
            sc.lib = [f"class K{i}:", "    @staticmethod", "    " + _header(sig, "sm")] + ["        " + b for b in body] + [""]
            sc.imports = [f"K{i}"]
            callee = f"K{i}.sm"
        else:
            sc.lib = [_header(sig, name, "async def" if form == "async" else "def")] + ["    " + b for b in body] + [""]
            sc.imports = [name]
    sc.features.add("callee:" + form)
    for j in range(rng.randint(1, 2)):
        n_calls = rng.choice([1, 1, 2])
        got = []
        for _ in range(n_calls):
            call, pb = gen_call(rng, sig, "ok")
            if call is not None:
                got.append((decorate(rng, call, 0.4, 0.15), pb))
        if not got:
            continue
        fn = f"use{i}_{j}"
        style = rng.choice(["expr", "expr", "assign", "return"])
        lines = []
        for idx, (call, pb) in enumerate(got):
            text = f"{q(callee)}({call_text(call)})"
            if form == "async":
                text = "await " + text
            last = idx == len(got) - 1
            lines.append(("return " + text) if (style == "return" and last) else (f"r{idx} = {text}" if style == "assign" else text))
            sc.calls.append(rec(fn, text, "starred-ok" if call.get("star") else "ok", call=call))
            sc.features.update(unpack_features(call))
        sc.callers += _caller(fn, lines) if form != "async" else ["async " + l if k == 0 else l for k, l in enumerate(_caller(fn, lines))]
        for bucket in ("gets", "sets", "dels"):
            want, free = set(), set()
            for call, pb in got:
                hold = holders(sig, pb)
                firm = firm_params(sig, call, pb)
                for p in ps:
                    if kinds[p] == bucket:
                        if firm is None or p in firm:
                            want.add(f"{hold.get(p, p)}.m{i}_{p}")
                        else:
                            free |= {f"{x}.m{i}_{p}" for x in _candidates(call, p)}
                if bucket == "gets":
                    if touch_va:
                        want.add(f"@Tuple.m{i}_va")
                    if touch_kw:
                        if pb[3]:
                            want.add(f"@Dict.m{i}_kw")
                        else:
                            free |= {f"kw.m{i}_kw", f"@Dict.m{i}_kw"}     # E3 (known finding): either
                if any(a in ps for a in list(call["args"]) + [v for _, v in call["kwargs"]]):
                    sc.features.add("arguments-overlap-parameter-names")
            sc.expect.append((fn, bucket, rf"\.m{i}_\w+$", (want, want | free), None))
    return sc


def sc_rec(rng, i, q=lambda n: n):
    sc = Scenario(i, "rec")
    n = rng.randint(2, 3)
    ps = rng.sample(PARAMS, n)
    perm = list(ps)
    while perm == ps:
        rng.shuffle(perm)
    bucket = rng.choice(["gets", "sets", "dels"])
    name = f"walk{i}"
    sc.lib = [f"def {name}({', '.join(ps)}):", "    " + ACCESS[bucket].format(x=f"{ps[0]}.m{i}_x"), f"    {name}({', '.join(perm)})", ""]
    sc.imports = [name]
    sc.features.add("arguments-overlap-parameter-names")
    sc.calls.append(rec(name, f"{name}({', '.join(perm)})", "ok"))
    required = {f"{ps[0]}.m{i}_x", f"{perm[0]}.m{i}_x"}
    sc.expect.append((name, bucket, rf"\.m{i}_x$", (required, {f"{p}.m{i}_x" for p in ps}), None))
    return sc


def sc_chain(rng, i, q=lambda n: n):
    sc = Scenario(i, "chain")
    n = rng.randint(2, 3)
    ps = rng.sample(PARAMS, n)
    p1, p2 = list(ps), list(ps)
    rng.shuffle(p1)
    rng.shuffle(p2)
    bucket = rng.choice(["gets", "sets", "dels"])
    sc.lib = [f"def leaf{i}({', '.join(ps)}):"] + ["    " + ACCESS[bucket].format(x=f"{p}.m{i}_{p}") for p in ps] + [""]
    sc.lib += [f"def mid{i}({', '.join(ps)}):", f"    leaf{i}({', '.join(p1)})", ""]
    sc.imports = [f"mid{i}"]
    fn = f"top{i}"
    sc.callers = _caller(fn, [f"{q(f'mid{i}')}({', '.join(p2)})"])
    sc.features.add("arguments-overlap-parameter-names")
    sc.calls.append(rec(fn, f"mid{i}({', '.join(p2)})", "ok"))
    # leaf's parameter ps[k] <- mid's variable p1[k]; mid's parameter ps[m] <- top's variable p2[m]
    mid_env = dict(zip(ps, p2))
    want = {f"{mid_env[p1[k]]}.m{i}_{ps[k]}" for k in range(n)}
    sc.expect.append((fn, bucket, rf"\.m{i}_\w+$", (want, want), None))
    return sc


TARGET_FORMS = ["name", "attr", "attr", "nested", "sub", "subattr", "ann", "member", "return", "bare"]


def sc_cls(rng, i, q=lambda n: n):
    sc = Scenario(i, "cls")
    sig = gen_sig(rng)
    ps = named(sig)
    cname = f"Cl{i}"
    selfn = rng.choice(["self", "self", "this"])
    body = [f"{selfn}.k{i}_{p} = {p}.s{i}_{p}" for p in ps] or ["pass"]
    sc.lib = [f"class {cname}:", "    " + _header(sig, "__init__", first=selfn)] + ["        " + b for b in body] + [""]
    sc.imports = [cname]
    isig = with_self(sig, selfn)
    forms = rng.sample(TARGET_FORMS, rng.randint(2, 4))
    for j, form in enumerate(forms):
        target = {"name": "inst", "attr": "o.field", "nested": "o.a.b", "sub": "t[0]", "subattr": "t[0].g", "ann": "o.slot",
                  "member": "self.member", "return": None, "bare": None}[form]
        call, _ = gen_call(rng, sig, "ok")
        if call is None:
            continue
        call = decorate(rng, call, 0.4, 0.0)
        sc.features.update(unpack_features(call))
        c04 = _c04()
        tsp = spelled(target) if target else "@X"
        pb = c04.python_bind(isig, {"args": [tsp] + list(call["args"]), "kwargs": call["kwargs"]})
        if pb[0] != "ok":
            continue
        hold = holders(isig, pb)
        assert hold[selfn] == tsp
        text = f"{q(cname)}({call_text(call)})"
        fn = f"mk{i}_{j}"
        if form == "member":
            fn = f"Outer{i}_{j}"
            sc.callers += [f"class {fn}:", f"    def __init__(self, {', '.join(CALLER_PARAMS)}):", f"        self.member = {text}", ""]
        elif form == "return":
            sc.callers += _caller(fn, [f"return {text}"])
        elif form == "bare":
            sc.callers += _caller(fn, [text])
        elif form == "ann":
            sc.callers += _caller(fn, [f"{target}: {q(cname)} = {text}"])
        else:
            sc.callers += _caller(fn, [f"{target} = {text}"])
        r = rec(fn, text, "ok", init={"isig": isig, "call": call, "selfn": selfn, "i": i, "ps": ps}, call=call)
        sc.calls.append(r)
        sc.features.add("class-target:" + form)
        gets = {f"{hold.get(p, p)}.s{i}_{p}" for p in ps}
        sc.expect.append((fn, "gets", rf"\.s{i}_\w+$", (gets, gets), r))
        if target is not None:
            sets = {f"{tsp}.k{i}_{p}" for p in ps}
            sc.expect.append((fn, "sets", rf"\.k{i}_\w+$", (sets, sets), r))
    return sc


def _empty_callee(rng, i, sig, static_ok=True):
    """(lines defining a callee with an EMPTY IR, the name to call, its kind, does the call bind a `self`)"""
    kind = rng.choice(["def", "def", "def", "init", "namedtuple", "lambda", "static" if static_ok else "def", "async"])
    if kind == "namedtuple":
        fields = named(sig) or ["a"]
        sig2 = {"posonly": [], "args": [{"name": f, "default": False} for f in fields], "vararg": None, "kwonly": [], "kwarg": None}
        return [f"Nt{i} = namedtuple('Nt{i}', {fields!r})", ""], f"Nt{i}", kind, sig2, True
    if kind == "lambda":
        return [f"lam{i} = lambda {_params_text(sig)}: {rng.choice(['0', 'None', '(1, 2)'])}", ""], f"lam{i}", kind, sig, False
    body = rng.choice(EMPTY_BODIES)
    pre = []
    if body == "HELPER()":
        pre = [f"def hook{i}():", "    " + rng.choice(["pass", "return 0"]), ""]
        body = f"hook{i}()"
    if kind == "init":
        if body.startswith("return") and body != "return":
            body = "pass"
        return pre + [f"class Em{i}:", "    " + _header(sig, "__init__", first="self"), "        " + body, ""], f"Em{i}", kind, sig, True
    if kind == "static":
        return pre + [f"class Ks{i}:", "    @staticmethod", "    " + _header(sig, "sm"), "        " + body, ""], f"Ks{i}.sm", kind, sig, False
    return pre + [_header(sig, f"stub{i}", "async def" if kind == "async" else "def"), "    " + body, ""], f"stub{i}", kind, sig, False


def sc_calls(rng, i, q=lambda n: n, empty=True, static_ok=True):
    """accepted and rejected calls, one caller each; `empty`: the callee's IR is completely empty."""
    sc = Scenario(i, "empty" if empty else "reject")
    sig = gen_sig(rng)
    if empty:
        lines, callee, kind, sig, has_self = _empty_callee(rng, i, sig, static_ok)
        if kind == "namedtuple":
            sc.features.add("needs-namedtuple")
    else:
        ps = named(sig)
        kind, has_self = rng.choice(["def", "init"]), False
        if kind == "init":
            lines = [f"class Rc{i}:", "    " + _header(sig, "__init__", first="self")] + [f"        self.k{i}_{p} = {p}.s{i}_{p}" for p in ps] + [""]
            callee, has_self = f"Rc{i}", True
        else:
            lines = [_header(sig, f"rj{i}")] + [f"    {p}.m{i}_{p}" for p in ps] + [""]
            callee = f"rj{i}"
    sc.lib = lines
    sc.imports = [callee.split(".")[0]]
    sc.features.add(("empty-callee:" if empty else "touching-callee:") + kind)
    wants = ["arity", "arity", "ok"] if rng.random() < 0.7 else ["arity", "ok", "missingRequired"]
    if not sig["vararg"]:
        wants.append("one-too-many")
    for j, want in enumerate(wants):
        if want == "one-too-many":
            # exactly one positional more than there are positional parameters, no keywords
            n_pos = len(sig["posonly"]) + len(sig["args"]) + 1
            call = {"args": [rng.choice(PARAMS + ["o"]) for _ in range(n_pos)], "kwargs": []}
            pb = _c04().python_bind(sig, call)
            want = "ok" if pb[0] == "ok" else pb[1]
            if want != "arity":
                continue
        else:
            call, pb = gen_call(rng, sig, want, literals=True)
        if call is None:
            continue
        call = decorate(rng, call, 0.4, 0.0 if has_self else 0.15)
        sc.features.update(unpack_features(call))
        if call.get("star") and want == "ok":
            want = "starred-ok"
        text = f"{q(callee)}({call_text(call)})"
        fn = f"cl{i}_{j}"
        if has_self:
            stmt = rng.choice([f"inst = {text}", f"o.made = {text}", f"return {text}"])
        elif kind == "async":
            stmt = f"await {text}"
        else:
            stmt = rng.choice([text, f"return {text}", f"r = {text}"])
        lines = _caller(fn, [stmt])
        if kind == "async":
            lines[0] = "async " + lines[0]
        sc.callers += lines
        init = {"isig": with_self(sig), "call": call, "selfn": "self", "i": i, "ps": named(sig)} if has_self else None
        sc.calls.append(rec(fn, text, want, init=init, call=call))
    return sc


SCENARIOS = [("perm", sc_perm, 3), ("rec", lambda r, i, q, so: sc_rec(r, i, q), 1), ("chain", lambda r, i, q, so: sc_chain(r, i, q), 1),
             ("cls", lambda r, i, q, so: sc_cls(r, i, q), 3),
             ("empty", lambda r, i, q, so: sc_calls(r, i, q, True, so), 3),
             ("reject", lambda r, i, q, so: sc_calls(r, i, q, False, so), 1)]


class Module:
    __slots__ = ("variant", "files", "target", "scenarios", "follow", "line_of", "wlevel")


WLEVELS = ["all", "default", "local", "none"]


def gen_module(rng, variant, n_scen=6, wlevel="all"):
    """variant: 'target' (everything in target.py, follow-imports 0), 'from-import' (callees in
    c04lib.py, `from c04lib import …`), 'module-import' (`import c04lib`, calls spelled `c04lib.f(…)`)."""
    q = (lambda n: "c04lib." + n) if variant == "module-import" else (lambda n: n)
    kinds = [k for k, _, w in SCENARIOS for _ in range(w)]
    fns = {k: f for k, f, _ in SCENARIOS}
    chosen = ["perm", "cls", "empty"] + [rng.choice(kinds) for _ in range(max(0, n_scen - 3))]
    rng.shuffle(chosen)
    # `from lib import K; K.sm(…)` is not resolved to the static method (call resolution, not C04's subject)
    static_ok = variant != "from-import"
    scs = [fns[k](rng, i, q, static_ok) for i, k in enumerate(chosen)]
    m = Module()
    m.variant, m.scenarios, m.target = variant, scs, "target.py"
    m.wlevel = wlevel       # `-w`: errors are shown at EVERY warning level
    m.follow = 0 if variant == "target" else 1
    lib, tgt = [], []
    need_nt = any("needs-namedtuple" in s.features for s in scs)
    lib_head = ["from collections import namedtuple", ""] if need_nt else []
    early = []
    for s in scs:
        # a static method is only resolved in functions that FOLLOW its class (call resolution, not C04's subject)
        if any(f.endswith(":static") for f in s.features):
            early += s.lib
        else:
            lib += s.lib
    for s in scs:
        tgt += s.callers
    if variant == "target":
        # definition order must not matter: callers first or last
        parts = [lib, tgt] if rng.random() < 0.5 else [tgt, lib]
        m.files = {"target.py": "\n".join(lib_head + early + parts[0] + parts[1]) + "\n"}
        lib = early + lib
    else:
        names = sorted({n for s in scs for n in s.imports})
        head = ["import c04lib", ""] if variant == "module-import" else [f"from c04lib import {', '.join(names)}", ""]
        # in-process diagnostics carry a line but no file: keep the two files' line ranges disjoint
        pad = [""] * (len(head) + len(tgt) + 3)
        m.files = {"c04lib.py": "\n".join(pad + lib_head + early + lib) + "\n", "target.py": "\n".join(head + tgt) + "\n"}
    return m


def locate_calls(m):
    """line (1-based) in the file that holds it, for every call site: (function, text) -> (file, line)."""
    out = {}
    for fname, src in m.files.items():
        fn = None
        for ln, line in enumerate(src.splitlines(), 1):
            mm = re.match(r"\s*(?:async\s+)?(?:def|class)\s+(\w+)", line)
            if mm and not line.startswith("    def __init__") and not line.startswith("    def sm") and not line.startswith("    @"):
                if not line.startswith("    "):
                    fn = mm.group(1)
            for s in m.scenarios:
                for r in s.calls:
                    if r["fn"] == fn and r["text"] in line:
                        out[(r["fn"], r["text"])] = (fname, ln)
    return out


# ------------------------------------------------------------------ the real thing


def argv_for(target_rel, follow, wlevel="all"):
    from props import pipeline
    a = pipeline.argv_for(target_rel)
    a[a.index("-f") + 1] = str(follow)
    a[a.index("-w") + 1] = wlevel
    return a


STDERR_LINE = re.compile(r"^(info|warning|error|fatal): (\S+?):(\d+):(\d+): (.*)$")


def shown_lines(stderr_text):
    """the diagnostics a user SEES: the located lines of stderr (after the warning-level filter)"""
    out = []
    for line in ANSI.sub("", stderr_text).splitlines():
        mm = STDERR_LINE.match(line)
        if mm:
            out.append({"level": mm[1], "file": mm[2], "line": int(mm[3]), "message": mm[5]})
    return out


def real_run(project: Path, target_rel: str, follow: int, wlevel: str = "all"):
    """`rattr.__main__.main` in-process: outcome, printed document, the tapped diagnostics (raw events with
    line numbers AND the canonical templates the pipeline model speaks)."""
    import rattr.__main__ as main_mod
    from props import filelib, pipeline
    from props import visitlib as vl

    out = io.StringIO()
    with impl.in_dir(str(project)):
        pipeline._drop_config()
        impl.clear_caches_fast()
        try:
            with impl.Tap():
                args = parse_arguments(sys_args=argv_for(target_rel, follow, wlevel))
                cfg = Config(arguments=args, state=State())
            captured = {}
            orig = main_mod.generate_results_from_ir

            def gen(*, target_ir, import_irs):
                captured["ir"] = target_ir
                return orig(target_ir=target_ir, import_irs=import_irs)

            with impl.Tap() as tap, contextlib.redirect_stdout(out), mock.patch.object(main_mod, "generate_results_from_ir", gen):
                oc = impl.outcome_of(main_mod.main, cfg)
        finally:
            pipeline._drop_config()
    diags = [pipeline.template_of(e) for e in tap.events]
    r = {"diags": filelib.canon_diags(diags), "stdout": out.getvalue(), "store": None, "events": tap.events,
         "shown": shown_lines(tap.stderr)}
    if oc[0] == "ok" and "ir" in captured:
        r["store"] = [{"name": k.name, "gets": vl.names_json(v["gets"]), "sets": vl.names_json(v["sets"]),
                       "dels": vl.names_json(v["dels"])} for k, v in captured["ir"]._file_ir.items()]
    if oc[0] == "ok":
        r["outcome"], r["exc"] = "ok", ""
        try:
            doc = json.loads(out.getvalue())
            r["doc"] = {k: {f: sorted(v[f]) for f in ("gets", "sets", "dels", "calls")} for k, v in doc.items()}
        except Exception as e:  # noqa
            r["outcome"], r["exc"] = "crash", "unparseable-stdout:" + type(e).__name__
    elif oc[0] == "fatal":
        fat = [d for d in diags if d[0] == "fatal"]
        r["outcome"], r["exc"] = "fatal", (fat[0][1] if fat else "")
    else:
        r["outcome"], r["exc"] = "crash", oc[1] + ":" + (oc[2] if len(oc) > 2 else "")
    return r


def cli_run(project: Path, target_rel: str, follow: int, hashseed=0, wlevel="all", via_toml=False):
    """the real CLI; `via_toml`: the warning level comes from `[tool.rattr] warning-level` of a pyproject.toml in the
    project directory instead of `-w`"""
    env = dict(os.environ, PYTHONHASHSEED=str(hashseed), PYTHONDONTWRITEBYTECODE="1")
    argv = argv_for(target_rel, follow, wlevel)
    toml = project / "pyproject.toml"
    if via_toml:
        k = argv.index("-w")
        del argv[k:k + 2]
        toml.write_text(f'[tool.rattr]\nwarning-level = "{wlevel}"\n')
    try:
        p = subprocess.run([sys.executable, "-m", "rattr", *argv], cwd=str(project), env=env,
                           capture_output=True, text=True, timeout=120)
    finally:
        if via_toml:
            toml.unlink()
    r = {"exit": p.returncode, "outcome": "ok" if p.returncode == 0 else "exit", "exc": str(p.returncode), "events": [], "doc": None}
    if p.returncode == 0:
        try:
            doc = json.loads(p.stdout)
            r["doc"] = {k: {f: sorted(v[f]) for f in ("gets", "sets", "dels", "calls")} for k, v in doc.items()}
        except Exception:  # noqa
            r["outcome"], r["exc"] = "crash", "unparseable-stdout"
    r["events"] = shown_lines(p.stderr)
    r["shown"] = r["events"]
    return r


# ------------------------------------------------------------------ the oracle


IMPORTED_INIT = "end-to-end:imported-class-initialiser-has-no-implicit-self:"


def predict_pinned(model, mods):
    """Known finding (see known_findings.json, `imported-class-initialiser-has-no-implicit-self`): the
    initialiser call of a class that is IMPORTED from a followed module is recorded without the implicit
    `self` argument. What the pinned code then does is `construct_call_swaps(__init__ interface, the explicit
    arguments alone)` — computed here by the Lean model (op `swaps`), so that a deviation is attributed to that
    finding only if it is exactly the predicted one."""
    recs = [r for m in mods if m.variant != "target" for s in m.scenarios for r in s.calls if r["init"] is not None]
    reqs = []
    for r in recs:
        c = r["init"]["call"]
        reqs.append(("swaps", {"sig": r["init"]["isig"],
                               "call": {"args": [spelled(a) for a in c["args"]], "kwargs": [[k, spelled(v)] for k, v in c["kwargs"]]}}))
    for r, mo in zip(recs, model.batch(reqs)):
        if "__error__" not in mo:
            r["pinned"] = {"swaps": {k: v for k, v in mo["swaps"]}, "diagnosed": bool(mo["diags"])}


def judge_module(m, run, where):
    """Violations of the property in one run (in-process or CLI) of module `m`."""
    out = []
    base_case = {"stage": "module", "variant": m.variant, "through": where, "follow_imports": m.follow,
                 "warning_level": m.wlevel, "files": m.files}
    if run["outcome"] != "ok" or run.get("doc") is None:
        return [{"signature": f"end-to-end:run-failed:{run['outcome']}", "case": base_case, "detail": run.get("exc")}]
    doc = run["doc"]
    loc = locate_calls(m)
    imported = m.variant != "target"
    for s in m.scenarios:
        for fn, bucket, pattern, (required, allowed), r in s.expect:
            if fn not in doc:
                if imported and s.kind == "rec":
                    continue        # the recursive function lives in the followed import: not a target function
                out.append({"signature": "end-to-end:function-missing-from-results", "case": base_case, "function": fn})
                continue
            have = {n for n in doc[fn][bucket] if re.search(pattern, n)}
            if required <= have <= allowed:
                continue
            v = {"case": base_case, "function": fn, "set": bucket, "scenario": s.kind, "expected": sorted(required),
                 "also_allowed": sorted(allowed - required), "got": sorted(have), "definition": s.lib, "caller": list(s.callers)}
            if s.kind == "cls" and imported:
                # known finding, but only if it is exactly the pinned behaviour
                pin = r["pinned"] if r is not None else None
                pred = None
                if pin is not None:
                    i, ps, selfn, sw = r["init"]["i"], r["init"]["ps"], r["init"]["selfn"], pin["swaps"]
                    pred = ({f"{sw.get(p, p)}.s{i}_{p}" for p in ps} if bucket == "gets"
                            else {f"{sw.get(selfn, selfn)}.k{i}_{p}" for p in ps})
                    v["pinned_prediction"] = sorted(pred)
                v["signature"] = IMPORTED_INIT + ("arguments-bound-one-parameter-early" if pred == have
                                                  else "not-the-pinned-behaviour:names")
            elif s.kind == "cls":
                v["signature"] = "end-to-end:inlined-names-differ-from-python-binding:class-initialiser:" + \
                    ("implicit-self" if bucket == "sets" else "explicit-argument")
            else:
                v["signature"] = f"end-to-end:inlined-names-differ-from-python-binding:{s.kind}:" + \
                    ("argument-spelled-like-a-parameter" if "arguments-overlap-parameter-names" in s.features else "plain-arguments")
            unp = sorted({u.split(":")[0] for c in s.calls if c["fn"] == fn for u in c["unpack"]})
            if unp and not v["signature"].startswith(IMPORTED_INIT):
                v["signature"] += ":call-with-" + "+".join(unp)
                v["unpackings"] = sorted({u for c in s.calls if c["fn"] == fn for u in c["unpack"]})
            out.append(v)
        for r in s.calls:
            fn, text, want = r["fn"], r["text"], r["want"]
            if (fn, text) not in loc:
                continue
            fname, line = loc[(fn, text)]
            at_line = [e for e in run["events"] if e.get("line") == line
                       and (e.get("file") is None or e["file"].endswith(fname))]
            evs = [e for e in at_line if e["message"].startswith("call to ")]
            errs = [e for e in evs if e["level"] in ("error", "fatal")]
            # what the user SEES (stderr, after the `-w` filter): errors are shown at every warning level
            shown = [e for e in run.get("shown", run["events"]) if e.get("line") == line and e["file"].endswith(fname)
                     and e["level"] in ("error", "fatal")]
            kind_feat = next((f for f in s.features if f.startswith(("empty-callee:", "touching-callee:"))), s.kind)
            bad = None
            if want == "arity" and not errs:
                bad = "rejected-call-not-diagnosed"
            elif want == "arity" and not [e for e in shown if e["message"].startswith("call to ")]:
                bad = "rejected-call-diagnostic-raised-but-not-shown"
            elif want == "ok" and evs:
                bad = "accepted-call-diagnosed"
            elif want == "starred-ok" and not [e for e in at_line if e["level"] in ("error", "fatal")]:
                bad = "call-with-iterable-unpacking-not-announced"
            elif want == "starred-ok" and not shown:
                bad = "call-with-iterable-unpacking-announcement-not-shown"
            if bad is None:
                continue
            v = {"case": base_case, "function": fn, "call": text, "line": f"{fname}:{line}", "python": want,
                 "callee_kind": kind_feat, "definition": s.lib, "diagnostics_at_line": evs}
            if r["init"] is not None and imported and bad in ("rejected-call-not-diagnosed", "accepted-call-diagnosed"):
                pin = r["pinned"]
                same = pin is not None and pin["diagnosed"] == bool(errs)
                v["signature"] = IMPORTED_INIT + (bad if same else "not-the-pinned-behaviour:" + bad)
            elif bad == "rejected-call-not-diagnosed":
                v["signature"] = f"end-to-end:rejected-call-not-diagnosed:{kind_feat.split(':')[0]}"
            elif bad == "accepted-call-diagnosed":
                v["signature"] = "end-to-end:accepted-call-diagnosed"
            else:
                v["signature"] = f"end-to-end:{bad}:warning-level-{m.wlevel}"
            if r["unpack"]:
                v["unpackings"] = r["unpack"]
                if bad in ("rejected-call-not-diagnosed", "accepted-call-diagnosed") and not v["signature"].startswith(IMPORTED_INIT):
                    v["signature"] += ":call-with-" + "+".join(sorted({u.split(":")[0] for u in r["unpack"]}))
            out.append(v)
    return out


# ------------------------------------------------------------------ the stage


CURATED = None


def module_stage(res, rng, n, model, cli_sample=4):
    from props import filelib, pipeline
    from rattr.analyser.util import is_excluded_name

    variants = ["target", "target", "from-import", "module-import"]
    # a fixed corpus first (one module per variant, the same on every run), then this run's modules
    fixed = random.Random(0xC04)
    # every (variant, warning level) pair is in the fixed corpus; this run's modules cycle through the pairs with a
    # stride that is coprime to both cycle lengths
    mods = [gen_module(fixed, v, wlevel=w) for v in ("target", "from-import", "module-import") for w in WLEVELS]
    mods += [gen_module(rng, variants[k % len(variants)], wlevel=WLEVELS[(k // len(variants) + k) % len(WLEVELS)]) for k in range(n)]
    predict_pinned(model, mods)
    projects, live = [], []
    try:
        for m in mods:
            project = filelib.make_project()
            projects.append(project)
            for rel, text in m.files.items():
                (project / rel).write_text(text)
            res.evaluations += 1
            res.count("module:variant:" + m.variant)
            res.count(f"module:warning-level:{m.wlevel}:{m.variant}")
            for s in m.scenarios:
                res.count("module:scenario:" + s.kind)
                for f in s.features:
                    res.count("module:feature:" + f)
                for r in s.calls:
                    res.count("module:call:python-" + r["want"])
            payload = None
            if m.variant == "target":
                fc = filelib.run_case(project, m.target, m.files[m.target], excluded=pipeline.EXCLUDE,
                                      excluded_imports=pipeline.EXCLUDE_IMPORTS)
                if fc.skipped is None:
                    payload = fc.payload
                else:
                    res.skipped_outside_fragment += 1
                    res.count("module:model-skipped:" + fc.skipped[:40])
            run = real_run(project, m.target, m.follow, m.wlevel)
            res.nontrivial.add(common.digest(m.files))
            vs = judge_module(m, run, "in-process")
            res.count("module:verdict:" + ("holds" if not vs else "violated"))
            res.violations += vs
            res.sample({"variant": m.variant, "files": m.files}, cap=8)
            live.append((m, project, payload, run))
        # ---- correspondence with the Lean pipeline model (target-file variant, follow-imports 0)
        tl = [(m, project, payload, run) for m, project, payload, run in live if payload is not None]
        outs = model.batch([("pipeline", p) for _, _, p, _ in tl])
        tl2 = []
        for (m, project, payload, run), mo in zip(tl, outs):
            if "__error__" in mo:
                res.disagreements.append({"case": {"stage": "module-model", "files": m.files}, "diff": "model error: " + str(mo["__error__"])})
                continue
            with impl.in_dir(str(project)):
                impl.reset_config(target=Path(m.target), _excluded_names=list(pipeline.EXCLUDE), _follow_imports_level=0,
                                  _excluded_imports=list(pipeline.EXCLUDE_IMPORTS))
                ex = set(payload["facts"]["excluded"]) | {x for x in mo.get("callTargets", []) if is_excluded_name(x)}
                payload = {**payload, "facts": {**payload["facts"], "excluded": sorted(ex)},
                           "imports": [[qn, pipeline.import_fact(qn)] for qn in mo.get("needImports", [])]}
            tl2.append((m, project, payload, run))
        outs = model.batch([("pipeline", p) for _, _, p, _ in tl2])
        rev = model.batch([("pipeline", {**p, "ties": "reversed"}) for _, _, p, _ in tl2])
        for (m, project, payload, run), mo, mr in zip(tl2, outs, rev):
            if "__error__" in mo:
                res.disagreements.append({"case": {"stage": "module-model", "files": m.files}, "diff": "model error: " + str(mo["__error__"])})
                continue
            if mo.get("outcome") == "crash" and str(mo.get("exc", "")).startswith("Outside:"):
                res.skipped_outside_fragment += 1
                res.count("module:model-skipped:" + mo["exc"])
                continue

            def proj(x):
                st = [{k: (sorted(map(tuple, v)) if isinstance(v, list) else v) for k, v in e.items()} for e in (x.get("store") or [])]
                return (x.get("outcome"), x.get("doc"), x.get("diags"), st)
            if mo.get("maxTie", 0) >= 3 or ("__error__" not in mr and proj(mo) != proj(mr)):
                res.skipped_outside_fragment += 1
                res.count("module:model-skipped:hash-order of equal-named calls matters")
                continue
            res.count("module:compared-with-pipeline-model")
            res.count("module:resolvable-call-edges", mo.get("edges", 0))
            res.count("module:resolvable-class-initialiser-edges", mo.get("clsEdges", 0))
            d = pipeline.compare(run, mo)
            if d is not None:
                res.disagreements.append({"case": {"stage": "module-model", "files": m.files}, "diff": d[:2000]})
        # ---- the real CLI in a subprocess, on a sample (every variant)
        order = list(range(len(live)))
        rng.shuffle(order)
        picked, seen_var, seen_w = [], {}, {}
        for k in order:
            v, w = live[k][0].variant, live[k][0].wlevel
            if seen_var.get(v, 0) < max(1, -(-cli_sample // 3)) and seen_w.get(w, 0) < max(1, -(-cli_sample // 4)) \
                    and len(picked) < cli_sample:
                picked.append(k)
                seen_var[v] = seen_var.get(v, 0) + 1
                seen_w[w] = seen_w.get(w, 0) + 1
        for n_cli, k in enumerate(picked):
            m, project, _, run = live[k]
            via_toml = n_cli % 2 == 1
            cli = cli_run(project, m.target, m.follow, hashseed=rng.randrange(1, 1000), wlevel=m.wlevel, via_toml=via_toml)
            res.evaluations += 1
            res.count("module:cli:exit:" + str(cli["exit"]))
            res.count(f"module:cli:warning-level:{m.wlevel}:" + ("pyproject.toml" if via_toml else "-w"))
            vs = judge_module(m, cli, "cli:pyproject.toml" if via_toml else "cli")
            res.violations += vs
            if run["outcome"] == "ok" and cli["outcome"] == "ok" and cli["doc"] != run["doc"]:
                fn = next(f for f in sorted(set(cli["doc"]) | set(run["doc"])) if cli["doc"].get(f) != run["doc"].get(f))
                res.disagreements.append({"case": {"stage": "module-cli", "files": m.files},
                                          "diff": f"CLI document[{fn}] = {cli['doc'].get(fn)} but in-process {run['doc'].get(fn)}"})
    finally:
        for p in projects:
            filelib.drop_project(p)


# ------------------------------------------------------------------ replay


def replay_case(j):
    """Re-run a stored failing input of either stage against the current tree and print the verdict."""
    from props import filelib
    case = j["case"]
    if case.get("stage") == "module":
        project = filelib.make_project()
        try:
            for rel, text in case["files"].items():
                (project / rel).write_text(text)
                print(f"# ---- {rel}\n{text}")
            if str(case.get("through", "")).startswith("cli"):
                run = cli_run(project, "target.py", case["follow_imports"], wlevel=case.get("warning_level", "all"),
                              via_toml=case["through"].endswith("pyproject.toml"))
            else:
                run = real_run(project, "target.py", case["follow_imports"], case.get("warning_level", "all"))
        finally:
            filelib.drop_project(project)
        fn = j.get("function")
        print("signature:", j["signature"])
        if "expected" in j:
            print("function", fn, "set", j["set"], "\n expected", j["expected"], "\n recorded", j["got"])
            if run.get("doc") and fn in run["doc"]:
                print(" now     ", run["doc"][fn][j["set"]])
        if "call" in j:
            line = int(j["line"].split(":")[1])
            print("call", j["call"], "at", j["line"], "\n recorded diagnostics", j.get("diagnostics_at_line"),
                  "\n now raised", [e for e in run["events"] if e.get("line") == line],
                  "\n now shown on stderr (-w " + case.get("warning_level", "all") + ")", [e for e in run.get("shown", []) if e.get("line") == line])
        return 0
    print(json.dumps(j, indent=1))
    return 0


if __name__ == "__main__":      # development aid: python py/props/c04e2e.py [seed] [n]
    import time
    import warnings

    warnings.simplefilter("ignore")
    sys.path.insert(0, str(Path(__file__).resolve().parent.parent))
    seed = int(sys.argv[1]) if len(sys.argv) > 1 else 0
    n = int(sys.argv[2]) if len(sys.argv) > 2 else 12
    res = common.Result("DEV")
    t0 = time.time()
    mdl = common.Model()
    unbind_stage(res, random.Random(seed), 300, mdl)
    t1 = time.time()
    module_stage(res, random.Random(seed + 1), n, mdl)
    print(json.dumps(res.distribution, indent=1, sort_keys=True))
    print("evaluations", res.evaluations, "disagreements", len(res.disagreements), "violations", len(res.violations),
          "skipped", res.skipped_outside_fragment, "wall", round(t1 - t0, 1), round(time.time() - t1, 1))
    for d in res.disagreements[:3]:
        print("=" * 80, "\nDISAGREEMENT", json.dumps(d, indent=1)[:3000])
    import collections
    print(collections.Counter((v["signature"], v.get("case", {}).get("variant"), v.get("case", {}).get("through")) for v in res.violations))
    seen = set()
    for v in res.violations:
        if v["signature"] in seen:
            continue
        seen.add(v["signature"])
        vv = {k: x for k, x in v.items() if k != "case"}
        print("=" * 80, "\nVIOLATION", json.dumps(vv, indent=1, default=str)[:2500])
        if "files" in v.get("case", {}) and len(seen) <= 2:
            for rel, text in v["case"]["files"].items():
                print(f"# ---- {rel}\n{text}")

"""C20 — every spelling argparse accepts for an option.

Two independent pieces, both built from the regenerated option table (py/tables/t_c20.option_rows:
the rows that become Generated/C20.lean), neither uses rattr's own first pass / parse_arguments:

  * `Reference`: a plain stdlib `argparse.ArgumentParser` with recording actions.  It NORMALISES a
    spelled argv to the ordered list of option occurrences [(dest, typed value)], or reports the
    class of command-line mistake.  The spec (`Spec.effective`) is fed with this list.
  * `Speller`: re-spells a canonical command line (groups `[flag]` / `[flag, value]` / free
    arguments) with every form argparse accepts: `--opt=value`, unambiguous long-option prefixes
    (`--conf`, `--conf=value`), attached short values (`-cFILE`, `-c=FILE`), clusters of short
    zero-argument flags optionally ending in a one-argument option (`-HTc FILE`, `-HTcFILE`), the
    `--` terminator before / after the last free argument; repeated options stay repeated.
"""
from __future__ import annotations

import argparse
import enum
import itertools
import re
from pathlib import PurePath


def _plain(v):
    if isinstance(v, enum.Enum):
        return v.value
    if isinstance(v, PurePath):
        return str(v)
    return v


class RefError(Exception):
    def __init__(self, kind, dest=None, message=""):
        super().__init__(message)
        self.kind, self.dest, self.message = kind, dest, message


class _Parser(argparse.ArgumentParser):
    def error(self, message):  # the stdlib would print usage and sys.exit(2)
        raise argparse.ArgumentError(None, message)

    def exit(self, status=0, message=None):
        raise RefError("exit", None, message or "")


class _Rec(argparse.Action):
    def __call__(self, parser, namespace, values, option_string=None):
        namespace._occ.append([self.dest, True if self.nargs == 0 else values])


class _RecExit(argparse.Action):
    def __call__(self, parser, namespace, values, option_string=None):
        raise RefError("versionExit", self.dest)


_ERRS = (("expectedOneArgument", "expected one argument"), ("invalidChoice", "invalid choice"),
         ("invalidValue", r"invalid \S+ value"), ("ignoredExplicitArgument", "ignored explicit argument"),
         ("required", "the following arguments are required"), ("unrecognized", "unrecognized arguments"),
         ("ambiguousOption", "ambiguous option"))


def classify_message(msg):
    for key, pat in _ERRS:
        if re.search(pat, msg):
            return key
    return "other:" + msg[:60]


class Reference:
    def __init__(self, rows, help_flags):
        self.rows = rows
        self.help_flags = list(help_flags)
        self.by_flag = {f: r for r in rows for f in r["flags"]}
        self.all_flags = [f for r in rows for f in r["flags"]] + self.help_flags
        p = _Parser(prog="ref", add_help=False, exit_on_error=False, allow_abbrev=True)
        for r in rows:
            kw = {"dest": r["dest"]}
            if r["action"] in ("store", "append"):
                kw["type"] = self._conv(r)
                if r["choices"] is not None:
                    kw["choices"] = [_plain(c) for c in r["choices"]]
                if r["flags"]:
                    p.add_argument(*r["flags"], action=_Rec, required=False, **kw)
                else:
                    kw.pop("dest")
                    p.add_argument(r["dest"], action=_Rec, **kw)
            elif r["action"] == "store_true":
                p.add_argument(*r["flags"], action=_Rec, nargs=0, **kw)
            elif r["action"] == "version":
                p.add_argument(*r["flags"], action=_RecExit, nargs=0, **kw)
            else:
                raise RuntimeError("unsupported row " + repr(r))
        if self.help_flags:
            p.add_argument(*self.help_flags, action=_RecExit, nargs=0, dest="help")
        self.parser = p
        self.positional = [r["dest"] for r in rows if not r["flags"]]

    @staticmethod
    def _conv(r):
        if r["typ"] == "int":
            return int
        if r["typ"] == "enum":
            dom = list(r["dom"])

            def conv(s):
                if s not in dom:
                    raise ValueError(s)
                return s
            conv.__name__ = "enum"
            return conv
        return str

    def normalise(self, argv):
        """{'ok': True, 'occ': [[dest, value]…] (options only, in order), 'free': {dest: value}} or
        {'ok': False, 'err': kind, 'dest': dest|None}."""
        ns = argparse.Namespace(_occ=[])
        try:
            self.parser.parse_args(list(argv), ns)
        except RefError as e:
            return {"ok": False, "err": e.kind, "dest": e.dest}
        except argparse.ArgumentError as e:
            msg = str(e)
            m = re.match(r"^argument ([^:]+): (.*)$", msg, re.S)
            dest = None
            if m:
                first = m.group(1).split("/")[0]
                dest = self.by_flag[first]["dest"] if first in self.by_flag else first
            return {"ok": False, "err": classify_message(msg), "dest": dest}
        occ = [o for o in ns._occ if o[0] not in self.positional]
        free = {d: v for d, v in ns._occ if d in self.positional}
        return {"ok": True, "occ": occ, "free": free}

    # ---- facts the speller needs
    def unique_prefixes(self, long_flag):
        """Proper prefixes of a long option string that argparse resolves to it (and only it)."""
        out = []
        for n in range(3, len(long_flag)):
            p = long_flag[:n]
            if p in self.all_flags:
                continue
            if [f for f in self.all_flags if f.startswith(p)] == [long_flag]:
                out.append(p)
        return out

    def ambiguous_prefixes(self):
        out = []
        longs = [f for f in self.all_flags if f.startswith("--")]
        seen = set()
        for f in longs:
            for n in range(3, len(f)):
                p = f[:n]
                if p in seen or p in self.all_flags:
                    continue
                seen.add(p)
                if len([g for g in self.all_flags if g.startswith(p)]) > 1:
                    out.append(p)
        return out


class Speller:
    """Re-spell groups.  A group is a list of tokens: [flag], [flag, value] or free argument(s)."""

    SINGLE1 = ("long", "short", "long-eq", "short-attached", "short-eq", "prefix", "prefix-eq")
    SINGLE0 = ("long", "short", "prefix")

    def __init__(self, ref: Reference):
        self.ref = ref

    def _item(self, g):
        r = self.ref.by_flag.get(g[0]) if g else None
        if r is None or not r["flags"]:
            return {"kind": "free", "tokens": list(g)}
        short = next((f for f in r["flags"] if not f.startswith("--")), None)
        long_ = next((f for f in r["flags"] if f.startswith("--")), None)
        if r["action"] in ("store", "append") and len(g) == 2:
            return {"kind": "opt1", "row": r, "short": short, "long": long_, "value": g[1], "tokens": list(g)}
        if r["action"] == "store_true" and len(g) == 1:
            return {"kind": "opt0", "row": r, "short": short, "long": long_, "tokens": list(g)}
        return {"kind": "free", "tokens": list(g)}   # e.g. a flag whose value is missing: left alone

    def forms(self, it):
        """The single-option spellings available for this item."""
        out = []
        if it["kind"] == "opt0":
            if it["long"]:
                out.append("long")
                if self.ref.unique_prefixes(it["long"]):
                    out.append("prefix")
            if it["short"]:
                out.append("short")
        elif it["kind"] == "opt1":
            v = it["value"]
            if it["long"]:
                out += ["long", "long-eq"]
                if self.ref.unique_prefixes(it["long"]):
                    out += ["prefix", "prefix-eq"]
            if it["short"]:
                out += ["short", "short-eq"]
                if v != "" and not v.startswith("="):
                    out.append("short-attached")
        return out

    def one(self, it, form, rng):
        if form == "long":
            return [it["long"]] + it["tokens"][1:]
        if form == "short":
            return [it["short"]] + it["tokens"][1:]
        if form == "long-eq":
            return [it["long"] + "=" + it["value"]]
        if form == "short-eq":
            return [it["short"] + "=" + it["value"]]
        if form == "short-attached":
            return [it["short"] + it["value"]]
        pre = rng.choice(self.ref.unique_prefixes(it["long"]))
        if form == "prefix":
            return [pre] + it["tokens"][1:]
        if form == "prefix-eq":
            return [pre + "=" + it["value"]]
        raise ValueError(form)

    def render(self, parts, rng, *, p_cluster=0.5, p_respell=0.6, p_dd=0.15, form=None, attach=None):
        """-> (argv, labels).  `form`: force this single-option form where available;
        `attach`: force attached (True) / detached (False) cluster values; p_cluster=1 merges every
        run of short zero-argument flags (and a following short one-argument option)."""
        items = [self._item(g) for g in parts]
        out, labels = [], []
        i = 0
        while i < len(items):
            it = items[i]
            if it["kind"] != "free" and it["short"]:
                j, run = i, []
                while j < len(items) and items[j]["kind"] == "opt0" and items[j]["short"]:
                    run.append(items[j])
                    j += 1
                last = None
                if j < len(items) and items[j]["kind"] == "opt1" and items[j]["short"] and run:
                    last = items[j]
                    j += 1
                if len(run) + (1 if last else 0) >= 2 and rng.random() < p_cluster:
                    letters = "".join(r["short"][1] for r in run)
                    if last is None:
                        out.append("-" + letters)
                        labels.append(f"cluster-flags:{len(run)}")
                    else:
                        letters += last["short"][1]
                        v = last["value"]
                        att = (rng.random() < 0.5) if attach is None else attach
                        if att and v != "" and not v.startswith("="):
                            out.append("-" + letters + v)
                            labels.append(f"cluster-attached:{len(run)}+1")
                        else:
                            out += ["-" + letters, v]
                            labels.append(f"cluster-detached:{len(run)}+1")
                    i = j
                    continue
            if it["kind"] == "free":
                out += it["tokens"]
            else:
                fs = self.forms(it)
                if form is not None and form in fs:
                    f = form
                elif rng.random() < p_respell:
                    f = rng.choice(fs)
                else:
                    f = None
                if f is None:
                    out += it["tokens"]
                else:
                    out += self.one(it, f, rng)
                    if f not in ("long", "short"):
                        labels.append(f)
            i += 1
        # `--`: only where it is harmless by argparse's rules — around the LAST free argument
        if items and items[-1]["kind"] == "free" and len(items[-1]["tokens"]) == 1 \
                and not items[-1]["tokens"][0].startswith("-") and rng.random() < p_dd:
            if rng.random() < 0.7:
                out.insert(len(out) - 1, "--")
                labels.append("dd-before-target")
            else:
                out.append("--")
                labels.append("dd-after-target")
        return out, labels

    def all_cluster_orders(self, max_len=3):
        """Every ordered selection (1..max_len) of the short zero-argument flags."""
        shorts = []
        for r in self.ref.rows:
            if r["action"] == "store_true":
                s = next((f for f in r["flags"] if not f.startswith("--")), None)
                if s:
                    shorts.append((r["dest"], s))
        out = []
        for n in range(1, min(max_len, len(shorts)) + 1):
            out += list(itertools.permutations(shorts, n))
        return out

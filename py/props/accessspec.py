"""Independent specification of what a function body accesses (C01 / C02 / C09).

Written from the README and the property statements, NOT from rattr's visitor: one uniform walk
that visits every child of every node. Each access carries the list of syntactic-position tags met
on the way down from the body; a missing access is classified by the outermost tag (one known
finding per tag) or `other:<path>` when its path has no tag at all.
"""
from __future__ import annotations

import ast

XATTR = ("getattr", "hasattr", "setattr", "delattr")
XATTR_KIND = {"getattr": "get", "hasattr": "get", "setattr": "set", "delattr": "del"}
NAMEABLE = (ast.Name, ast.Attribute, ast.Subscript, ast.Starred, ast.Call)
SCOPES = (ast.FunctionDef, ast.AsyncFunctionDef, ast.Lambda, ast.ClassDef)
KIND = {ast.Load: "get", ast.Store: "set", ast.Del: "del"}


def is_str_const(n):
    return isinstance(n, ast.Constant) and isinstance(n.value, str)


def direct_xattr(n):
    """`getattr(obj, 'lit', ...)`-style direct call to one of the four builtins (by name)."""
    return isinstance(n, ast.Call) and isinstance(n.func, ast.Name) and n.func.id in XATTR and len(n.args) >= 2


def spell(n) -> str:
    """README spelling: x | E.a | E[] | E() | *E | @Kind; direct getattr-family calls with a literal
    name spell as the dotted access."""
    if isinstance(n, ast.Name):
        return n.id
    if isinstance(n, ast.Attribute):
        return f"{spell(n.value)}.{n.attr}"
    if isinstance(n, ast.Subscript):
        return f"{spell(n.value)}[]"
    if isinstance(n, ast.Starred):
        return f"*{spell(n.value)}"
    if isinstance(n, ast.Call):
        if direct_xattr(n):
            attr = n.args[1].value if is_str_const(n.args[1]) else f"<{spell(n.args[1])}>"
            return f"{spell(n.args[0])}.{attr}"
        return f"{spell(n.func)}()"
    return "@" + type(n).__name__


def wcb(s: str) -> str:
    while s.endswith("()"):
        s = s[:-2]
    return s


class Access:
    __slots__ = ("kind", "name", "node", "tags", "path")

    def __init__(self, kind, name, node, tags, path):
        self.kind, self.name, self.node, self.tags, self.path = kind, name, node, tuple(tags), tuple(path)

    def __repr__(self):
        return f"{self.kind}:{self.name}@{self.node.lineno}:{self.node.col_offset} tags={self.tags}"


def callee_kind(call: ast.Call):
    """Which custom-analysed builtin a call targets, by its syntactic form."""
    f = call.func
    if isinstance(f, ast.Name):
        if f.id in XATTR:
            return f.id
        if f.id in ("sorted", "defaultdict"):
            return f.id
    if isinstance(f, ast.Attribute) and isinstance(f.value, ast.Name) and f.value.id == "collections" and f.attr == "defaultdict":
        return "defaultdict"
    return None


class Walker:
    def __init__(self, class_names=()):
        self.out = []
        self.class_names = set(class_names)

    def emit(self, kind, name, node, tags, path):
        self.out.append(Access(kind, name, node, tags, path))

    def walk_body(self, stmts):
        for s in stmts:
            self.walk(s, [], ["body"])
        return self.out

    # -- the spine of a nameable expression: report non-spine children
    def spine(self, node, tags, path, depth):
        """`node` is a link of a name chain whose maximal node has already been reported. `depth` =
        number of links above it."""
        if isinstance(node, ast.Name):
            return
        if isinstance(node, (ast.Attribute, ast.Starred)):
            self.below(node.value, tags, path + [type(node).__name__ + ".value"], depth + 1)
        elif isinstance(node, ast.Subscript):
            self.walk(node.slice, tags + ["subscript-index"], path + ["Subscript.slice"])
            self.below(node.value, tags, path + ["Subscript.value"], depth + 1)
        elif isinstance(node, ast.Call):
            # a call inside a name chain
            self.call_parts(node, tags, path, in_chain=True)

    def below(self, value, tags, path, depth):
        """value is the `.value` of a chain link at `depth` links below the maximal node."""
        if isinstance(value, ast.Call):
            t = tags + ["call-inside-a-name-chain"]
            if not (direct_xattr(value) and is_str_const(value.args[1])):
                self.emit("call", wcb(spell(value)), value, t, path)
            self.call_parts(value, tags, path, in_chain=True)
        elif isinstance(value, NAMEABLE):
            self.spine(value, tags, path, depth)
        else:
            t = tags + (["unnameable-base-under-chain-of-two-or-more-links"] if depth >= 2 else [])
            self.walk(value, t, path)

    def call_parts(self, call, tags, path, in_chain):
        ck = callee_kind(call)
        atag = ["arguments-of-call-inside-a-name-chain"] if in_chain else []
        # the callee expression: not an access itself, but its non-spine parts are
        f = call.func
        if isinstance(f, NAMEABLE):
            ftags = tags + ["inside-callee-expression"]
            self.spine(f, ftags, path + ["Call.func"], 0) if not isinstance(f, ast.Call) else self.below(f, ftags, path + ["Call.func"], 1)
        else:
            self.walk(f, tags + ["operands-of-unnameable-callee"], path + ["Call.func"])
        for i, a in enumerate(call.args):
            t = list(tags) + atag
            if ck in XATTR and not in_chain:
                if i == 1 and not is_str_const(a):
                    t.append("getattr-family-non-literal-name")
                elif i >= 2:
                    t.append("getattr-family-extra-argument")
                elif i == 1:
                    continue                      # the literal itself
            if ck == "sorted" and not in_chain and i >= 1:
                t.append("sorted-extra-argument")
            if ck == "defaultdict" and not in_chain:
                if i >= 1:
                    t.append("defaultdict-extra-argument")
                elif isinstance(a, (ast.Name, ast.Attribute)):
                    t.append("defaultdict-named-factory")
            self.walk(a, t, path + [f"Call.args[{i}]"], arg_of=(call, i, ck if not in_chain else None))
        for kw in call.keywords:
            t = list(tags) + atag
            if ck in XATTR and not in_chain:
                t.append("getattr-family-extra-argument")
            if ck == "sorted" and not in_chain and kw.arg != "key":
                t.append("sorted-extra-argument")
            if ck == "defaultdict" and not in_chain:
                t.append("defaultdict-extra-argument")
            self.walk(kw.value, t, path + [f"Call.keywords[{kw.arg}]"], arg_of=(call, kw.arg, ck if not in_chain else None))

    def walk(self, node, tags, path, arg_of=None):
        if node is None:
            return
        if isinstance(node, SCOPES):
            if isinstance(node, ast.Lambda) and arg_of is not None and arg_of[2] == "defaultdict" and arg_of[1] == 0 \
                    and not node.args.args and not node.args.posonlyargs and not node.args.kwonlyargs:
                # the parameterless factory lambda of defaultdict is analysed as a function body
                self.walk(node.body, tags, path + ["Lambda.body"])
            return      # nested def / lambda / class: documented unsupported, exempt from the lower bound
        if isinstance(node, ast.Call):
            ck = callee_kind(node)
            if direct_xattr(node) and is_str_const(node.args[1]):
                # counts as the attribute access
                self.emit(XATTR_KIND[node.func.id], spell(node), node, tags, path)
                # and the object expression is itself loaded
                obj = node.args[0]
            else:
                t = list(tags)
                if ck == "sorted":
                    t.append("sorted-call-record")
                elif ck == "defaultdict":
                    t.append("defaultdict-call-record")
                elif ck in XATTR:
                    t.append("getattr-family-call-record")
                self.emit("call", wcb(spell(node)), node, t, path)
            self.call_parts(node, tags, path, in_chain=False)
            return
        if isinstance(node, (ast.Name, ast.Attribute, ast.Subscript, ast.Starred)):
            self.emit(KIND[type(node.ctx)], spell(node), node, tags, path)
            self.spine(node, tags, path, 0)
            return
        # assignments whose value is a lambda / namedtuple declaration / class instance are
        # special-cased by rattr; the spec treats them like any other statement, tags name the
        # positions
        if isinstance(node, (ast.Assign, ast.AnnAssign, ast.AugAssign, ast.NamedExpr)):
            value = node.value
            targets = node.targets if isinstance(node, ast.Assign) else [node.target]
            vt = []
            if value is not None:
                vals = value.elts if isinstance(value, (ast.Tuple, ast.List)) else [value]
                if any(isinstance(v, ast.Lambda) for v in vals):
                    vt = ["lambda-assignment"]
                elif any(isinstance(v, ast.Call) and (wcb(spell(v.func)) == "namedtuple" or wcb(spell(v.func)).endswith(".namedtuple")) for v in vals):
                    vt = ["namedtuple-assignment"]
            for i, t in enumerate(targets):
                self.walk(t, tags + vt, path + [f"{type(node).__name__}.target[{i}]"])
            if isinstance(node, ast.AnnAssign):
                at = []
                if isinstance(value, ast.Call) and wcb(spell(value)) in self.class_names:
                    at = ["annotation-of-class-instance-assignment"]
                self.walk(node.annotation, tags + vt + at, path + ["AnnAssign.annotation"])
            if value is not None:
                self.walk(value, tags + vt, path + [f"{type(node).__name__}.value"])
            return
        for field, value in ast.iter_fields(node):
            if isinstance(value, list):
                for i, item in enumerate(value):
                    if isinstance(item, ast.AST):
                        self.walk(item, tags, path + [f"{type(node).__name__}.{field}[{i}]"])
            elif isinstance(value, ast.AST):
                self.walk(value, tags, path + [f"{type(node).__name__}.{field}"])


def accesses(fn, class_names=()):
    body = fn.body if not isinstance(fn, ast.Lambda) else [ast.Expr(value=fn.body)]
    return Walker(class_names).walk_body(body)


def parent_map(fn):
    pm = {}
    for n in ast.walk(fn):
        for c in ast.iter_child_nodes(n):
            pm[c] = n
    return pm


def local_class_names(fn, module_classes):
    """module-level class names plus names bound in this function by a namedtuple declaration."""
    names = set(module_classes)
    for n in ast.walk(fn):
        if isinstance(n, ast.Assign) and isinstance(n.value, ast.Call):
            f = wcb(spell(n.value.func))
            if (f == "namedtuple" or f.endswith(".namedtuple")) and len(n.targets) == 1 and isinstance(n.targets[0], ast.Name) \
                    and valid_namedtuple_declaration(n.value):
                names.add(n.targets[0].id)
    return names


def valid_namedtuple_declaration(call: ast.Call):
    """namedtuple('N', ['a', 'b']) or namedtuple('N', 'a b'): the declarations that define a class."""
    if len(call.args) != 2:
        return False
    second = call.args[1]
    if isinstance(second, ast.List):
        return all(is_str_const(e) for e in second.elts)
    if is_str_const(second):
        return second.value == "" or all(p.isidentifier() for p in second.value.split(" "))
    return False


def expected_self(call, pm, class_name):
    """The instance stand-in C09 demands for a constructor call."""
    p = pm.get(call)
    if isinstance(p, (ast.Assign, ast.AnnAssign, ast.AugAssign, ast.NamedExpr)) and p.value is call:
        targets = p.targets if isinstance(p, ast.Assign) else [p.target]
        if len(targets) == 1 and not isinstance(targets[0], (ast.Tuple, ast.List)):
            return spell(targets[0])
        return None      # not one-to-one: rattr rejects with a fatal; nothing is demanded
    node = call
    while isinstance(pm.get(node), (ast.Tuple, ast.List, ast.Set, ast.Dict)):
        node = pm[node]
    if isinstance(pm.get(node), ast.Return):
        return "@ReturnValue"
    return "@" + class_name


# ------------------------------------------------------------------ C02: justification

def all_nodes(fn):
    body = fn.body if not isinstance(fn, ast.Lambda) else [fn.body]
    for s in body:
        yield from ast.walk(s)


def dotted_prefixes(s, min_parts=1):
    parts = s.split(".")
    return {".".join(parts[:i]) for i in range(min_parts, len(parts))}


def justification_sets(fn, nodes=None):
    """Everything C02 admits as a reported name, per kind, with the rule that admits it.
    `nodes` (optional): judge this iterable of AST nodes instead of every node of the body of `fn`."""
    just = {"get": {}, "set": {}, "del": {}, "call": {}}
    for n in (all_nodes(fn) if nodes is None else nodes):
        if isinstance(n, (ast.Name, ast.Attribute, ast.Subscript, ast.Starred)):
            just[KIND[type(n.ctx)]].setdefault(spell(n), "occurrence")
        if isinstance(n, ast.Call):
            sp = spell(n)
            just["call"].setdefault(wcb(sp), "occurrence")
            # a call is an expression that is loaded: `E()` and chains through it occur as names
            just["get"].setdefault(sp, "occurrence")
            # receiver prefix rule: a.b.c() -> a.b  (every dotted prefix with >= 2 parts)
            recv = wcb(sp).split(".")[:-1]
            for i in range(2, len(recv) + 1):
                just["get"].setdefault(".".join(recv[:i]), "receiver-prefix")
            if direct_xattr(n):
                full = spell(n)
                just[XATTR_KIND[n.func.id]].setdefault(full, "getattr-family-target")
                for p in dotted_prefixes(full):
                    just["get"].setdefault(p, "getattr-family-prefix")
            ck = callee_kind(n)
            if ck == "sorted" and n.args:
                key = next((k.value for k in n.keywords if k.arg == "key"), None)
                if isinstance(key, ast.Lambda) and len(key.args.args) == 1:
                    it = key.args.args[0].arg
                    iterable = spell(n.args[0])
                    for m in ast.walk(key.body):
                        if isinstance(m, (ast.Name, ast.Attribute, ast.Subscript, ast.Starred)):
                            s = spell(m)
                            body = s[1:] if s.startswith("*") else s
                            if body == it or body.startswith(it + ".") or body.startswith(it + "[") or body.startswith(it + "("):
                                new = ("*" if s.startswith("*") else "") + iterable + body[len(it):]
                                just[KIND[type(m.ctx)]].setdefault(new, "plugin-sorted-substitution")
            if ck == "defaultdict" and n.args and isinstance(n.args[0], (ast.Name, ast.Attribute)):
                just["call"].setdefault(wcb(spell(n.args[0])), "plugin-defaultdict-factory")
    return just


# ------------------------------------------------------------------ C09: call records

def is_class_name(name, class_names):
    return name in class_names


def expected_record(call: ast.Call, self_name):
    args = ([self_name] if self_name is not None else []) + [spell(a) for a in call.args]
    kwargs = sorted([k.arg, spell(k.value)] for k in call.keywords if k.arg is not None)
    return args, kwargs

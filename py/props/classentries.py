"""C02 on the entries of a FileIr that are not plain function bodies: class entries.

For a class rattr files ONE entry under the class symbol; what it may contain depends on the shape
of the class (`rattr/analyser/cls.py`):

  * a class with `__init__`          -> the analysis of the `__init__` body;
  * an Enum-by-heuristic class (a base spelled `Enum` / `x.Enum`) WITHOUT `__init__` -> a synthetic
    initialiser whose gets are `<Class>.<member>`; the members are not read from the class body but
    looked up in the SHARED root symbol table (every `Name` whose identifier starts with
    `<Class>.`), which every ClassAnalyser of the file writes to and the root-context builder fills
    with every module-level name beforehand;
  * a NamedTuple-by-heuristic class without `__init__` -> the empty IR;
  * `@staticmethod`s -> an entry `<Class>.<method>` with the analysis of that method's body.

This module supplies
  * `ProjGen`: 1-3 file projects (target + followed imports) of "name families": an enum class `S`
    together with classes / variables / functions / lambdas / namedtuples / import aliases whose
    identifiers EXTEND `S` (`SPalette`, `Ss`, `S_x`, `S2`), are a proper prefix of it, end with it,
    or equal it, defined before and after `S`, at module level and inside compound statements; the
    sibling shapes (NamedTuple class, enum with `__init__`, ignored, static methods, nested class,
    attribute / subscript / walrus targets in the class body);
  * `entry_oracle`: the upper bound of EVERY FileIr entry computed from the module's source alone
    (function / lambda / `__init__` / static method: `accessspec.justification_sets` of that body;
    synthetic enum initialiser: gets within `{S.m : the body of S itself stores to the name m at
    class scope}`, nothing else; namedtuple: nothing; `@rattr_results`: the declared literals);
  * `run_stage`: every project goes through (1) the real `FileAnalyser` per file + the Lean model
    (op `analyse_file`: correspondence, via `filelib`), (2) the real pipeline
    `parse_and_analyse_file()` in-process (target FileIr + the FileIr of every followed import),
    (3) for a share of the projects the CLI (`-o ir` and `-o results`: the entries that are
    call-free at the snapshot point, e.g. every synthetic initialiser). The oracle is applied to the implementation's real output of (2) and (3).
"""
from __future__ import annotations

import ast
import json
import os
import shutil
import subprocess
import sys
import tempfile
from pathlib import Path

import common
import impl
from props import accessspec as spec
from props import filelib
from props import sigspec

KINDS = ("get", "set", "del")

# ---------------------------------------------------------------------------------- generator

STEMS = ["Colour", "Shape", "Status", "Mode", "K", "Ev", "Unit"]
MEMBERS = ["RED", "GREEN", "LOW", "HIGH", "ON", "OFF", "A", "B", "first", "last"]
ENUM_BASES = ["Enum"] * 5 + ["enum.Enum"] * 2 + ["my.Enum", "Enum, NamedTuple", "str, Enum", "object, enum.Enum"]
OTHER_BASES = ["IntEnum", "enum.IntEnum", "Flag", "NamedTuple", "NamedTuple", "typing.NamedTuple", "", "Bare", "Enumish", "EnumBase"]

HEADER = """import enum, typing
from enum import Enum, IntEnum, Flag
from typing import NamedTuple
from collections import namedtuple
from rattr.analyser.annotations import rattr_ignore, rattr_results

glob = 1
other_glob = [1, 2]

class Bare:
    pass

def helper(z, w=0):
    return z.secret
"""


def ind(lines, n=1):
    return ["    " * n + l for l in lines]


class ProjGen:
    def __init__(self, rng, hostile=0.05):
        self.r = rng
        self.hostile = hostile
        self.n = 0

    def fresh(self, p):
        self.n += 1
        return f"{p}{self.n}"

    # ------------------------------------------------------------ names around a stem
    def neighbour_name(self, stem):
        r = self.r
        k = r.random()
        if k < 0.62:      # the stem is a proper prefix of the neighbour
            return stem + r.choice(["Palette", "s", "_x", "2", "Code", "Registry", "_", "Of", "X", "sAndMore"])
        if k < 0.72 and len(stem) > 1:      # the neighbour is a proper prefix of the stem
            return stem[: r.randint(1, len(stem) - 1)]
        if k < 0.82:
            return r.choice(["My", "Base", "x_", "_"]) + stem
        if k < 0.88:
            return stem.lower() if stem.lower() != stem else stem.upper()
        if k < 0.88 + self.hostile:
            return stem       # the very same identifier (re-definition)
        return self.fresh("Other")

    # ------------------------------------------------------------ class bodies
    def member_stmts(self, used):
        r = self.r

        def m():
            for _ in range(20):
                x = r.choice(MEMBERS) + r.choice(["", "", "_1", "2"])
                if x not in used:
                    used.add(x)
                    return x
            return self.fresh("M")

        k = r.choice(["assign"] * 6 + ["ann", "annonly", "tuple", "chain", "aug", "walrus", "call", "if", "try", "for", "with", "star"])
        v = r.choice(["1", "2", "'x'", "(1, 2)", "auto()", "helper(1)", "glob", "other_glob[0]"])
        if k == "assign":
            return [f"{m()} = {v}"]
        if k == "ann":
            return [f"{m()}: int = {v}"]
        if k == "annonly":
            return [f"{m()}: {r.choice(['int', 'str', 'typing.Any'])}"]
        if k == "tuple":
            return [f"{m()}, ({m()}, {m()}) = {v}, (1, 2)"]
        if k == "chain":
            return [f"{m()} = {m()} = {v}"]
        if k == "aug":
            a = m()
            return [f"{a} = 1", f"{a} += {v}"]
        if k == "walrus":
            return [r.choice([f"{m()} = ({m()} := {v})", f"print({m()} := {v})", f"{m()} = [{m()} := 1, 2]"])]
        if k == "call":
            return [f"{m()} = {r.choice(['Bare', 'helper', 'glob.mk'])}({v})"]
        if k == "if":
            return [f"if {v}:"] + ind([f"{m()} = 1"]) + ["else:"] + ind([f"{m()} = 2"])
        if k == "try":
            return ["try:"] + ind([f"{m()} = 1"]) + ["except Exception:"] + ind([f"{m()} = 2"])
        if k == "for":
            return [f"for {m()} in other_glob:"] + ind([f"{m()} = 1"])
        if k == "with":
            return [f"with helper(1) as {m()}:"] + ind([f"{m()} = 1"])
        if k == "star":
            return [f"{m()}, *{m()} = other_glob"]
        raise AssertionError(k)

    def odd_class_stmt(self, used):
        """class-body statements that bind no member (or bind one somewhere else)."""
        r = self.r
        k = r.choice(["doc", "pass", "attr_target", "sub_target", "expr", "lambda_walrus", "nested_class", "del", "method",
                      "attr_target_self_stem"])
        if k == "doc":
            return ["'doc'"]
        if k == "pass":
            return ["pass"]
        if k == "attr_target":
            return [f"{r.choice(['glob', 'other_glob', 'helper'])}.{self.fresh('s')} = 1"]
        if k == "sub_target":
            return [f"other_glob[{r.choice(['0', 'glob'])}] = 1"]
        if k == "expr":
            return [r.choice(["glob.attr", "helper(glob)", "print(other_glob[0])"])]
        if k == "lambda_walrus":
            return [f"{self.fresh('lw')} = lambda: ({self.fresh('inner')} := 1)"]
        if k == "nested_class":
            return [f"class {self.fresh('Nested')}:"] + ind([f"{self.fresh('nz')} = 1"])
        if k == "del":
            a = self.fresh("tmp")
            return [f"{a} = 1", f"del {a}"]
        if k == "method":
            return [f"def {self.fresh('meth')}(self, o):"] + ind([f"return o.{self.fresh('a')}, self.value"])
        if k == "attr_target_self_stem":
            return [f"Bare.{self.fresh('s')} = 1"]
        raise AssertionError(k)

    def fn_body(self, params, stem_names):
        r = self.r
        p = params[0] if params else "glob"
        out = []
        for _ in range(r.randint(1, 3)):
            s = r.choice(stem_names) if stem_names else "Bare"
            out.append(r.choice([
                f"{p}.{self.fresh('g')}", f"{p}.{self.fresh('s')} = {s}.{r.choice(MEMBERS)}", f"del {p}.{self.fresh('d')}",
                f"return {s}({p}.{self.fresh('v')})", f"{s}.{r.choice(MEMBERS)}.value", f"{self.fresh('loc')} = {s}.{r.choice(MEMBERS)}",
                f"{p}.m.n({s})", f"print({s}, {p}[0].{self.fresh('i')})", f"{s}s = {p}", f"getattr({p}, 'ga')",
            ]))
        return out

    def klass(self, name, stem_names, role):
        """role: 'enum' (the family's head), 'plain', 'nt', 'other'."""
        r = self.r
        if role == "enum":
            bases = r.choice(ENUM_BASES)
        elif role == "nt":
            bases = r.choice(["NamedTuple", "typing.NamedTuple"])
        elif role == "plain":
            bases = r.choice(["", "", "", "Bare", "object"])
        else:
            bases = r.choice(OTHER_BASES)
        used = set()
        parts = []
        for _ in range(r.choice([0, 1, 2, 2, 3, 4]) if role != "plain" else r.choice([1, 2, 3])):
            parts.append(self.member_stmts(used))
        for _ in range(r.choice([0, 0, 0, 1, 1, 2])):
            parts.append(self.odd_class_stmt(used))
        has_init = r.random() < (0.12 if role in ("enum", "nt") else 0.5)
        if has_init:
            ps = r.choice([["self", "a"], ["self", "a", "b=0"], ["self"], ["self", "*args"]])
            names = [p.strip("*").split("=")[0] for p in ps]
            parts.append([f"def __init__({', '.join(ps)}):"] + ind(self.fn_body(names[1:] or ["self"], stem_names) + [f"self.{self.fresh('f')} = {names[-1]}"]))
        for _ in range(r.choice([0, 0, 0, 1, 1, 2])):
            sm = r.choice([self.fresh("sm"), "sm", "of"])
            parts.append(["@staticmethod", f"def {sm}(v, w=0):"] + ind(self.fn_body(["v", "w"], stem_names)))
        r.shuffle(parts)
        body = [l for p in parts for l in p] or ["pass"]
        decos = []
        k = r.random()
        if k < 0.05:
            decos = ["@rattr_ignore"]
        elif k < 0.09:
            decos = ["@rattr_results(gets={'a.x', 'b'}, sets={'c.y'})"]
        elif k < 0.13:
            decos = ["@helper(1)"]
        return decos + [f"class {name}({bases}):" if bases else f"class {name}:"] + ind(body)

    # ------------------------------------------------------------ neighbours of an enum called `stem`
    def neighbour(self, stem, stem_names):
        r = self.r
        name = self.neighbour_name(stem)
        k = r.choice(["class_plain"] * 4 + ["class_enum", "class_nt", "class_other", "var", "var", "var", "var_forms", "var_forms",
                      "func", "lambda", "ntassign", "import", "in_if", "in_try", "walrus", "attr_of_stem", "for_target", "with_target",
                      "inst"])
        v = r.choice(["1", "(1, 2)", "'s'", "helper(1)", "[glob]"])
        if k == "class_plain":
            return self.klass(name, stem_names, "plain")
        if k == "class_enum":
            return self.klass(name, stem_names, "enum")
        if k == "class_nt":
            return self.klass(name, stem_names, "nt")
        if k == "class_other":
            return self.klass(name, stem_names, "other")
        if k == "var":
            return [f"{name} = {v}"]
        if k == "var_forms":
            return [r.choice([f"{name}: int = {v}", f"{name}: int", f"{name}, {self.neighbour_name(stem)} = 1, 2",
                              f"{name} = {self.neighbour_name(stem)} = {v}", f"{name} = 0\n{name} += 1",
                              f"[{name}, *{self.neighbour_name(stem)}] = other_glob"])]
        if k == "func":
            return [f"def {name}(a, b=0):"] + ind(self.fn_body(["a", "b"], stem_names))
        if k == "lambda":
            return [f"{name} = lambda p: (p.{self.fresh('la')}, {stem}.{r.choice(MEMBERS)})"]
        if k == "ntassign":
            return [f"{name} = namedtuple('{name}', ['x', 'y'])"]
        if k == "import":
            return [r.choice([f"import solo as {name}", f"from lp.sub import f as {name}", f"from lp import alpha as {name}",
                              f"import lp.sub as {name}"])]
        if k == "in_if":
            return ["if glob:"] + ind([f"{name} = {v}"]) + ["else:"] + ind(self.klass(name + "Alt", stem_names, "plain"))
        if k == "in_try":
            return ["try:"] + ind([f"{name} = {v}"]) + ["except Exception:"] + ind([f"{self.neighbour_name(stem)} = None"])
        if k == "walrus":
            return [r.choice([f"print({name} := {v})", f"{self.fresh('mv')} = ({name} := {v})", f"if ({name} := glob):\n    pass"])]
        if k == "attr_of_stem":
            # module-level stores THROUGH the enum / a neighbour (the root context records the base name)
            # (through the enum itself: the root context then records the class name as a plain Name and
            # ClassAnalyser.symbol raises ValueError — C07's subject; kept rare)
            if r.random() < self.hostile:
                return [r.choice([f"{stem}.{r.choice(MEMBERS)} = {v}", f"{stem}.late: int = 3", f"{stem}[0] = 1"])]
            return [r.choice([f"{name}.extra = {v}", f"{name}.late: int = 3", f"{name}[0] = 1", f"{name}.a.b = {v}"])]
        if k == "for_target":
            return [f"for {name} in other_glob:"] + ind([f"{self.fresh('mv')} = {name}"])
        if k == "with_target":
            return [f"with helper(1) as {name}:"] + ind(["pass"])
        if k == "inst":
            return [f"{name} = {stem}({v})"]
        raise AssertionError(k)

    # ------------------------------------------------------------ one module
    def module(self, stems, imports=()):
        r = self.r
        units = []
        stem_names = list(stems)
        for stem in stems:
            role = "enum" if r.random() < 0.85 else r.choice(["nt", "other"])
            units.append(self.klass(stem, stem_names, role))
            for _ in range(r.choice([1, 1, 2, 2, 3, 4])):
                units.append(self.neighbour(stem, stem_names))
            if r.random() < 0.7:
                units.append([f"def {self.fresh('use')}(a, b=0):"] + ind(self.fn_body(["a", "b"], stem_names)))
        if r.random() < 0.3:
            units.append(["@rattr_results(gets={'a.dx'}, sets={'b.dy'}, dels={'a.dz'})", f"def {self.fresh('decl')}(a, b):", "    pass"])
        r.shuffle(units)
        lines = HEADER.split("\n") + list(imports)
        for u in units:
            src = "\n".join(u)
            try:
                ast.parse(src)
            except SyntaxError:
                continue
            lines += src.split("\n")
        return "\n".join(lines) + "\n"

    def project(self):
        """{relative path: source}; target.py first. Imports are followed (default level)."""
        r = self.r
        shape = r.choice(["single", "single", "import", "import", "import", "from", "chain", "package"])
        stems = r.sample(STEMS, r.choice([1, 1, 2]))
        files = {}
        if shape == "single":
            files["target.py"] = self.module(stems)
            return files, shape
        # the imported module often re-uses the target's stems: separate files, separate tables
        stems2 = r.sample(STEMS, r.choice([1, 2])) if r.random() < 0.5 else list(stems)
        if shape == "import":
            files["target.py"] = self.module(stems, imports=["import cmod"])
            files["cmod.py"] = self.module(stems2)
        elif shape == "from":
            s2 = stems2[0]
            alias = r.choice([s2, stems[0] + "Imported", s2 + "Ext", self.fresh("Al")])
            files["target.py"] = self.module([s for s in stems if s != alias] or [self.fresh("T")],
                                             imports=[f"from cmod import {s2} as {alias}" if alias != s2 else f"from cmod import {s2}"])
            files["cmod.py"] = self.module(stems2)
        elif shape == "chain":
            files["target.py"] = self.module(stems, imports=["import cmod"])
            files["cmod.py"] = self.module(stems2, imports=["import cdeep"])
            files["cdeep.py"] = self.module(r.sample(STEMS, 1))
        elif shape == "package":
            files["target.py"] = self.module(stems, imports=["import cpkg.inner", "from cpkg import " + stems2[0]])
            files["cpkg/__init__.py"] = self.module(stems2)
            files["cpkg/inner.py"] = self.module(r.sample(STEMS, 1), imports=["from . import " + stems2[0]])
        return files, shape


CURATED = [
    # the plain situation: sibling class before / after, module-level variable, both orders
    {"target.py": "from enum import Enum\nclass ColourPalette:\n    default = 'warm'\n    shades = 3\n    def __init__(self, owner):\n        self.owner = owner.name\n"
                  "class Colour(Enum):\n    RED = 1\n    GREEN = 2\nclass Shape(Enum):\n    ROUND = 1\nclass ShapeRegistry:\n    entries = ()\n"
                  "def paint(wall, colour):\n    wall.colour = colour\n    return wall.area\n"},
    {"target.py": "from enum import Enum\nColours = (1, 2)\nColour_default = 1\nclass Colour(Enum):\n    RED = 1\nColourLate = 3\ndef ColourOf(x):\n    return x.c\n"},
    {"target.py": "import enum\nclass K(enum.Enum):\n    A = 1\n    B, C = 2, 3\nclass K2:\n    A = 1\nclass KK(enum.Enum):\n    Z = 0\nclass K_:\n    pass\nK3 = lambda p: p.x\n"},
    {"target.py": "from enum import Enum\nfrom typing import NamedTuple\nclass P(NamedTuple):\n    x: int\n    y: int = 0\nclass PX:\n    z = 1\nclass PE(Enum, NamedTuple):\n    k = 1\nPs = 1\n"},
    {"target.py": "import cmod\nfrom enum import Enum\nclass Shape(Enum):\n    SQ = 1\ndef use(a):\n    return cmod.Shape(a.v), Shape.SQ\n",
     "cmod.py": "from enum import Enum\nclass ShapeRegistry:\n    entries = ()\n    count = 0\nShapes = 3\nclass Shape(Enum):\n    ROUND = 1\n    FLAT = 2\ndef area(s):\n    return s.w * s.h\n"},
    {"target.py": "from cmod import Mode as ModeExt\nfrom enum import Enum\nclass Mode(Enum):\n    ON = 1\nModeTable = {}\n",
     "cmod.py": "from enum import Enum\nclass ModeBase:\n    level = 0\n    @staticmethod\n    def of(v):\n        return v.mode\nclass Mode(Enum):\n    OFF = 0\nclass ModeLate:\n    after = 1\n"},
    # members that are no plain `NAME = value`
    {"target.py": "from enum import Enum\nglob = 1\nother = [1]\nclass E(Enum):\n    A: int = 1\n    B: int\n    C = D = 2\n    print(F := 3)\n    if glob:\n        G = 1\n    glob.x = 1\n    other[0] = 2\n    L = lambda: (inner := 1)\n"},
    {"target.py": "from enum import Enum\nclass E(Enum):\n    A = 1\n    class Inner:\n        z = 1\n"},
    {"target.py": "from enum import Enum\nclass E:\n    old = 1\nclass E(Enum):\n    NEW = 1\n"},
    {"target.py": "from enum import Enum\nclass E(Enum):\n    A = 1\n    def __init__(self, v):\n        self.v = v.raw\nclass EX:\n    q = 1\nclass F(Enum):\n    B = 1\n    @staticmethod\n    def of(v):\n        return F.B, v.k\nclass FX:\n    r = 1\n"},
    {"target.py": "from enum import Enum\nfrom rattr.analyser.annotations import rattr_ignore\n@rattr_ignore\nclass E(Enum):\n    A = 1\nclass EE(Enum):\n    B = 1\nE.late = 2\nEE.late = 3\n"},
]


# ---------------------------------------------------------------------------------- the oracle

SCOPES = (ast.FunctionDef, ast.AsyncFunctionDef, ast.Lambda, ast.ClassDef, ast.ListComp, ast.SetComp, ast.DictComp, ast.GeneratorExp)


def spelled(node):
    """dotted spelling of a Name / Attribute chain, else None."""
    if isinstance(node, ast.Name):
        return node.id
    if isinstance(node, ast.Attribute):
        b = spelled(node.value)
        return None if b is None else f"{b}.{node.attr}"
    return None


def is_enum_like(cls: ast.ClassDef, suffix="Enum"):
    """the README-less heuristic of `cls.py`, re-stated on the source text: a base spelled `Enum` or `<...>.Enum`."""
    for b in cls.bases:
        s = spelled(b)
        if s is not None and (s == suffix or s.endswith("." + suffix)):
            return True
    return False


def decorator_head(d):
    n = d.func if isinstance(d, ast.Call) else d
    if isinstance(n, ast.Name):
        return n.id
    if isinstance(n, ast.Attribute):
        return n.attr
    return None


def decorator_heads(node):
    return [h for h in map(decorator_head, node.decorator_list) if h is not None]


def class_scope_nodes(cls: ast.ClassDef, nested=False):
    """nodes below the non-method statements of the class body; nested=False: only those in the
    class's own scope (not inside lambdas, comprehensions, nested classes); nested=True: the rest."""
    own, inner = [], []

    def walk(n, inside):
        (inner if inside else own).append(n)
        for c in ast.iter_child_nodes(n):
            walk(c, inside or isinstance(n, SCOPES))

    for st in cls.body:
        if isinstance(st, (ast.FunctionDef, ast.AsyncFunctionDef)):
            continue
        walk(st, False)
    return inner if nested else own


def own_members(cls: ast.ClassDef):
    """identifiers the class body itself stores to at class scope (any binding statement)."""
    return {n.id for n in class_scope_nodes(cls) if isinstance(n, ast.Name) and isinstance(n.ctx, ast.Store)}


def declared_sets(node):
    """literal sets of an @rattr_results(...) decorator (None: not a plain literal form)."""
    for d in node.decorator_list:
        if isinstance(d, ast.Call) and decorator_head(d) == "rattr_results":
            out = {"get": set(), "set": set(), "del": set(), "call": set()}
            try:
                for k in d.keywords:
                    v = ast.literal_eval(k.value)
                    if k.arg in ("gets", "sets", "dels"):
                        out[k.arg[:-1]] = set(v)
                    elif k.arg == "calls":
                        out["call"] = {spec.wcb(c[0]) for c in v}
            except Exception:  # noqa
                return None
            return out
    return None


class Candidate:
    """one definition in the source that may stand behind a FileIr key."""
    __slots__ = ("kind", "node", "cls", "lineno", "assign")

    def __init__(self, kind, node, cls=None, assign=None):
        self.kind, self.node, self.cls, self.assign = kind, node, cls, assign
        self.lineno = getattr(node, "lineno", 0)


def module_statements(body):
    """statements FileAnalyser reaches: module level and below compound statements, never inside a def / class."""
    for st in body:
        yield st
        if isinstance(st, (ast.FunctionDef, ast.AsyncFunctionDef, ast.ClassDef)):
            continue
        for field in ("body", "orelse", "finalbody", "handlers", "cases"):
            sub = getattr(st, field, None)
            if isinstance(sub, list):
                stmts = []
                for x in sub:
                    if isinstance(x, ast.stmt):
                        stmts.append(x)
                    elif isinstance(x, (ast.excepthandler, ast.match_case)):
                        stmts += x.body
                yield from module_statements(stmts)


def candidates(tree: ast.Module):
    """FileIr key name -> [Candidate]."""
    out = {}

    def add(name, c):
        out.setdefault(name, []).append(c)

    for st in module_statements(tree.body):
        if isinstance(st, (ast.FunctionDef, ast.AsyncFunctionDef)):
            add(st.name, Candidate("declared" if "rattr_results" in decorator_heads(st) else "def", st))
        elif isinstance(st, ast.ClassDef):
            inits = [m for m in st.body if isinstance(m, (ast.FunctionDef, ast.AsyncFunctionDef)) and m.name == "__init__"]
            if inits:
                if "rattr_results" in decorator_heads(st):
                    add(st.name, Candidate("declared", st, st))
                for i in inits:
                    add(st.name, Candidate("init", i, st))
            else:
                if is_enum_like(st, "Enum"):
                    add(st.name, Candidate("enum", st, st))      # (also a NamedTuple: the enum bound contains the empty one)
                elif is_enum_like(st, "NamedTuple"):
                    add(st.name, Candidate("namedtuple", st, st))
            for m in st.body:
                if isinstance(m, (ast.FunctionDef, ast.AsyncFunctionDef)) and "staticmethod" in decorator_heads(m):
                    add(f"{st.name}.{m.name}", Candidate("static", m, st))
        else:
            for n in ast.walk(st):
                if isinstance(n, (ast.Assign, ast.AnnAssign, ast.AugAssign, ast.NamedExpr)) and getattr(n, "value", None) is not None:
                    targets = n.targets if isinstance(n, ast.Assign) else [n.target]
                    v = n.value
                    lams = []
                    while isinstance(v, ast.NamedExpr):
                        targets = targets + [v.target]
                        v = v.value
                    if isinstance(v, ast.Lambda):
                        lams = [v]
                    for t in targets:
                        s = spelled(t)
                        if s is None:
                            continue
                        for lam in lams:
                            add(s, Candidate("lambda", lam, assign=n))
                        if isinstance(v, ast.Call) and (spec.wcb(spec.spell(v.func)) == "namedtuple" or spec.wcb(spec.spell(v.func)).endswith(".namedtuple")):
                            add(s, Candidate("namedtuple", v))
    return out


def allowed_of(c: Candidate):
    """kind -> {name: rule} the candidate admits."""
    if c.kind in ("def", "init", "static", "lambda"):
        return spec.justification_sets(c.node)
    if c.kind == "enum":
        return {"get": {f"{c.cls.name}.{m}": "enum-member" for m in own_members(c.cls)}, "set": {}, "del": {}, "call": {}}
    if c.kind == "namedtuple":
        return {"get": {}, "set": {}, "del": {}, "call": {}}
    if c.kind == "declared":
        d = declared_sets(c.node)
        if d is None:
            return None
        return {k: {n: "declared" for n in v} for k, v in d.items()}
    raise AssertionError(c.kind)


def classify_enum_phantom(tree, cls: ast.ClassDef, kind, name):
    """WHAT is wrong with `name` in the synthetic initialiser of `cls` — from the source and the name only."""
    if kind != "get":
        return f"phantom-enum-{kind}"
    cname = cls.name
    classes = {n.name: n for n in module_statements(tree.body) if isinstance(n, ast.ClassDef)}
    if name.startswith(cname + "."):
        m = name[len(cname) + 1:]
        if "." in m or not m.isidentifier():
            return "phantom-enum-get:not-an-identifier-after-the-class-name"
        own = class_scope_nodes(cls)
        for n in own:
            if isinstance(n, (ast.Attribute, ast.Subscript)) and isinstance(n.ctx, ast.Store):
                b = n
                while isinstance(b, (ast.Attribute, ast.Subscript, ast.Starred, ast.Call)):
                    b = b.value if not isinstance(b, ast.Call) else b.func
                if isinstance(b, ast.Name) and b.id == m:
                    return "phantom-enum-get:base-of-attribute-or-subscript-target-in-class-body"
        for n in class_scope_nodes(cls, nested=True):
            if isinstance(n, ast.Name) and isinstance(n.ctx, ast.Store) and n.id == m:
                return "phantom-enum-get:name-bound-in-a-nested-scope-of-the-class-body"
        for st in module_statements(tree.body):
            if isinstance(st, ast.ClassDef) and st is not cls and st.name == cname:
                names = {n.id for x in st.body if not isinstance(x, (ast.FunctionDef, ast.AsyncFunctionDef)) for n in ast.walk(x)
                         if isinstance(n, ast.Name)}
                if m in names:
                    return "phantom-enum-get:attribute-of-another-class-definition-of-the-same-name"
        return "phantom-enum-get:no-such-member"
    if name.startswith(cname):
        head = name.split(".")[0]
        if "." in name and head in classes:
            return "phantom-enum-get:attribute-of-sibling-class-whose-name-extends-the-enum-name"
        if "." not in name:
            return "phantom-enum-get:module-level-name-that-extends-the-enum-name"
        return "phantom-enum-get:other-name-that-extends-the-enum-name"
    if name == cname or cname.startswith(name.split(".")[0]):
        return "phantom-enum-get:name-that-is-a-prefix-of-the-enum-name"
    return "phantom-enum-get:unrelated-name"


def judge_entry(tree, cands, key_kind, key_name, ir, allowed_fn=None, classify_fn=None):
    """ir: {"gets": [full...], "sets": [...], "dels": [...], "calls": [name-without-brackets...]}.
    Returns (verdict tag, [violation dicts]).
    `allowed_fn(tree, candidate)` (optional, default `allowed_of`): the upper bound of one candidate;
    `classify_fn(tree, candidate, kind, name)` (optional): a signature for an unjustified name of a callable, or None."""
    cs = cands.get(key_name, [])
    if not cs:
        if not any(ir[k] for k in ("gets", "sets", "dels", "calls")):
            return "empty-entry-without-definition", []
        return "entry-without-definition", [{"signature": "phantom-entry:no-definition-stands-behind-the-key", "name": key_name, "kind": key_kind}]
    # several definitions of one identifier: Python keeps the LAST one (source order); an entry that a
    # shadowed definition justifies completely is not counted against the property (the key is ambiguous)
    cs = sorted(cs, key=lambda c: c.lineno)
    verdicts = []
    for c in cs:
        allowed = allowed_of(c) if allowed_fn is None else allowed_fn(tree, c)
        if allowed is None:
            return "declared-not-literal", []
        bad = []
        for kind, field in (("get", "gets"), ("set", "sets"), ("del", "dels"), ("call", "calls")):
            for n in ir[field]:
                if n not in allowed[kind]:
                    bad.append((kind, n))
        verdicts.append((c, allowed, bad))
    c, allowed, bad = verdicts[-1]
    if not bad:
        return "justified:" + c.kind, []
    for c2, _a, bad2 in verdicts[:-1]:
        if not bad2:
            return "justified-by-shadowed-definition:" + c2.kind, []
    pick = {}
    if len(verdicts) > 1:
        # no single definition justifies the entry. Names no definition admits are the phantoms; each is
        # classified against the enum definition when it is spelled `<key>...` and there is one, else the last
        union_bad = [x for x in bad if all(x in b for _c, _a, b in verdicts)]
        if union_bad or c.kind != "enum":       # (an enum that shows names of a shadowed namesake: classified below)
            bad = union_bad
        if not bad:
            return "violated:mixed", [{"signature": "entry-mixes-several-definitions-of-one-identifier", "name": key_name, "kind": key_kind,
                                       "entry": key_name, "entry_kind": "+".join(v[0].kind for v in verdicts)}]
        enums = [v for v in verdicts if v[0].kind == "enum"]
        for kind, n in bad:
            if enums and n.startswith(key_name):
                pick[(kind, n)] = enums[-1]
    out = []
    last = verdicts[-1]
    for kind, n in bad:
        c, allowed, _b = pick.get((kind, n), last)
        if c.kind == "enum":
            sig = classify_enum_phantom(tree, c.cls, kind, n)
        elif c.kind == "namedtuple":
            sig = f"phantom-namedtuple-{kind}"
        elif c.kind == "declared":
            sig = f"phantom-declared-{kind}"
        elif classify_fn is not None and (own := classify_fn(tree, c, kind, n)) is not None:
            sig = own
        elif (part := sigspec.only_in_signature(c.node, kind, n, cls=c.cls if c.kind in ("init", "static") else None,
                                                 assign=c.assign)) is not None:
            # the name is mentioned by the definition's OWN signature (defaults / annotations / decorators / class header),
            # which is not part of its body
            sig = f"entry:{c.kind}:phantom-{kind}:only-in-own-signature:{part}"
        elif kind == "call":
            sig = f"entry:{c.kind}:phantom-call"
        else:
            other = [k for k in ("get", "set", "del") if n in allowed[k]]
            sig = f"entry:{c.kind}:phantom-{kind}:" + ("wrong-kind-body-has-" + "+".join(other) if other else "no-such-expression")
        out.append({"signature": sig, "name": n, "kind": kind, "entry": key_name, "entry_kind": c.kind})
    return "violated:" + c.kind, out


# ---------------------------------------------------------------------------------- implementation side

def plain_ir(ir):
    return {"gets": sorted(n.name for n in ir["gets"]), "sets": sorted(n.name for n in ir["sets"]),
            "dels": sorted(n.name for n in ir["dels"]), "calls": sorted({spec.wcb(c.name) for c in ir["calls"]})}


def snapshot_fileir(file_ir):
    return [{"kind": type(k).__name__, "name": k.name, "ir": plain_ir(v)} for k, v in file_ir._file_ir.items()]


def pipeline_inprocess(project: Path):
    """the real `parse_and_analyse_file()`: snapshot of the target FileIr and of every followed import's."""
    from rattr.analyser.file import parse_and_analyse_file

    with impl.in_dir(str(project)):
        impl.reset_config(target=Path("target.py"))
        with impl.Tap():
            out = impl.outcome_of(parse_and_analyse_file)
    if out[0] != "ok":
        return {"outcome": out[0], "exc": str(out[1])}
    file_ir, import_irs, _stats = out[1]
    return {"outcome": "ok", "target": snapshot_fileir(file_ir),
            "imports": {name: snapshot_fileir(ir) for name, ir in import_irs.items()}}


def cli(project: Path, output):
    env = dict(os.environ, PYTHONHASHSEED="0", PYTHONDONTWRITEBYTECODE="1")
    p = subprocess.run([sys.executable, "-m", "rattr", "-w", "none", "-o", output, "target.py"], cwd=str(project), env=env,
                       capture_output=True, text=True, timeout=180)
    if p.returncode != 0:
        return {"exit": p.returncode, "doc": None}
    try:
        return {"exit": 0, "doc": json.loads(p.stdout)}
    except Exception:  # noqa
        return {"exit": 0, "doc": None}


def cli_ir_snapshot(doc):
    def entries(d):
        out = []
        for name, ir in d["function_irs"].items():
            sym = d["symbols"].get(name, {})
            out.append({"kind": sym.get("type", "?"), "name": name,
                        "ir": {"gets": sorted(n["name"] for n in ir["gets"]), "sets": sorted(n["name"] for n in ir["sets"]),
                               "dels": sorted(n["name"] for n in ir["dels"]),
                               "calls": sorted({spec.wcb(c["name"]) for c in ir["calls"]})}})
        return out
    return {"target": entries(d_target(doc)), "imports": {m: entries(d) for m, d in doc["import_irs"].items()}}


def d_target(doc):
    t = doc["target_ir"]
    return t["ir"] if "ir" in t and "function_irs" not in t else t


# ---------------------------------------------------------------------------------- the stage

MODULE_FILE = {"cmod": "cmod.py", "cdeep": "cdeep.py", "cpkg": "cpkg/__init__.py", "cpkg.inner": "cpkg/inner.py"}


def write_project(root: Path, files):
    for rel, text in filelib.LOCAL_PACKAGE.items():
        p = root / rel
        p.parent.mkdir(parents=True, exist_ok=True)
        p.write_text(text)
    for rel, text in files.items():
        p = root / rel
        p.parent.mkdir(parents=True, exist_ok=True)
        p.write_text(text)


def source_call_free(cands, name):
    """every definition behind the key is a def / lambda / __init__ / static method whose BODY has no call node
    (so its results are its own IR whatever the implementation answers)."""
    cs = cands.get(name, [])
    return bool(cs) and all(c.kind in ("def", "init", "static", "lambda") and
                            not any(isinstance(n, ast.Call) for n in spec.all_nodes(c.node)) for c in cs)


def flush_model(res, model, deferred):
    """the correspondence half of route (1) for every deferred file, in ONE driver batch."""
    outs = model.batch([("analyse_file", fc.payload) for _tag, _rel, _src, fc in deferred])
    for (tag, rel, src, fc), mo in zip(deferred, outs):
        res.evaluations += 1
        res.count(f"{tag}:model:" + fc.file_im["outcome"])
        if mo.get("outcome", "").startswith("root-"):
            d = f"model root context {mo['outcome']}/{mo.get('exc')} but the real one is ok"
        else:
            d = filelib.compare_file(fc.file_im, mo)
        if d is not None:
            res.disagreements.append({"case": {"stage": "class-entries/file-analyser", "file": rel, "module": src}, "diff": d[:2000]})
    del deferred[:]


def run_project(res, model, root, files, shape, pi, cli_allowed, tag="cls", always_cli=False, free_by_source=False,
                nontrivial_kinds=("enum", "static", "init", "namedtuple"), deferred=None, allowed_fn=None, classify_fn=None,
                free_fn=None, out=None, with_results=None):
    """One project through (1) FileAnalyser vs the Lean model per file, (2) the real pipeline in-process,
    (3) the CLI (when `cli_allowed` and the project has an enum / namedtuple family, is curated, or `always_cli`),
    then the source-only oracle on every view. Returns (entries judged, whether the CLI was used).
    `deferred` (a list): the model half of (1) is postponed — the caller runs `flush_model` once at the end.
    `free_by_source`: the entries whose `-o ir` / `-o results` output must equal their own IR are chosen by the SOURCE
    (no call node in the body) instead of by the in-process snapshot.
    `allowed_fn` / `classify_fn`: see `judge_entry`. `free_fn(tree, candidates, name)`: chooses those entries instead.
    `with_results` (None: as always, i.e. every second project or `always_cli`): whether `-o results` is run too.
    `out` (a dict): receives the `-o ir` document under "cli_ir" and the in-process snapshot under "snapshot"."""
    judged = 0
    used_cli = False
    write_project(root, files)
    res.count(f"{tag}:project:" + shape)
    trees, cands = {}, {}
    for rel, src in files.items():
        trees[rel] = ast.parse(src)
        cands[rel] = candidates(trees[rel])
    case_files = {"files": files}

    # ---- (1) per file: real FileAnalyser vs the Lean model (op analyse_file)
    fcs = {}
    for rel, src in files.items():
        fc = filelib.run_case(root, rel, src)
        fcs[rel] = fc
        if fc.skipped is not None:
            res.skipped_outside_fragment += 1
            res.count(f"{tag}:model:skipped:" + fc.skipped[:40])
    live = [(tag, rel, files[rel], fc) for rel, fc in fcs.items() if fc.skipped is None and fc.file_im is not None]
    if deferred is None:
        flush_model(res, model, live)
    else:
        deferred.extend(live)       # the caller flushes (one driver process for the whole stage)

    # ---- (2) the real pipeline in-process
    snap = pipeline_inprocess(root)
    res.evaluations += 1
    res.count(f"{tag}:pipeline:" + snap["outcome"])
    if out is not None:
        out["snapshot"] = snap
    views = []
    if snap["outcome"] == "ok":
        views.append(("in-process", "target.py", snap["target"]))
        for mod, entries in snap["imports"].items():
            rel = MODULE_FILE.get(mod)
            if rel in files:
                views.append(("in-process:import", rel, entries))
                res.count(f"{tag}:followed-import:" + mod)
        # the pipeline's FileIr of a file == the FileAnalyser run of (1) (same real code, two routes)
        for route, rel, entries in views:
            fc = fcs.get(rel)
            if fc is not None and fc.file_im is not None and fc.file_im["outcome"] == "ok":
                a = [(e["kind"], e["name"], e["ir"]["gets"], e["ir"]["sets"], e["ir"]["dels"]) for e in entries]
                b = [(k["sym"]["kind"], k["sym"]["name"], sorted(x[0] for x in k["ir"]["gets"]), sorted(x[0] for x in k["ir"]["sets"]),
                      sorted(x[0] for x in k["ir"]["dels"])) for k in fc.file_im["keys"]]
                if sorted(a) != sorted(b):
                    res.count(f"{tag}:pipeline-vs-fileanalyser:differs")
                    res.violations.append({"signature": "ir-of-a-file-depends-on-the-route:" + route, "case": dict(case_files, file=rel),
                                           "pipeline": a[:6], "file_analyser": b[:6]})

    def free_names(rel, entries):
        if free_fn is not None:
            return {e["name"] for e in entries if free_fn(trees[rel], cands[rel], e["name"])}
        if free_by_source:
            return {e["name"] for e in entries if source_call_free(cands[rel], e["name"])}
        return {e["name"] for e in entries if not e["ir"]["calls"]}

    # ---- (3) the CLI
    has_family = any(c.kind in ("enum", "namedtuple") for cs in cands.values() for lst in cs.values() for c in lst)
    if cli_allowed and snap["outcome"] == "ok" and (has_family or shape == "curated" or always_cli):
        used_cli = True
        r = cli(root, "ir")
        res.evaluations += 1
        res.count(f"{tag}:cli-ir:exit%d" % r["exit"])
        if out is not None:
            out["cli_ir"] = r["doc"]
        if r["doc"] is not None:
            # `-o ir` is printed AFTER result generation, which inlines callees into the IR in place: only the
            # entries that are call-free at the snapshot point still show their own IR there
            cs = cli_ir_snapshot(r["doc"])
            free = free_names("target.py", snap["target"])
            views.append(("cli-ir:call-free", "target.py", [e for e in cs["target"] if e["name"] in free]))
            for mod, entries in cs["imports"].items():
                if MODULE_FILE.get(mod) in files and mod in snap["imports"]:
                    free = free_names(MODULE_FILE[mod], snap["imports"][mod])
                    views.append(("cli-ir:import:call-free", MODULE_FILE[mod], [e for e in entries if e["name"] in free]))
        if (pi % 2 == 0 or always_cli) if with_results is None else with_results:
            r = cli(root, "results")
            res.evaluations += 1
            res.count(f"{tag}:cli-results:exit%d" % r["exit"])
            if r["doc"] is not None:
                # call-free entries: the results ARE the own IR
                free = free_names("target.py", snap["target"])
                entries = [{"kind": next(e["kind"] for e in snap["target"] if e["name"] == k), "name": k,
                            "ir": {"gets": v["gets"], "sets": v["sets"], "dels": v["dels"], "calls": []}}
                           for k, v in r["doc"].items() if k in free]
                views.append(("cli-results:call-free", "target.py", entries))

    # ---- the oracle on every view
    for route, rel, entries in views:
        for e in entries:
            verdict, bad = judge_entry(trees[rel], cands[rel], e["kind"], e["name"], e["ir"], allowed_fn, classify_fn)
            judged += 1
            res.evaluations += 1
            res.count(f"{tag}:entry:{route.split(':')[0]}:{verdict}")
            n_names = sum(len(e["ir"][k]) for k in ("gets", "sets", "dels", "calls"))
            if verdict.startswith("justified:") and verdict.split(":")[1] in nontrivial_kinds and n_names >= 1:
                res.nontrivial.add(common.digest(files[rel] + e["name"]))
            for v in bad:
                res.count("verdict:" + v["signature"])
                res.violations.append(dict(v, case=dict(case_files, file=rel, route=route), reported=e["ir"]))
            if verdict == "justified:enum":
                res.sample({"file": rel, "entry": e["name"], "gets": e["ir"]["gets"][:6], "route": route,
                            "module": files[rel][-600:]}, cap=5)
    return judged, used_cli


def run_stage(res, rng, n_projects, n_cli, model, hostile=0.05):
    """Fills res (evaluations, distribution, disagreements, violations). Returns the number of entries judged."""
    projects = [(dict(f), "curated") for f in CURATED]
    g = ProjGen(rng, hostile=hostile)
    for _ in range(n_projects):
        projects.append(g.project())
    judged = 0
    cli_budget = n_cli
    deferred = []
    tmp = Path(tempfile.mkdtemp(prefix="rattr-c02-cls-"))
    try:
        for pi, (files, shape) in enumerate(projects):
            root = tmp / f"p{pi}"
            root.mkdir()
            j, used = run_project(res, model, root, files, shape, pi, cli_budget > 0, deferred=deferred)
            judged += j
            if used:
                cli_budget -= 1
        flush_model(res, model, deferred)
    finally:
        shutil.rmtree(tmp, ignore_errors=True)
    return judged


if __name__ == "__main__":      # development aid: python py/props/classentries.py [seed] [n projects] [n cli]
    import random
    import warnings

    sys.path.insert(0, str(Path(__file__).resolve().parent.parent))
    warnings.simplefilter("ignore")
    seed = int(sys.argv[1]) if len(sys.argv) > 1 else 0
    n = int(sys.argv[2]) if len(sys.argv) > 2 else 20
    ncli = int(sys.argv[3]) if len(sys.argv) > 3 else 0
    res = common.Result("DEV")
    import time
    t0 = time.time()
    j = run_stage(res, random.Random(seed), n, ncli, common.Model())
    print(json.dumps(res.distribution, indent=1, sort_keys=True))
    print("judged", j, "evaluations", res.evaluations, "skipped", res.skipped_outside_fragment, "disagreements", len(res.disagreements),
          "violations", len(res.violations), "nontrivial", len(res.nontrivial), "wall", round(time.time() - t0, 1))
    seen = set()
    for v in res.violations:
        if v["signature"] in seen:
            continue
        seen.add(v["signature"])
        print("=" * 100)
        print(v["signature"], v.get("name"), v.get("entry"), v["case"].get("route"), v["case"].get("file"))
        print(v["case"]["files"][v["case"]["file"]][len(HEADER):])
        print(v.get("reported"))
    for d in res.disagreements[:3]:
        print("=" * 100)
        print(d["case"]["module"][len(HEADER):])
        print(d["diff"])

"""C17 oracle, sub-statement part: which names a walrus of the SAME statement (or of the header of an
enclosing compound statement) has bound when a given load happens.

The statement-level straight-line binder (props/binder.py) answers "bound by a PREVIOUS statement or an
enclosing for / with / except / match / comprehension target". Python's binding rules do not stop at
statement boundaries: `(x := e)` binds `x` the moment it is evaluated, so

  * `(x := e).a`, `(x := e)[0]`, `*(x := e)` — the value whose attribute / item is taken IS the walrus:
    a warning about `x` located on that expression is a warning about a name that has just been bound
    (`walrus_at_chain_base`);
  * `f((x := e), k=x.p)`, `(x := e) and x.p`, `[(x := e), x.p]` — a later operand of the same statement
    (`certain_same_statement`: evaluated before the load in CPython's evaluation order AND textually
    complete before the load AND not under a conditional expression's other arm / inside a
    comprehension or nested scope — only what every reading agrees on);
  * `for t in (x := e): x.p`, `with (x := e) as t: x.p`, `match (x := e): case _: x.p` — the header of an
    enclosing compound statement has been evaluated before its body runs (`header_walruses`; binder.py
    does this for `if` / `while` tests only).

Nothing here looks at what rattr answers.
"""
from __future__ import annotations

import ast

from props import binder

COMPS = (ast.ListComp, ast.SetComp, ast.DictComp, ast.GeneratorExp)


def spine_base(node):
    """the expression at the base of a name chain (`.value` of Attribute / Subscript / Starred, `.func`
    of a Call)."""
    while True:
        if isinstance(node, (ast.Attribute, ast.Subscript, ast.Starred)):
            node = node.value
        elif isinstance(node, ast.Call):
            node = node.func
        else:
            return node


def chain_links(node):
    """number of links between `node` and its spine base."""
    n = 0
    while True:
        if isinstance(node, (ast.Attribute, ast.Subscript, ast.Starred)):
            node = node.value
        elif isinstance(node, ast.Call):
            node = node.func
        else:
            return n
        n += 1


def exprs_at(fn, line, col):
    return [n for n in ast.walk(fn) if isinstance(n, ast.expr) and getattr(n, "lineno", None) == line
            and n.col_offset == col]


def walrus_at_chain_base(fn, line, col, name):
    """a name chain located at (line, col) whose base is `(name := ...)`: (chain node, walrus) or None."""
    best = None
    for n in exprs_at(fn, line, col):
        sb = spine_base(n)
        if sb is not n and isinstance(sb, ast.NamedExpr) and isinstance(sb.target, ast.Name) and sb.target.id == name:
            if best is None or (n.end_lineno, n.end_col_offset) > (best[0].end_lineno, best[0].end_col_offset):
                best = (n, sb)
    return best


def load_node(fn, line, col, name):
    """the `Name(name)` load / del that a diagnostic located at (line, col) talks about: the base of a
    chain starting there."""
    for n in exprs_at(fn, line, col):
        sb = spine_base(n)
        if isinstance(sb, ast.Name) and sb.id == name and not isinstance(sb.ctx, ast.Store):
            return sb
    return None


# ---------------------------------------------------------------------------- evaluation order


def eval_order(node, out):
    """append ('load', Name) / ('bind', NamedExpr) events of `node` in CPython's evaluation order, every
    branch read (straight-line); nested function / lambda / class BODIES are not entered."""
    if node is None:
        return
    E = lambda x: eval_order(x, out)  # noqa: E731
    if isinstance(node, ast.Name):
        if not isinstance(node.ctx, ast.Store):
            out.append(("load", node))
        return
    if isinstance(node, ast.NamedExpr):
        E(node.value)
        out.append(("bind", node))
        return
    if isinstance(node, ast.Lambda):
        for d in [*node.args.defaults, *[k for k in node.args.kw_defaults if k is not None]]:
            E(d)
        return
    if isinstance(node, (ast.FunctionDef, ast.AsyncFunctionDef, ast.ClassDef)):
        return
    if isinstance(node, ast.Dict):
        for k, v in zip(node.keys, node.values):
            E(k)
            E(v)
        return
    if isinstance(node, ast.Call):
        E(node.func)
        for a in node.args:
            E(a)
        for k in node.keywords:
            E(k.value)
        return
    if isinstance(node, COMPS):
        gens = node.generators
        E(gens[0].iter)
        for i, g in enumerate(gens):
            if i:
                E(g.iter)
            E(g.target)
            for c in g.ifs:
                E(c)
        if isinstance(node, ast.DictComp):
            E(node.key)
            E(node.value)
        else:
            E(node.elt)
        return
    if isinstance(node, ast.Assign):
        E(node.value)
        for t in node.targets:
            E(t)
        return
    if isinstance(node, ast.AugAssign):
        E(node.target)
        E(node.value)
        return
    if isinstance(node, ast.AnnAssign):
        E(node.value)
        E(node.target)
        E(node.annotation)
        return
    if isinstance(node, (ast.For, ast.AsyncFor)):
        E(node.iter)
        E(node.target)
        return
    if isinstance(node, (ast.With, ast.AsyncWith)):
        for it in node.items:
            E(it.context_expr)
            E(it.optional_vars)
        return
    if isinstance(node, (ast.If, ast.While)):
        E(node.test)
        return
    if isinstance(node, ast.Match):
        E(node.subject)
        return
    if isinstance(node, (ast.Try, getattr(ast, "TryStar", ast.Try))):
        return
    for c in ast.iter_child_nodes(node):
        if isinstance(c, (ast.expr, ast.keyword, ast.withitem, ast.comprehension)):
            E(c)


def ancestors(pm, node):
    while node in pm:
        node = pm[node]
        yield node


def inside(pm, node, kinds):
    return any(isinstance(a, kinds) for a in ancestors(pm, node))


def field_of(pm, anc, node):
    """name of the field of `anc` under which `node` sits."""
    cur = node
    for a in ancestors(pm, node):
        if a is anc:
            for f, v in ast.iter_fields(anc):
                if v is cur or (isinstance(v, list) and any(x is cur for x in v)):
                    return f
            return None
        cur = a
    return None


def innermost_statement(fn, line, col):
    best = None
    for n in ast.walk(fn):
        if isinstance(n, ast.stmt) and n is not fn and binder.pos_in(n, line, col):
            if best is None or (n.lineno, n.col_offset) >= (best.lineno, best.col_offset):
                best = n
    return best


def certain_same_statement(fn, pm, load):
    """{name: 'walrus'} for the walruses of the innermost statement (its header, for a compound one) that
    have certainly been evaluated when `load` (a Name node) is evaluated."""
    st = innermost_statement(fn, load.lineno, load.col_offset)
    if st is None or isinstance(st, binder.SCOPES):
        return {}
    seq = []
    eval_order(st, seq)
    idx = next((i for i, (k, n) in enumerate(seq) if k == "load" and n is load), None)
    if idx is None:
        return {}
    out = {}
    for k, w in seq[:idx]:
        if k != "bind" or not isinstance(w.target, ast.Name):
            continue
        if (w.end_lineno, w.end_col_offset) > (load.lineno, load.col_offset):
            continue
        skip = False
        for a in ancestors(pm, w):
            if a is st:
                break
            if isinstance(a, COMPS + binder.SCOPES):
                skip = True         # a walrus inside a comprehension / nested scope: judged by the statement-level rules
            # the two arms of one conditional expression never both run
            if isinstance(a, ast.IfExp) and field_of(pm, a, w) == "body" and field_of(pm, a, load) == "orelse":
                skip = True
        if not skip:
            out[w.target.id] = "walrus"
    return out


def possible_same_statement(fn, load_or_node):
    """every name a walrus anywhere in the innermost statement binds (for exemptions from must-warn)."""
    st = innermost_statement(fn, load_or_node.lineno, load_or_node.col_offset)
    if st is None:
        return set()
    return {n.target.id for n in ast.walk(st) if isinstance(n, ast.NamedExpr) and isinstance(n.target, ast.Name)}


def deleted_between(fn, name, start, end):
    for n in ast.walk(fn):
        if isinstance(n, ast.Delete) and start <= (n.lineno, n.col_offset) < end:
            if any(name in binder.target_names(t) for t in n.targets):
                return True
    return False


def header_walruses(fn, line, col):
    """{name: how} bound by a walrus in the header of a compound statement whose BODY holds the position
    (for: iterable and target; with: every item; match: the subject and the guards of the cases read so
    far), unless the name is deleted between that header and the position."""
    out = {}
    for s in ast.walk(fn):
        if not isinstance(s, (ast.For, ast.AsyncFor, ast.With, ast.AsyncWith, ast.Match)) or not binder.pos_in(s, line, col):
            continue
        if isinstance(s, (ast.For, ast.AsyncFor)):
            hdr, blocks = [s.iter, s.target], [s.body, s.orelse]
        elif isinstance(s, (ast.With, ast.AsyncWith)):
            hdr = [x for it in s.items for x in (it.context_expr, it.optional_vars) if x is not None]
            blocks = [s.body]
        else:
            hdr, blocks = [s.subject], []
            for c in s.cases:
                if c.guard is not None and (c.guard.lineno, c.guard.col_offset) < (line, col) and not binder.pos_in(c.guard, line, col):
                    hdr.append(c.guard)
                blocks.append(c.body)
        if not any(binder.pos_in(x, line, col) for b in blocks for x in b):
            continue
        for h in hdr:
            for name, in_comp in binder.walruses(h):
                if not deleted_between(fn, name, (h.end_lineno, h.end_col_offset), (line, col)):
                    out.setdefault(name, "walrus-inside-comprehension" if in_comp else "walrus")
    return out


def bound_for_load(tree, fn, pm, line, col, name):
    """The bound set (name -> construct) for a load of `name` reported at (line, col): the statement-level
    binder + headers of enclosing compound statements + certainly-earlier walruses of the same statement.
    Returns (bound | EXEMPT | None, via) where via says which part supplied `name`."""
    b = binder.bound_at(tree, fn, line, col)
    if b is binder.EXEMPT or b is None:
        return b, None
    if name in b:
        return b, "statement-level"
    hw = header_walruses(fn, line, col)
    if name in hw:
        b[name] = hw[name]
        return b, "header-of-enclosing-statement"
    ld = load_node(fn, line, col, name)
    if ld is not None:
        cs = certain_same_statement(fn, pm, ld)
        if name in cs:
            b[name] = cs[name]
            return b, "earlier-in-the-same-statement"
    return b, None


def same_statement_shape(fn, pm, store_node, line, col, name):
    """syntactic relation between the walrus that bound `name` and the load reported at (line, col), both in
    the same statement: ':<LowestCommonAncestor>.<field of the walrus>-then-<field of the load>'."""
    ld = load_node(fn, line, col, name)
    if store_node is None or ld is None:
        return ""
    anc_w = [store_node, *ancestors(pm, store_node)]
    for a in ancestors(pm, ld):
        if any(a is x for x in anc_w):
            return f":same-statement:{type(a).__name__}.{field_of(pm, a, store_node)}-then-{field_of(pm, a, ld)}"
    return ""

"""C05 — (1) callees reached through RE-EXPORTING modules, (2) one module name in SEVERAL search directories.

(1) Re-export stage.  Generated projects: a package whose `__init__` re-exports functions / a class of its
    sub-modules (absolute or relative `from … import`, one link; through a `mid` sub-module, two links), a
    plain module `relay` re-exporting from the package (a further link), a followed module `helper` whose own
    functions call re-exported names.  The target reaches the names as `from pkg import f`, `pkg.f(…)`,
    `relay.f(…)`, `helper.h(…)`; several target functions call the SAME re-exported name, one function calls it
    with two different argument lists.  Every resolution of a re-export link therefore happens more than once
    in a process: by different functions, in permuted definition orders, with / without unrelated functions
    (which may call the same re-exported name themselves), in a second generation / a second analysis.
      * variants (real `main()` in-process, imports followed): definitions permuted in the target / in the leaf
        module / in the helper; unrelated functions added (calling nothing, or calling the same re-exported name,
        first and last; to the target and to the helper); other callers removed.  Every compared function must
        keep the base project's results; on a difference the base is analysed AGAIN to tell an order dependence
        from a dependence on what the process did before.
      * the same base / variants through the real CLI (fresh process each).
      * histories A,A (as main() and as a library) and A,B,A in ONE fresh interpreter (c05proj.history_run).
      * Tie B with the Lean model `Resolve.resolveImport` (op `c05_reexport`): every call of every analysed file
        whose target is an `Import` symbol is put to the real `find_call_target_and_ir` three times (forwards,
        backwards, forwards); the model — a function of the module table and the symbol — must give each answer.
(2) Shadowed-module stage.  One module name present in two or three search directories with different
    contents (project dir + `$PYTHONPATH` entries + site-packages; module vs package; imported by the target or
    by a followed module), run through the CLI under >= 6 PYTHONHASHSEED values: the documents must be identical,
    and the file that was followed must be the one CPython's own import system finds first (`importlib.util.
    find_spec` in a fresh interpreter with the same cwd / PYTHONPATH) and the one the Lean model
    `Locator.locate` (op `c05_first_dir`, directories in `iter_python_path_dirs` order) takes first.
"""
from __future__ import annotations

import json
import os
import random
import subprocess
import sys
from concurrent.futures import ThreadPoolExecutor
from pathlib import Path

import common
import impl
from props import c05proj as cp

RX_SIG = "results-depend-on-definition-order-or-unrelated-code:re-exported-callee"
RX_HIST_SIG = cp.HIST_SIG + ":re-exported-callee"
SHADOW_SIG = "results-depend-on-hash-seed:module-name-in-several-search-directories"
SHADOW_FIRST_SIG = "followed-module-is-not-the-first-search-directory's-file"

RULE = ("Re-export stage (c05reexport.py): projects whose callees are reached through re-exporting modules (package __init__ "
        "re-exports, absolute / relative, chains of 2 and 3 links, a relay module, a followed helper module calling re-exported "
        "names itself), every link resolved several times per process: by several functions, under permuted definitions, with "
        "unrelated callers of the same re-exported name added / other callers removed, in-process and through the CLI, in "
        "histories A,A / A,B,A of one interpreter; the Lean model resolveImport (op c05_reexport) must reproduce every one of "
        "three rounds of real find_call_target_and_ir queries.  Shadowed-module stage: one module name in 2-3 search "
        "directories (project dir, $PYTHONPATH entries, site-packages; module vs package; imported by the target / by a "
        "followed module) with different contents through the CLI under 6 PYTHONHASHSEED values: identical documents, and the "
        "followed file is the first directory's (CPython's find_spec and the Lean model Locator.locate agree on which).")


# ------------------------------------------------------------------ files


def write_tree(d: Path, files):
    """replace every .py file below d (the history driver excepted) by `files` (relative paths, may be nested)."""
    for old in sorted(d.rglob("*.py")):
        if old.name != cp.DRIVER_NAME:
            old.unlink()
    for fn, content in files.items():
        p = d / fn
        p.parent.mkdir(parents=True, exist_ok=True)
        p.write_text(content)


# ------------------------------------------------------------------ (1) the generator


class RxFn:
    def __init__(self, name, params, lines):
        self.name, self.params, self.lines = name, list(params), list(lines)

    def source(self):
        return f"def {self.name}({', '.join(self.params)}):\n" + "".join(f"    {l}\n" for l in (self.lines or ["pass"]))


class RxProject:
    """tag: unique per project and process (module names are never reused: a per-process memory keyed by
    qualified names must not make one project hide the next)."""

    def __init__(self, tag):
        self.tag = tag
        self.fixed = {}             # files that never vary
        self.target_header = []
        self.target_defs = []       # RxFn / raw str
        self.leaf_header = ""
        self.leaf_defs = []         # source chunks of pkg/impl.py
        self.helper_header = []
        self.helper_defs = []       # RxFn of helper.py
        self.features = set()
        self.spell = {}             # exported name -> how the target spells it
        self.arity = {}
        self.shared = None          # the re-exported name several functions call
        self.helper_shared = None   # the re-exported name the helper's functions call (bare, inside the helper)

    def files(self, target=None, leaf=None, helper=None):
        t, pk, hp = self.tag, f"pk{self.tag}", f"hp{self.tag}"
        out = dict(self.fixed)
        tdefs = self.target_defs if target is None else target
        out["target.py"] = "\n".join(self.target_header) + "\n\n" + "\n".join(
            d if isinstance(d, str) else d.source() for d in tdefs)
        out[f"{pk}/impl.py"] = self.leaf_header + "\n".join(self.leaf_defs if leaf is None else leaf)
        hdefs = self.helper_defs if helper is None else helper
        out[f"{hp}.py"] = "\n".join(self.helper_header) + "\n\n" + "\n".join(
            d if isinstance(d, str) else d.source() for d in hdefs)
        return out


_COUNTER = [0]


def fresh_tag(seed):
    _COUNTER[0] += 1
    return f"s{seed}n{_COUNTER[0]}"


def gen_project(rng: random.Random, tag) -> RxProject:
    p = RxProject(tag)
    pk, rl, hp = f"pk{tag}", f"rl{tag}", f"hp{tag}"
    n = [0]

    def attr():
        n[0] += 1
        return f"a{n[0]}"

    def access(q):
        k = rng.choice(["get", "get", "set", "del", "deep"])
        return {"get": f"{q}.{attr()}", "set": f"{q}.{attr()} = 1", "del": f"del {q}.{attr()}", "deep": f"{q}.{attr()}.{attr()}"}[k]

    # ---- leaves of pkg/impl.py
    leaves = []
    for i in range(rng.randint(2, 3)):
        ps = [f"l{i}{c}" for c in "ab"[: rng.randint(1, 2)]]
        f = RxFn(f"{tag}_leaf{i}", ps, [access(q) for q in ps] + [f"return {ps[0]}.{attr()}"])
        leaves.append(f)
        p.arity[f.name] = len(ps)
    p.leaf_defs = [f.source() for f in leaves]
    exported = [f.name for f in leaves]
    has_class = rng.random() < 0.5
    if has_class:
        cname = f"K{tag}"
        p.leaf_defs.insert(rng.randint(0, len(p.leaf_defs)),
                           f"class {cname}:\n    def __init__(self, ka):\n        self.held = ka.{attr()}\n")
        exported.append(cname)
        p.arity[cname] = 1
        p.features.add("re-exported-class")
    # ---- two links: pkg/__init__ -> pkg/mid -> pkg/deep
    deep = RxFn(f"{tag}_deep", ["dz"], [access("dz"), f"return dz.{attr()}"])
    p.arity[deep.name] = 1
    rel = rng.random() < 0.5
    p.features.add("relative-re-export" if rel else "absolute-re-export")
    frm = (lambda sub: f".{sub}") if rel else (lambda sub: f"{pk}.{sub}")
    p.fixed[f"{pk}/deep.py"] = deep.source()
    p.fixed[f"{pk}/mid.py"] = f"from {frm('deep')} import {deep.name}\n"
    init_lines = [f"from {frm('impl')} import {', '.join(exported)}", f"from {frm('mid')} import {deep.name}"]
    rng.shuffle(init_lines)
    p.fixed[f"{pk}/__init__.py"] = "\n".join(init_lines) + "\n"
    # ---- a relay module: one more link
    relayed = [leaves[0].name, deep.name]
    p.fixed[f"{rl}.py"] = f"from {pk} import {', '.join(relayed)}\n"
    # ---- the names as the target spells them
    p.target_header = [f"import {pk}", f"import {rl}", f"import {hp}"]
    bare = []
    for e in exported + [deep.name]:
        if rng.random() < 0.6:
            bare.append(e)
            p.spell[e] = e
        else:
            p.spell[e] = f"{pk}.{e}"
    p.shared = rng.choice([f.name for f in leaves])
    if rng.random() < 0.7 and p.shared not in bare:
        bare.append(p.shared)
        p.spell[p.shared] = p.shared
    if bare:
        p.target_header.insert(rng.randint(0, 3), f"from {pk} import {', '.join(bare)}")
    p.features.add("shared-name-spelt:" + ("bare" if p.spell[p.shared] == p.shared else "dotted"))
    # ---- the helper (a followed module with callers of its own)
    p.helper_shared = rng.choice([f.name for f in leaves])
    h_imports = sorted({p.helper_shared, deep.name})
    p.helper_header = [f"from {pk} import {', '.join(h_imports)}"]

    def call(spelling, name, args):
        return f"{spelling}({', '.join(args[: p.arity[name]] if len(args) >= p.arity[name] else (args * 2)[: p.arity[name]])})"

    h0 = RxFn(f"{tag}_h0", ["h0a", "h0b"], [access("h0a"), "return " + call(p.helper_shared, p.helper_shared, ["h0a", "h0b"])])
    h1 = RxFn(f"{tag}_h1", ["h1a", "h1b"], [call(p.helper_shared, p.helper_shared, ["h1b", "h1a"]), access("h1b"),
                                           "return " + call(deep.name, deep.name, ["h1a"])])
    p.helper_defs = [h0, h1]
    p.arity[h0.name] = p.arity[h1.name] = 2
    # ---- the target's functions
    S = p.shared
    defs = []

    def caller(i, lines):
        return RxFn(f"{tag}_c{i}", [f"c{i}a", f"c{i}b"], lines)

    defs.append(caller(0, [access("c0a"), "return " + call(p.spell[S], S, ["c0a", "c0b"])]))
    defs.append(caller(1, ["return " + call(p.spell[S], S, ["c1b", "c1a"])]))
    defs.append(caller(2, [call(p.spell[S], S, ["c2a", "c2a"]), access("c2b"), "return " + call(p.spell[S], S, ["c2b", "c2b"])]))
    defs.append(caller(3, [call(p.spell[deep.name], deep.name, ["c3a"]), "return " + call(f"{rl}.{leaves[0].name}", leaves[0].name, ["c3b", "c3a"])]))
    defs.append(caller(4, [call(f"{hp}.{h0.name}", h0.name, ["c4a", "c4b"]), access("c4a")]))
    defs.append(caller(5, [call(f"{hp}.{h1.name}", h1.name, ["c5b", "c5a"]), "return " + call(f"{rl}.{deep.name}", deep.name, ["c5a"])]))
    if has_class:
        defs.append(caller(6, [f"inst = {p.spell[cname]}(c6a)", "return inst"]))
        defs.append(caller(7, [f"return {p.spell[cname]}(c7b)"]))
    for i in range(8, 8 + rng.randint(0, 2)):
        e = rng.choice(exported[: len(leaves)] + [deep.name])
        defs.append(caller(i, [access(f"c{i}b"), "return " + call(p.spell[e], e, [f"c{i}a", f"c{i}b"])]))
    # ---- siblings that do NOT resolve (the other exits of resolve_import): a name the package does not have, a
    # re-exported name imported under an alias (looked up under the alias in the package: not found)
    if rng.random() < 0.6:
        defs.append(caller(10, [access("c10a"), f"return {pk}.{tag}_absent(c10b)"]))
        defs.append(caller(11, [f"return {pk}.{tag}_absent(c11a)"]))
        p.features.add("absent-name-of-the-package")
    if rng.random() < 0.6:
        al = f"{tag}_alias"
        p.target_header.append(f"from {pk} import {leaves[-1].name} as {al}")
        defs.append(caller(12, ["return " + call(al, leaves[-1].name, ["c12a", "c12b"])]))
        defs.append(caller(13, [access("c13b"), "return " + call(al, leaves[-1].name, ["c13b", "c13a"])]))
        p.features.add("re-exported-name-under-an-alias")
    rng.shuffle(defs)
    p.target_defs = defs
    return p


def rx_variants(rng, p: RxProject):
    """[(kind, files, compared names or None)]"""
    out = []
    tdefs = p.target_defs
    S, spell = p.shared, p.spell[p.shared]

    def perm(xs):
        ys = list(xs)
        rng.shuffle(ys)
        return ys

    out.append(("perm:target", p.files(target=perm(tdefs)), None))
    out.append(("perm:target", p.files(target=list(reversed(tdefs))), None))
    out.append(("perm:leaf-module", p.files(leaf=list(reversed(p.leaf_defs))), None))
    out.append(("perm:helper-module", p.files(helper=list(reversed(p.helper_defs))), None))
    out.append(("perm:all", p.files(target=perm(tdefs), leaf=perm(p.leaf_defs), helper=list(reversed(p.helper_defs))), None))
    args = ", ".join(["zu"] * p.arity[S])
    unrelated_caller = f"def zz_unrelated(zu):\n    return {spell}({args})\n"
    out.append(("added:target:caller-of-the-same-re-exported-name:first", p.files(target=[unrelated_caller] + tdefs), None))
    out.append(("added:target:caller-of-the-same-re-exported-name:last", p.files(target=tdefs + [unrelated_caller]), None))
    out.append(("added:target:fresh-function", p.files(target=["def zz_fresh(zf):\n    return zf.fresh_attr\n"] + tdefs), None))
    hargs = ", ".join(["zh"] * p.arity[p.helper_shared])
    helper_caller = f"def zz_unrelated_in_helper(zh):\n    return {p.helper_shared}({hargs})\n"
    out.append(("added:helper-module:caller-of-the-same-re-exported-name:first", p.files(helper=[helper_caller] + p.helper_defs), None))
    # a function calls none of the other target functions: each of them alone must give the same
    fns = [d for d in tdefs if isinstance(d, RxFn)]
    root = fns[-1] if fns[-1].name != fns[0].name else fns[0]
    out.append(("removed:every-other-caller", p.files(target=[root]), [root.name]))
    out.append(("removed:first-definition", p.files(target=tdefs[1:]), [d.name for d in tdefs[1:]]))
    return out


# ------------------------------------------------------------------ Tie B: resolve_import, asked three times

WHY = [("it is likely ignored", "likely-ignored"), ("it is a method", "is-method"),
       ("it is likely undefined", "likely-undefined"), ("ignoring call to", "ignored")]


def resolution_rounds(d: Path):
    """Analyse d/target.py (imports followed) and put every call whose target is an Import symbol to the real
    find_call_target_and_ir: forwards, backwards, forwards.  Returns (model request, calls, [round answers])."""
    from rattr.analyser import file as F
    from rattr.config import Config
    from rattr.models.symbol import Import
    from rattr.module_locator.util import module_exists
    from rattr.results import IrCall, IrEnvironment, find_call_target_and_ir
    from props import c06

    with impl.in_dir(str(d)):
        impl.reset_config(target=Path("target.py"))
        with impl.Tap():
            out = impl.outcome_of(F.parse_and_analyse_file)
        if out[0] != "ok":
            return None
        file_ir, import_irs, _ = out[1]
        env = IrEnvironment(target_ir=file_ir, import_irs=import_irs)
        calls, quals = [], set()
        for where, ir in [("target", file_ir)] + list(import_irs.items()):
            for s in ir.context.symbol_table.symbols:
                if isinstance(s, Import):
                    quals.add(s.qualified_name)
            for caller in ir:
                for c in sorted(ir[caller]["calls"], key=lambda c: (c.name, list(c.args.args))):
                    if isinstance(c.target, Import):
                        quals.add(c.target.qualified_name)
                        calls.append((where, caller, c))
        cands = set()
        for q in quals:
            parts = q.split(".")
            cands.update(".".join(parts[:i]) for i in range(1, len(parts) + 1))
        existing = sorted(c for c in cands if c and module_exists(c))
        patterns = sorted(Config().blacklist_patterns)
        world = {"existing": existing, "ignored": [],
                 "blacklist": {"patterns": patterns, "facts": [c06.name_facts(n) for n in existing]},
                 "irs": [[name, [c06.msym_json(s, ir) for s in ir.context.symbol_table.symbols]] for name, ir in import_irs.items()]}

        def ask(where, caller, c):
            with impl.Tap() as tap:
                o = impl.outcome_of(find_call_target_and_ir, IrCall(caller=caller, symbol=c), environment=env)
            if o[0] == "ok" and o[1] is not None:
                modname = next((nm for nm, mir in import_irs.items() if o[1].symbol in mir and mir[o[1].symbol] is o[1].ir), "?")
                return ["found", modname, {"Func": "func", "Class": "cls"}.get(type(o[1].symbol).__name__, "?"), o[1].symbol.name]
            if o[0] == "ok":
                msg = tap.events[-1]["message"] if tap.events else ""
                return ["none", next((w for pat, w in WHY if pat in msg), "?:" + msg[-60:])]
            return [str(o[1]) if o[0] == "crash" else "fatal"]

        rounds = []
        for order in (range(len(calls)), reversed(range(len(calls))), range(len(calls))):
            ans = {i: ask(*calls[i]) for i in order}
            rounds.append([ans[i] for i in range(len(calls))])
        req = {**world, "fuel": 64, "queries": [[c.target.name, c.target.qualified_name] for _, _, c in calls]}
        desc = [{"in": w, "caller": caller.name, "call": c.name, "import": [c.target.name, c.target.qualified_name]} for w, caller, c in calls]
    return req, desc, rounds


def canon_outcome(mo):
    k = mo.get("k")
    if k == "found":
        return ["found", mo["module"], mo["sym"]["k"], mo["sym"]["name"]]
    if k == "none":
        return ["none", mo["why"]]
    return [k]


# ------------------------------------------------------------------ (1) the stage


def _diff(b, v, compared):
    names = compared if compared is not None else list(b["doc"])
    return [x for x in names if v["doc"].get(x) != b["doc"].get(x)]


def _cli(d: Path, hashseed, pythonpath=()):
    env = dict(os.environ, PYTHONHASHSEED=str(hashseed), PYTHONDONTWRITEBYTECODE="1")
    if pythonpath:
        env["PYTHONPATH"] = os.pathsep.join([x for x in [os.environ.get("PYTHONPATH", "")] if x] + [str(x) for x in pythonpath])
    p = subprocess.run([sys.executable, "-m", "rattr", *cp.argv_for("target.py", 1)], cwd=str(d), env=env,
                       capture_output=True, text=True, timeout=300)
    if p.returncode != 0:
        return {"outcome": f"exit:{p.returncode}", "doc": None, "stderr": p.stderr[-400:]}
    try:
        return {"outcome": "ok", "doc": cp.doc_of(p.stdout)}
    except Exception:  # noqa
        return {"outcome": "unparseable", "doc": None}


def reexport_stage(res, rng, seed, n_proj, n_cli, n_hist, model, tp, hashseed, ex):
    # every project is built twice from one sub-seed, under two tags (= two sets of module names): the copy the
    # resolver is queried on directly shares no qualified name with the copy main() analyses
    subs = [rng.getrandbits(32) for _ in range(n_proj)]
    projects = [gen_project(random.Random(k), fresh_tag(seed)) for k in subs]
    twins = [gen_project(random.Random(k), fresh_tag(seed)) for k in subs]
    batch, bmeta = [], []
    cli_jobs, hist_jobs = [], []
    for pi, p in enumerate(projects):
        files = p.files()
        d = tp.new(None)
        write_tree(d, files)
        variants = rx_variants(rng, p)
        # ---- out-of-process work is queued first (its directories are private copies)
        if pi < n_cli:
            for kind, vfiles, compared in [("base", files, None)] + [v for v in variants if v[0] in (
                    "perm:target", "added:target:caller-of-the-same-re-exported-name:first", "removed:every-other-caller")][:4]:
                dd = tp.new(None)
                write_tree(dd, vfiles)
                cli_jobs.append((pi, kind, vfiles, compared, dd, ex.submit(_cli, dd, hashseed)))
                if kind == "base":
                    for other in (hashseed + 1, hashseed + 7):
                        cli_jobs.append((pi, f"hashseed:{other}", vfiles, None, dd, ex.submit(_cli, dd, other)))
        if pi < n_hist:
            dd = tp.new(None)
            hf = dict(files)
            hf["target_a.py"] = hf.pop("target.py")
            hf["target_b.py"] = variants[1][1]["target.py"]
            write_tree(dd, hf)
            for style, hist in (("main", ("target_a.py", "target_a.py")), ("library", ("target_a.py", "target_a.py")),
                                ("main", ("target_a.py", "target_b.py", "target_a.py"))):
                hist_jobs.append((pi, hf, dd, style, hist, ex.submit(cp.history_run, dd, hist, style=style, hashseed=hashseed)))
        # ---- Tie B on a copy analysed nowhere else in this process
        dd = tp.new(None)
        tfiles = twins[pi].files()
        write_tree(dd, tfiles)
        rr = resolution_rounds(dd)
        res.evaluations += 1
        if rr is None:
            res.internal_errors.append({"what": "re-export project failed to analyse", "files": tfiles})
        else:
            req, desc, rounds = rr
            batch.append(("c05_reexport", req))
            bmeta.append((tfiles, desc, rounds))
            res.count("reexport:resolutions", 3 * len(desc))
            for i, dsc in enumerate(desc):
                if rounds[1][i] != rounds[0][i] or rounds[2][i] != rounds[0][i]:
                    res.count("reexport:resolution-differs-when-asked-again")
                    res.violations.append({"signature": RX_HIST_SIG + ":the-same-call-resolves-differently-when-resolved-again",
                                           "case": {"stage": "reexport:resolution", "files": tfiles, "call": dsc},
                                           "answers": [r[i] for r in rounds]})
                    break
        # ---- in-process: base, variants
        b = cp.run_main(d)
        res.evaluations += 1
        res.count("reexport:projects")
        for f in p.features:
            res.count("reexport:feature:" + f)
        if b["outcome"] != "ok":
            res.internal_errors.append({"what": "re-export base project is not analysed", "outcome": b["outcome"], "files": files})
            continue
        res.nontrivial.add(common.digest(files))
        for kind, vfiles, compared in variants:
            write_tree(d, vfiles)
            v = cp.run_main(d)
            res.evaluations += 1
            case = {"stage": "reexport:in-process", "variant": kind, "base_files": files, "files": vfiles, "features": sorted(p.features)}
            if v["outcome"] != b["outcome"]:
                res.count("reexport:outcome-differs")
                res.violations.append({"signature": f"{RX_SIG}:{kind}:outcome", "case": case, "outcomes": [b["outcome"], v["outcome"]]})
                continue
            diff = _diff(b, v, compared)
            k0 = kind.split(":")[0]
            if not diff:
                res.count(f"reexport:{k0}:same")
                continue
            # order / unrelated code, or what the process did before?  Analyse the base once more.
            write_tree(d, files)
            b2 = cp.run_main(d)
            again = b2["outcome"] != b["outcome"] or bool(_diff(b, b2, None))
            res.count(f"reexport:{k0}:differs")
            sig = (RX_HIST_SIG + ":same-project-again-in-process") if again else f"{RX_SIG}:{kind}"
            res.violations.append({"signature": sig, "case": case, "functions": diff,
                                   "base": {x: b["doc"].get(x) for x in diff[:4]},
                                   "variant": {x: v["doc"].get(x, "<not reported at all>") for x in diff[:4]},
                                   "base_analysed_again_differs": again})
            break       # one replay per project is enough
    # ---- the model
    for (files, desc, rounds), mo in zip(bmeta, model.batch(batch)):
        if not isinstance(mo, list):
            res.disagreements.append({"case": {"stage": "reexport:resolution", "files": files}, "model": mo})
            continue
        want = [canon_outcome(x) for x in mo]
        for ri, rnd in enumerate(rounds):
            bad = [i for i in range(len(desc)) if rnd[i] != want[i]]
            if bad:
                res.disagreements.append({"case": {"stage": "reexport:resolution", "round": ri, "files": files},
                                          "calls": [desc[i] for i in bad[:4]], "impl": [rnd[i] for i in bad[:4]],
                                          "model": [want[i] for i in bad[:4]]})
                break
        for w in want:
            res.count("reexport:model:" + w[0] + (":" + w[1] if w[0] == "none" else ""))
    # ---- out of process
    base = {}
    for (pi, kind, vfiles, compared, dd, fut) in cli_jobs:
        o = fut.result()
        res.evaluations += 1
        if kind == "base":
            base[pi] = (vfiles, o)
            if o["outcome"] != "ok":
                res.internal_errors.append({"what": "re-export base project fails through the CLI", "cli": o, "files": vfiles})
            continue
        if pi not in base or base[pi][1]["outcome"] != "ok":
            continue
        files, b = base[pi]
        case = {"stage": "reexport:command-line", "variant": kind, "base_files": files, "files": vfiles, "hashseed": hashseed}
        if kind.startswith("hashseed:"):
            if (o["outcome"], o["doc"]) == (b["outcome"], b["doc"]):
                res.count("reexport:cli:hashseed:same")
            else:
                res.count("reexport:cli:hashseed:differs")
                res.violations.append({"signature": "results-depend-on-hash-seed:re-exported-callee",
                                       "case": {"stage": "reexport:hash-seeds", "files": files, "hashseeds": [hashseed, int(kind.split(":")[1])]},
                                       "functions": _diff(b, o, None)[:6] if o["doc"] else [], "outcomes": [b["outcome"], o["outcome"]]})
            continue
        if o["outcome"] != "ok":
            res.violations.append({"signature": f"{RX_SIG}:{kind}:outcome", "case": case, "outcomes": ["ok", o["outcome"]]})
            continue
        diff = _diff(b, o, compared)
        if not diff:
            res.count("reexport:cli:same")
            continue
        res.count("reexport:cli:differs")
        res.violations.append({"signature": f"{RX_SIG}:{kind}", "case": case, "functions": diff,
                               "base": {x: b["doc"].get(x) for x in diff[:4]},
                               "variant": {x: o["doc"].get(x, "<not reported at all>") for x in diff[:4]}})
    by = {}
    for (pi, hf, dd, style, hist, fut) in hist_jobs:
        by.setdefault(pi, (hf, {}))[1][(style, hist)] = fut.result()
    for pi, (hf, runs) in by.items():
        viol, errs, n = cp.judge_history(f"reexport-project{pi}", hf, runs)
        res.evaluations += n
        res.count("reexport:history:steps", n)
        res.internal_errors.extend(errs)
        for v in viol:
            v["signature"] = v["signature"].replace(cp.HIST_SIG, RX_HIST_SIG)
            v["case"]["stage"] = "reexport:history"
            res.count("reexport:history:differs")
        res.violations.extend(viol[:2])


# ------------------------------------------------------------------ (2) one module name in several search directories


SITE_PACKAGES_NAMES = ["iniconfig", "pluggy"]     # installed (pip) top-level packages rattr itself never imports


def shadow_body(fn, param, marker):
    return f"def {fn}({param}):\n    return {param}.{marker}\n"


class ShadowCase:
    def __init__(self, layout, name):
        self.layout, self.name = layout, name
        self.project = {}           # files of the project directory (cwd, sys.path[0])
        self.vendors = []           # [files] of each $PYTHONPATH entry, in order
        self.markers = {}           # marker attribute -> "project" / "pythonpath:<i>"
        self.site_packages = False  # the name also exists in site-packages (no marker: pip modules are not followed)
        self.locate = name          # the dotted module name the import statement asks for


def shadow_cases(rng, seed, quick):
    t = fresh_tag(seed)
    out = []

    def mk(layout, in_project, n_vendor, project_pkg=False, vendor_pkg=False, via=None, name=None, form="import", sub=None):
        name = name or f"helpers_{t}_{len(out)}"
        c = ShadowCase(layout, name)
        fn = f"normalise_{len(out)}"
        importer = "target.py"
        mod = f"{name}.{sub}" if sub else name
        stmt, spelt = {"import": (f"import {mod}", f"{mod}.{fn}"), "from": (f"from {mod} import {fn}", fn),
                       "star": (f"from {mod} import *", fn), "alias": (f"import {mod} as shadowed", f"shadowed.{fn}")}[form]
        c.project["target.py"] = f"{stmt}\n\ndef label(entry):\n    return {spelt}(entry)\n\ndef other(thing):\n    return thing.plain\n"
        if via:
            c.project["target.py"] = f"import {via}\n\ndef label(entry):\n    return {via}.relabel(entry)\n"
            c.project[f"{via}.py"] = f"from {name} import {fn}\n\ndef relabel(item):\n    return {fn}(item)\n"
            importer = f"{via}.py"
        if in_project:
            m = f"from_project_dir_{len(out)}"
            if sub:
                c.project[f"{name}/__init__.py"] = ""
                c.project[f"{name}/{sub}.py"] = shadow_body(fn, "pe", m)
            else:
                c.project[(f"{name}/__init__.py" if project_pkg else f"{name}.py")] = shadow_body(fn, "pe", m)
            c.markers[m] = "project"
        for i in range(n_vendor):
            m = f"from_pythonpath_entry{i}_{len(out)}"
            if sub:
                c.vendors.append({f"{name}/__init__.py": "", f"{name}/{sub}.py": shadow_body(fn, f"v{i}e", m)})
            else:
                c.vendors.append({(f"{name}/__init__.py" if vendor_pkg else f"{name}.py"): shadow_body(fn, f"v{i}e", m)})
            c.markers[m] = f"pythonpath:{i}"
        c.locate = mod
        c.importer = importer
        out.append(c)
        return c

    mk("project-dir+pythonpath", True, 1)
    mk("project-dir+two-pythonpath-entries", True, 2)
    mk("two-pythonpath-entries", False, 2)
    mk("package-in-project-dir+module-on-pythonpath", True, 1, project_pkg=True)
    mk("module-in-project-dir+package-on-pythonpath", True, 1, vendor_pkg=True)
    mk("imported-by-a-followed-module:project-dir+pythonpath", True, 1, via=f"via_{t}")
    mk("from-import:project-dir+pythonpath", True, 1, form="from")
    mk("star-import:project-dir+two-pythonpath-entries", True, 2, form="star")
    mk("aliased-import:two-pythonpath-entries", False, 2, form="alias")
    mk("submodule-of-a-package-in-both:project-dir+pythonpath", True, 1, form="from", sub="part")
    sp = mk("project-dir+site-packages", True, 0, name=rng.choice(SITE_PACKAGES_NAMES))
    sp.site_packages = True
    sp2 = mk("project-dir+pythonpath+site-packages", True, 1, name=rng.choice(SITE_PACKAGES_NAMES))
    sp2.site_packages = True
    if quick:
        fixed = [out[0], out[5], out[-1]]
        rest = [c for c in out if c not in fixed]
        rng.shuffle(rest)
        out = fixed + rest[:1]
    return out


def site_packages_dirs():
    import site
    return [Path(x) for x in site.getsitepackages()]


def materialise(tp, c: ShadowCase):
    d = tp.new(None)
    write_tree(d, c.project)
    vds = []
    for i, vf in enumerate(c.vendors):
        vd = d.parent / f"{d.name}-vendor{i}"
        vd.mkdir()
        write_tree(vd, vf)
        vds.append(vd)
    return d, vds


def cpython_first(d: Path, vds, name):
    """which file CPython's import system finds for `name` with cwd = d and the $PYTHONPATH entries vds"""
    env = dict(os.environ, PYTHONDONTWRITEBYTECODE="1")
    env["PYTHONPATH"] = os.pathsep.join([x for x in [os.environ.get("PYTHONPATH", "")] if x] + [str(x) for x in vds])
    code = "import importlib.util,sys; s=importlib.util.find_spec(sys.argv[1]); print(s.origin if s else '')"
    p = subprocess.run([sys.executable, "-c", code, name], cwd=str(d), env=env, capture_output=True, text=True, timeout=60)
    return p.stdout.strip()


def winner_of(c: ShadowCase, doc):
    """which directory's file was followed, read off the attribute names in label's results"""
    if doc is None or "label" not in doc:
        return "?"
    hit = sorted({where for m, where in c.markers.items() if any(g.endswith("." + m) for g in doc["label"]["gets"])})
    if len(hit) == 1:
        return hit[0]
    return "none-followed" if not hit else "several:" + "+".join(hit)


def rel_files(root: Path, name):
    """the files of a search directory that matter for `name` (as segment lists), by a plain directory walk"""
    out = []
    top = root / name
    if top.is_dir():
        for f in sorted(top.rglob("*.py"))[:50]:
            out.append(list(f.relative_to(root).parts))
    if (root / f"{name}.py").is_file():
        out.append([f"{name}.py"])
    return out


def shadow_start(rng, seed, quick, tp, hashseeds, ex):
    """materialise the cases and start their out-of-process runs"""
    cases = shadow_cases(rng, seed, quick)
    mats = [materialise(tp, c) for c in cases]
    jobs = [(ci, hs, ex.submit(_cli, mats[ci][0], hs, pythonpath=mats[ci][1])) for ci in range(len(cases)) for hs in hashseeds]
    firsts = [ex.submit(cpython_first, mats[ci][0], mats[ci][1], cases[ci].locate) for ci in range(len(cases))]
    return cases, mats, jobs, firsts


def shadow_stage(res, rng, seed, quick, model, tp, hashseeds, ex=None, started=None):
    if started is None:
        with ThreadPoolExecutor(max_workers=16) as own:
            started = shadow_start(rng, seed, quick, tp, hashseeds, own)
            return shadow_stage(res, rng, seed, quick, model, tp, hashseeds, started=started)
    cases, mats, jobs, firsts = started
    firsts = [f.result() for f in firsts]
    by = {}
    for ci, hs, fut in jobs:
        by.setdefault(ci, []).append((hs, fut.result()))
    # the search directories in the order of iter_python_path_dirs (Tie A of C13 pins it): cwd, rattr's root, sys.path[1:]
    from rattr.module_locator import _locate as L
    sp_dirs = site_packages_dirs()
    batch = []
    for ci, c in enumerate(cases):
        d, vds = mats[ci]
        roots = [("project", d), ("rattr-root", Path(L.rattr_root))] + [(f"pythonpath:{i}", v) for i, v in enumerate(vds)] \
            + [("site-packages", s) for s in sp_dirs]
        c.roots = roots
        batch.append(("c05_first_dir", {"roots": [rel_files(r, c.name) for _, r in roots], "names": [c.locate.split(".")]}))
    mouts = model.batch(batch)
    for ci, c in enumerate(cases):
        d, vds = mats[ci]
        runs = by[ci]
        res.evaluations += len(runs)
        res.count("shadowed-module:layout:" + c.layout)
        files = {"project": c.project, "pythonpath": c.vendors, "site_packages": c.site_packages}
        case = {"stage": "shadowed-module", "layout": c.layout, "module": c.locate, "files": files, "hashseeds": list(hashseeds)}
        res.nontrivial.add(common.digest(files))
        # -- the independent oracle and the model agree on the first directory
        origin = firsts[ci]
        py_first = next((lab for lab, r in c.roots if origin and Path(origin).resolve().is_relative_to(r.resolve())), "?")
        mo = mouts[ci]
        if not isinstance(mo, list) or not mo or not mo[0]:
            res.disagreements.append({"case": case, "model": mo, "what": "the model finds the module in no search directory"})
            continue
        m_first = c.roots[mo[0][0][0]][0]
        if m_first != py_first:
            res.internal_errors.append({"what": "Locator.locate and CPython's find_spec disagree on the first search directory",
                                        "case": case, "model": m_first, "cpython": [py_first, origin]})
            continue
        res.count("shadowed-module:hits:" + str(len(mo[0])))
        expected = m_first if m_first != "site-packages" else "none-followed"
        docs = {common.canon((o["outcome"], o["doc"])) for _, o in runs}
        winners = {hs: winner_of(c, o["doc"]) for hs, o in runs}
        if any(o["outcome"] != "ok" for _, o in runs) and len(docs) == 1:
            res.internal_errors.append({"what": "shadowed-module project fails through the CLI", "case": case, "cli": runs[0][1]})
            continue
        if len(docs) != 1:
            res.count("shadowed-module:differs-between-hash-seeds")
            res.violations.append({"signature": f"{SHADOW_SIG}:{c.layout}", "case": case,
                                   "followed_by_hashseed": {str(h): w for h, w in sorted(winners.items())},
                                   "label_by_hashseed": {str(h): (o["doc"] or {}).get("label") for h, o in runs[:6]}})
            continue
        w = next(iter(winners.values()))
        if w != expected:
            res.count("shadowed-module:not-the-first-directory")
            res.disagreements.append({"case": case, "impl": w, "model": expected})
            res.violations.append({"signature": f"{SHADOW_FIRST_SIG}:{c.layout}", "case": case, "followed": w,
                                   "first_search_directory": expected, "cpython_origin": origin})
            continue
        res.count("shadowed-module:same:" + w)
        # -- in-process (this interpreter's hash seed), $PYTHONPATH entries put where the interpreter puts them
        old = sys.path[:]
        try:
            sys.path[1:1] = [str(v) for v in vds]
            ip = cp.run_main(d)
        finally:
            sys.path[:] = old
        res.evaluations += 1
        if ip["outcome"] != "ok" or winner_of(c, ip["doc"]) != expected:
            res.count("shadowed-module:in-process:not-the-first-directory")
            res.disagreements.append({"case": case, "impl": winner_of(c, ip["doc"]), "model": expected, "where": "in-process"})
            res.violations.append({"signature": f"{SHADOW_FIRST_SIG}:{c.layout}", "case": {**case, "stage": "shadowed-module:in-process"},
                                   "followed": winner_of(c, ip["doc"]), "first_search_directory": expected})


# ------------------------------------------------------------------ replay


def replay_case(case):
    tp = cp.TempProjects()
    try:
        st = case.get("stage", "")
        if st.startswith("shadowed-module"):
            c = ShadowCase(case["layout"], case["module"])
            c.project, c.vendors = case["files"]["project"], case["files"]["pythonpath"]
            d, vds = materialise(tp, c)
            print("---- re-run through the CLI: cwd =", d, " PYTHONPATH +=", [str(v) for v in vds])
            for hs in case.get("hashseeds", range(6)):
                o = _cli(d, hs, pythonpath=vds)
                print("PYTHONHASHSEED", hs, o["outcome"], "label:", (o["doc"] or {}).get("label"))
            print("CPython finds", case["module"], "at", cpython_first(d, vds, case["module"]))
        elif st == "reexport:resolution":
            d = tp.new(None)
            write_tree(d, case["files"])
            req, desc, rounds = resolution_rounds(d)
            for i, dsc in enumerate(desc):
                print(dsc, "->", [r[i] for r in rounds])
        elif st == "reexport:hash-seeds":
            d = tp.new(None)
            write_tree(d, case["files"])
            for hs in case["hashseeds"]:
                o = _cli(d, hs)
                print("---- PYTHONHASHSEED", hs, o["outcome"])
                for fn, r in sorted((o["doc"] or {}).items()):
                    print("  ", fn, r["gets"], r["sets"], r["dels"])
        elif st == "reexport:command-line":
            for which in ("base_files", "files"):
                d = tp.new(None)
                write_tree(d, case[which])
                o = _cli(d, case.get("hashseed", 0))
                print("----", which, o["outcome"])
                for fn, r in sorted((o["doc"] or {}).items()):
                    print("  ", fn, r["gets"], r["sets"], r["dels"])
        elif st == "reexport:in-process":
            d = tp.new(None)
            write_tree(d, case["base_files"])
            b = cp.run_main(d)
            write_tree(d, case["files"])
            v = cp.run_main(d)
            print("---- re-run in ONE process: base, then variant", case.get("variant"), b["outcome"], v["outcome"])
            for fn in sorted(set(b["doc"] or {}) & set(v["doc"] or {})):
                if b["doc"][fn] != v["doc"][fn]:
                    print(fn, "\n  base   :", b["doc"][fn], "\n  variant:", v["doc"][fn])
        elif st == "reexport:history":
            d = tp.new(None)
            write_tree(d, case["files"])
            out = cp.history_run(d, case["history"], style=case.get("style", "main"))
            fresh = cp.history_run(d, [case["history"][case["step"]]], style="main")
            a, b = out["steps"][case["step"]]["doc"], fresh["steps"][0]["doc"]
            print("---- re-run: step", case["step"], "of", case["history"], "vs the same target analysed first in a fresh interpreter")
            for fn in sorted(set(a or {}) | set(b or {})):
                if (a or {}).get(fn) != (b or {}).get(fn):
                    print(fn, "\n  this step:", (a or {}).get(fn), "\n  fresh    :", (b or {}).get(fn))
    finally:
        tp.close()
    return 0


def run_all(res, tier, seed, model, tp):
    quick = tier == "quick"
    hashseeds = list(range(6)) if quick else list(range(12))
    with ThreadPoolExecutor(max_workers=16) as ex:
        # the out-of-process runs of both stages proceed while this process analyses the re-export projects
        started = shadow_start(random.Random(seed * 7919 + 16), seed, quick, tp, hashseeds, ex)
        reexport_stage(res, random.Random(seed * 7919 + 15), seed, 4 if quick else 30, 2 if quick else 10, 2 if quick else 10,
                       model, tp, hashseed=seed % 5, ex=ex)
        shadow_stage(res, None, seed, quick, model, tp, hashseeds, started=started)

"""C05 — results are deterministic and independent of definition order and unrelated code."""
from __future__ import annotations

import ast
import json
import os
import random
import shutil
import subprocess
import sys
import tempfile
from concurrent.futures import ThreadPoolExecutor
from pathlib import Path

import common
import impl
from props import resultslib as rl
from props import c03

PID = "C05"
TABLES = ["C04", "RC"]
# features of a call graph that make results depend on processing order through the shared store
ORDER_FEATURES = ["compound-argument", "same-call-on-two-paths", "cycle"]


def split_defs(src):
    """top-level statements of a generated program as source chunks."""
    tree = ast.parse(src)
    lines = src.splitlines()
    chunks = []
    for node in tree.body:
        chunks.append("\n".join(lines[node.lineno - 1: node.end_lineno]))
    return chunks


def results_by_name(src):
    out = impl.outcome_of(rl.analyse_source, src)
    if out[0] != "ok":
        return None
    file_ir = out[1]
    snap = rl.snapshot(file_ir)
    if any(not (k is None or isinstance(k, int)) for _, k in snap["resolve"]):
        return None
    im = rl.run_impl(file_ir)
    if im["outcome"] != "ok":
        return None
    by = {}
    for r in im["rounds"][0]["results"]:
        by[snap["fns"][r["key"]]["name"]] = {k: r[k] for k in ("gets", "sets", "dels", "calls")}
    return snap, im, by


def unrelated_function(i, rng):
    return f"def unrelated{i}(u{i}):\n    u{i}.only_here{i}\n    return u{i}.w{i}\n"


def reachable(snap, k):
    res = {c: t for c, t in snap["resolve"]}
    seen, st = set(), [k]
    while st:
        x = st.pop()
        if x in seen:
            continue
        seen.add(x)
        for c in snap["fns"][x]["calls"]:
            t = res.get(c["cid"])
            if isinstance(t, int):
                st.append(t)
    return seen


def cli_results(project: Path, hashseed, extra=()):
    env = dict(os.environ, PYTHONHASHSEED=str(hashseed))
    p = subprocess.run([sys.executable, "-m", "rattr", "-w", "none", "-o", "results", *extra, "target.py"],
                       cwd=str(project), env=env, capture_output=True, text=True, timeout=120)
    return p.returncode, p.stdout, p.stderr


def class_program(rng):
    """A module with enum-like / plain / static-method classes and functions that construct or call
    them, in random order (imports stay first). Returns (source, chunks, import header)."""
    header = "from enum import Enum\n"
    chunks = [
        "class Status(Enum):\n    ACTIVE = 1\n    DONE = 2\n",
        "class Priority(Enum):\n    LOW = 1\n    HIGH = 2\n",
        "class Box:\n    def __init__(self, v):\n        self.held = v.box_attr\n",
        "class Holder:\n    @staticmethod\n    def sm(z):\n        return z.sm_attr\n",
        "def use_status(x):\n    return Status(x.raw)\n",
        "def use_priority(y):\n    p = Priority(y.level)\n    return p\n",
        "def use_box(p):\n    b = Box(p)\n    return b\n",
        "def use_static(q):\n    return Holder.sm(q)\n",
        "def outer(r):\n    use_status(r)\n    use_box(r.inner)\n    use_priority(r.other)\n",
    ]
    rng.shuffle(chunks)
    return header, chunks


UNRELATED_CLASSES = [
    "class StatusCode:\n    OK = 200\n    BAD = 400\n",            # name extends an enum's name
    "class PriorityQueue:\n    size = 0\n    items = ()\n",
    "class Boxes:\n    count = 0\n",
    "class Unrelated:\n    def __init__(self, u):\n        self.z = u.unrelated_attr\n",
]


STAR_PROJECTS = [
    # (name, files, expected-known-signature or None)
    ("star-clash", {"target.py": "from a import *\nfrom b import *\n\ndef caller(p):\n    f(p)\n",
                    "a.py": "def f(x):\n    x.from_a\n", "b.py": "def f(x):\n    x.from_b\n"}),
    ("star-disjoint", {"target.py": "from a import *\nfrom b import *\n\ndef caller(p):\n    fa(p)\n    fb(p)\n",
                       "a.py": "def fa(x):\n    x.from_a\n", "b.py": "def fb(x):\n    x.from_b\n"}),
    ("same-class-name-in-two-modules", {
        "target.py": "import ma\nimport mb\n\ndef caller(p, q):\n    ma.make(p)\n    mb.make(q)\n",
        "ma.py": "class K:\n    def __init__(self, a):\n        self.s = a.from_ma\n\ndef make(x):\n    k = K(x)\n    return k\n",
        "mb.py": "class K:\n    def __init__(self, a):\n        self.s = a.from_mb\n\ndef make(x):\n    k = K(x)\n    return k\n"}),
    ("plain-imports", {"target.py": "from a import fa\nimport b\n\ndef caller(p, q):\n    fa(p)\n    b.fb(q)\n    fa(q)\n",
                       "a.py": "def fa(x):\n    x.from_a\n    x.second = 1\n", "b.py": "def fb(x):\n    del x.from_b\n"}),
]


def c05stages_rule():
    from props import c05stages, c05reexport
    return c05stages.RULE + ". " + c05reexport.RULE


def run(tier, seed, build):
    res = common.Result(PID)
    res.rule = ("programs from the C03 generator; for each: K permutations of the top-level definitions, variants with "
                "unrelated functions added and with functions unreachable from a root removed (in-process, real analyser + "
                "real result generation, per-function results compared by name), the Lean model must reproduce every "
                "variant; plus real CLI runs of whole projects under several PYTHONHASHSEED values (stdout bytes compared). "
                "non-trivial = distinct base program with >= 1 resolvable call. " + c05stages_rule())
    rng = random.Random(seed)
    n_prog, n_perm = (60, 4) if tier == "quick" else (600, 8)
    seeds = [0, 1, 2, 3] if tier == "quick" else list(range(12))
    programs = [(n, s) for n, s in c03.CORPUS]
    for i in range(n_prog):
        programs.append((f"rand{i}", rl.ProgGen(rng, clean=(i % 3 == 0)).build()[0]))

    model = common.Model()
    batch, metas = [], []
    class_variants = []
    for i in range(6 if tier == "quick" else 40):
        header, chunks = class_program(rng)
        base_src = header + "\n" + "\n".join(chunks)
        vs = []
        for _ in range(n_perm):
            perm = chunks[:]
            rng.shuffle(perm)
            vs.append(("perm", header + "\n" + "\n".join(perm)))
        extra = chunks[:]
        for u in rng.sample(UNRELATED_CLASSES, rng.randint(1, 3)):
            extra.insert(rng.randint(0, len(extra)), u)
        vs.append(("added", header + "\n" + "\n".join(extra)))
        class_variants.append((f"classes{i}", base_src, vs))
    for label, base_src, vs in class_variants:
        res.evaluations += 1
        base = results_by_name(base_src)
        if base is None:
            res.internal_errors.append({"what": "class program failed to analyse", "source": base_src})
            continue
        _, _, by0 = base
        res.nontrivial.add(common.digest(base_src))
        for kind, vsrc in vs:
            res.evaluations += 1
            v = results_by_name(vsrc)
            if v is None:
                res.internal_errors.append({"what": "class program variant failed to analyse", "source": vsrc})
                continue
            _, _, by = v
            diff = [n for n in by0 if n in by and by[n] != by0[n]]
            if not diff:
                res.count(f"classes:{kind}:same")
                continue
            # the one known class-related order dependence: a static method called by a function
            # defined before the class (C08 finding); recognised from the SOURCE alone
            static_callers = {"use_static"}
            if set(diff) <= static_callers:
                sig = "results-depend-on-definition-order-or-unrelated-code:static-method-defined-after-caller"
            else:
                sig = "results-depend-on-definition-order-or-unrelated-code:classes:" + "+".join(sorted(diff))
            res.count(f"classes:{kind}:differs")
            res.violations.append({"signature": sig, "case": {"label": label, "variant": kind, "source": vsrc, "base": base_src},
                                   "functions": diff, "base_results": {n: by0[n] for n in diff},
                                   "variant_results": {n: by[n] for n in diff}})
    for label, src in programs:
        base = results_by_name(src)
        res.evaluations += 1
        if base is None:
            res.skipped_outside_fragment += 1
            continue
        snap0, im0, by0 = base
        sigs = c03.sigs_from_source(src)
        feats_all = rl.other_roots_features(snap0, sigs)
        if any(isinstance(k, int) for _, k in snap0["resolve"]):
            res.nontrivial.add(common.digest(src))
        chunks = split_defs(src)
        variants = []
        for _ in range(n_perm):
            perm = chunks[:]
            rng.shuffle(perm)
            variants.append(("perm", "\n\n".join(perm) + "\n"))
        # unrelated code added at random positions
        extra = chunks[:]
        for i in range(rng.randint(1, 3)):
            extra.insert(rng.randint(0, len(extra)), unrelated_function(i, rng))
        variants.append(("added", "\n\n".join(extra) + "\n"))
        # remove functions unreachable from a chosen root
        names = [f["name"] for f in snap0["fns"]]
        root = rng.randrange(len(names))
        keep = {names[k] for k in reachable(snap0, root)}
        kept = [c for c in chunks if ast.parse(c).body[0].name in keep]
        variants.append(("removed:" + names[root], "\n\n".join(kept) + "\n"))

        batch.append(("results", {**snap0, "rounds": 1}))
        metas.append((label, "base", src, snap0, im0, None, None, None))
        for kind, vsrc in variants:
            res.evaluations += 1
            v = results_by_name(vsrc)
            if v is None:
                res.internal_errors.append({"what": "variant failed to analyse", "source": vsrc})
                continue
            snap, im, by = v
            batch.append(("results", {**snap, "rounds": 1}))
            metas.append((label, kind, vsrc, snap, im, by0, by, feats_all))
    outs = model.batch(batch)
    not_pinned = set()      # programs on which the implementation no longer behaves like the pinned model
    for (label, kind, vsrc, snap, im, by0, by, feats), mo in zip(metas, outs):
        case = {"label": label, "variant": kind, "source": vsrc}
        if "__error__" in mo or mo.get("outcome") != "ok":
            res.disagreements.append({"case": case, "model": mo})
            not_pinned.add(label)
        else:
            mm = rl.canon_model_round(mo["rounds"][0])
            ii = rl.strip_calls(im["rounds"][0])
            if mm != ii:
                res.disagreements.append({"case": case, "impl": ii, "model": mm})
                not_pinned.add(label)
    for (label, kind, vsrc, snap, im, by0, by, feats), mo in zip(metas, outs):
        case = {"label": label, "variant": kind, "source": vsrc}
        if by0 is None:
            continue
        common_names = [n for n in by if n in by0]
        if kind.startswith("removed:"):
            common_names = [n for n in by]          # everything kept must be unchanged
        diff = [n for n in common_names if by[n] != by0[n]]
        k0 = kind.split(":")[0]
        if not diff:
            res.count(f"{k0}:same")
        else:
            f = next((x for x in ORDER_FEATURES if x in feats), "clean-fragment")
            sig = f"results-depend-on-definition-order-or-unrelated-code:{f}"
            if label in not_pinned:
                # a known finding only if the model of the pinned code predicts the same dependence
                sig = f"results-depend-on-definition-order-or-unrelated-code:not-the-pinned-behaviour:{f}"
            res.count(f"{k0}:differs:{f}")
            res.violations.append({"signature": sig, "case": case, "functions": diff,
                                   "base": {n: by0[n] for n in diff}, "variant": {n: by[n] for n in diff}})
        res.sample({"label": label, "variant": kind, "source": vsrc}, cap=3)

    # ---- hash seeds through the real CLI
    tmp = Path(tempfile.mkdtemp(prefix="rattr-c05-"))
    try:
        projects = []
        for name, files in STAR_PROJECTS:
            d = tmp / name
            d.mkdir()
            for fn, content in files.items():
                (d / fn).write_text(content)
            projects.append((name, d, json.dumps(files)))
        for i, (label, src) in enumerate(programs[: (12 if tier == "quick" else 60)]):
            d = tmp / f"p{i}"
            d.mkdir()
            (d / "target.py").write_text(src)
            projects.append((label, d, src))
        jobs = [(name, d, hs) for name, d, _ in projects for hs in seeds]
        with ThreadPoolExecutor(max_workers=16) as ex:
            outs = list(ex.map(lambda j: cli_results(j[1], j[2]), jobs))
        by_proj = {}
        for (name, d, hs), o in zip(jobs, outs):
            by_proj.setdefault(name, []).append((hs, o))
        for name, d, src in projects:
            res.evaluations += len(seeds)
            runs = by_proj[name]
            outs_set = {(rc, out) for _, (rc, out, _) in runs}
            if len(outs_set) == 1:
                res.count("hashseed:same")
            else:
                cls = "starred-imports-export-same-name" if name == "star-clash" else "other:" + name
                res.count("hashseed:differs:" + cls)
                res.violations.append({"signature": "results-depend-on-hash-seed:" + cls,
                                       "case": {"project": name, "files_or_source": src,
                                                "outputs": sorted({out[:400] for _, (rc, out, _) in runs})[:3]}})
    finally:
        shutil.rmtree(tmp, ignore_errors=True)
    from props import c05stages
    c05stages.run_all(res, tier, seed, model)
    res.assumptions = ["CPython set iteration order is represented in the model by explicit list orders taken from the real run",
                       "hash-seed independence is sampled over a few PYTHONHASHSEED values",
                       "[interp] 'already generated once in the same process' = rattr driven as a library the way main() drives it "
                       "(a new Config per analysis, parse_and_analyse_file + generate_results_from_ir), every functools cache of "
                       "rattr left alone between the analyses; the reference is the same analysis as the FIRST one of a fresh interpreter",
                       "[interp] 'unrelated code' in a project = a definition no compared function transitively calls under Python's "
                       "scoping, in the target or in a followed import, including one whose name equals a definition of another file",
                       "[interp] a module-level definition whose NAME equals a name the function binds itself (parameter of any kind, "
                       "comprehension / for / with / except / walrus / match target, local assignment, nested def / class) is unrelated "
                       "code for that function: CPython's symtable is the judge of 'binds itself' (the name is not a global of the scope "
                       "the call is in); the syntactic class of the binder is computed from the AST of the input, never from rattr's answer",
                       "multi-file result generation: own IRs and call resolution are taken from the real run (as in C03); the model is "
                       "Results.generate with roots = the target's functions over the store of ALL files"]
    return res


def replay(path):
    j = json.load(open(path))
    print(json.dumps(j, indent=1)[:6000])
    case = j.get("case") or {}
    if isinstance(case, dict) and str(case.get("stage", "")).startswith(("reexport:", "shadowed-module")):
        from props import c05reexport
        return c05reexport.replay_case(case)
    if isinstance(case, dict) and ("base_files" in case or "history" in case):
        # re-run a project / history case against the rattr under test
        from props import c05proj as cp
        tp = cp.TempProjects()
        try:
            if "history" in case:
                d = tp.new(case["files"])
                out = cp.history_run(d, case["history"], style=case.get("style", "main"))
                fresh = cp.history_run(d, [case["history"][case["step"]]], style="main")
                print("---- re-run: step", case["step"], "of", case["history"], "vs the same target analysed first in a fresh interpreter")
                a, b = out["steps"][case["step"]]["doc"], fresh["steps"][0]["doc"]
                for fn in sorted(set(a or {}) | set(b or {})):
                    if (a or {}).get(fn) != (b or {}).get(fn):
                        print(fn, "\n  this step:", (a or {}).get(fn), "\n  fresh    :", (b or {}).get(fn))
            else:
                d = tp.new(case["base_files"])
                b = cp.run_main(d)
                cp.write_files(d, case["files"])
                v = cp.run_main(d)
                print("---- re-run: base vs variant", case.get("variant"), b["outcome"], v["outcome"])
                for fn in sorted(set(b["doc"] or {}) & set(v["doc"] or {})):
                    if b["doc"][fn] != v["doc"][fn]:
                        print(fn, "\n  base   :", b["doc"][fn], "\n  variant:", v["doc"][fn])
        finally:
            tp.close()
    return 0

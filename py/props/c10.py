"""C10 — names follow the documented nameable format, compositionally and totally.

Tie B: the real `rattr.ast.util.names_of` (+ `basename_of` / `fullname_of`) and the deprecated
`rattr.analyser.util.get_basename_fullname_pair` vs the Lean model `Naming.namesOf` / `Naming.oldNames`
on the same expression tree, for every (namer, safe[, unravel]) combination, outcome classes
{ok (base, full), fatal <site>, raised <exception class>}.

Spec self-check: Lean `Spec.spell` / `Spec.base` vs an independent re-implementation of the README
table that works on the real `ast` node (`readme`); disagreement = internal error.

Property oracle (README table applied to the implementation's real outputs):
  (a) every successful naming equals the README (base, spelling);
  (b) the two namers agree (same safe);
  (c) safe=True never raises / exits.

A case is a *tree spec*: `[shape_id, child_spec?]` where shape_id is `"<template>|<path>"`; the
template is Python source parsed by `ast.parse`, `__H__` marks the hole, `<path>` selects the node of
interest inside the parsed expression. Trees are grafted at the AST level, so that every class can
sit in every slot (e.g. a `Starred` below an `Attribute`), which source text cannot express.
"""
from __future__ import annotations

import ast
import copy
import json
import random
import warnings

import common
import impl

warnings.filterwarnings("ignore", category=DeprecationWarning)

from rattr.analyser.util import get_basename_fullname_pair  # noqa: E402
from rattr.ast.util import basename_of, fullname_of, names_of  # noqa: E402

PID = "C10"
TABLES = ["C10"]
XATTRS = ("getattr", "setattr", "hasattr", "delattr")  # the README's "getattr family" (oracle side)
HOLE = "__H__"

# ------------------------------------------------------------------ shapes


def _xattr_shapes(fn):
    return [
        f"{fn}({HOLE}, 'k')|",          # literal name, object in the hole
        f"{fn}({HOLE}, n)|",            # variable name
        f"{fn}(o, {HOLE})|",            # the name argument is the hole
        f"{fn}({HOLE})|",               # missing argument
        f"{fn}({HOLE}, 'k', d)|",       # extra argument
    ]


# holes the namers descend into
RELEVANT = [
    f"{HOLE}.x|",
    f"{HOLE}[i]|",
    f"f(*{HOLE})|args.0",               # the Starred node itself
    f"{HOLE}()|",
    f"{HOLE}(p)|",
    f"{HOLE}(p, 'q')|",
    f"{HOLE}(p, q, r)|",
] + [s for fn in XATTRS for s in _xattr_shapes(fn)]

# every other ast.expr class / slot: the node is a stand-in, or the hole is in a slot no namer reads
IRRELEVANT = [
    f"{HOLE} and y|", f"(t := {HOLE})|", f"{HOLE} + y|", f"y @ {HOLE}|", f"-{HOLE}|", f"not {HOLE}|",
    f"lambda: {HOLE}|", f"{HOLE} if c else d|", f"b if {HOLE} else d|",
    f"{{{HOLE}: v}}|", f"{{k: {HOLE}}}|", f"{{**{HOLE}}}|", f"{{{HOLE}}}|",
    f"[{HOLE} for i in y]|", f"[i for i in {HOLE}]|", f"{{{HOLE} for i in y}}|",
    f"{{{HOLE}: v for i in y}}|", f"({HOLE} for i in y)|",
    f"await {HOLE}|", f"(yield {HOLE})|", f"(yield from {HOLE})|",
    f"{HOLE} < y|", f"a < {HOLE} < c|",
    f"f({HOLE})|", f"f(k={HOLE})|", f"f(**{HOLE})|", f"f(x, {HOLE})|",
    f"f'{{{HOLE}}}'|values.0", f"f'a{{{HOLE}}}'|", f"f'{{x:{{{HOLE}}}}}'|",
    f"x[{HOLE}]|", f"x[{HOLE}:2]|", f"x[{HOLE}:2]|slice", f"x[1:{HOLE}:3]|slice",
    f"[{HOLE}]|", f"({HOLE}, y)|", f"[*{HOLE}]|", f"({HOLE},)|",
    f"getattr(o, 'k', {HOLE})|", f"setattr(o, 'k', {HOLE})|", f"getattr(o, name={HOLE})|",
]

LEAVES = [
    "a|", "getattr|", "setattr|", "hasattr|", "delattr|",
    "1|", "'s'|", "None|", "b'b'|", "...|", "1.5|", "True|", "''|", "'x.y'|",
    "(yield)|", "getattr()|", "x[1:2]|slice", "f''|", "()|", "[]|", "{}|", "lambda: 0|",
]
LEAVES_SMALL = ["a|", "getattr|", "delattr|", "1|", "'s'|"]
REPS = [["a|"], [f"getattr({HOLE}, 'k')|", ["a|"]], [f"{HOLE} + y|", ["a|"]]]

_TEMPLATES = {}


def _follow(node, path):
    for p in [x for x in path.split(".") if x]:
        node = node[int(p)] if p.isdigit() else getattr(node, p)
    return node


def _template(shape):
    t = _TEMPLATES.get(shape)
    if t is None:
        src, _, path = shape.rpartition("|")
        root = ast.parse(src, mode="eval").body
        node = _follow(root, path)
        assert isinstance(node, ast.expr), shape
        t = _TEMPLATES[shape] = node
    return t


class _Graft(ast.NodeTransformer):
    def __init__(self, sub):
        self.sub = sub

    def visit_Name(self, node):
        return self.sub if node.id == HOLE else node


def _clone(node):
    """Fresh structural copy of a template AST (what `copy.deepcopy` gives, without its memo
    bookkeeping: templates are trees, no node is shared)."""
    if isinstance(node, ast.AST):
        new = node.__class__.__new__(node.__class__)
        for k, v in node.__dict__.items():
            new.__dict__[k] = _clone(v) if isinstance(v, (ast.AST, list)) else v
        return new
    if isinstance(node, list):
        return [_clone(x) for x in node]
    return node


def build(spec):
    """Fresh AST for a tree spec."""
    node = _clone(_template(spec[0]))
    if len(spec) > 1:
        sub = build(spec[1])
        if isinstance(node, ast.Name) and node.id == HOLE:
            return sub
        node = _Graft(sub).visit(node)
    return node


def build_located(spec):
    node = build(spec)
    wrapper = ast.Expression(body=node)
    ast.fix_missing_locations(wrapper)
    for n in ast.walk(node):  # nodes parsed from templates keep their own (valid) locations
        if isinstance(n, (ast.expr, ast.stmt)) and not hasattr(n, "lineno"):
            n.lineno = n.end_lineno = 1
            n.col_offset = n.end_col_offset = 0
    return node


def has_hole(shape):
    return HOLE in shape


def enumerate_trees(levels, leaves, irrelevant):
    """All tree specs obtained from `leaves` by one round per entry of `levels` (bottom level
    first): every relevant shape of that level over every tree so far, every irrelevant shape over a
    few representatives. Depth <= len(levels)."""
    out = [[s] for s in leaves]
    seen = {json.dumps(t) for t in out}

    def add(c):
        k = json.dumps(c)
        if k not in seen:
            seen.add(k)
            out.append(c)

    for rel in levels:
        below = list(out)
        for s in rel:
            for t in below:
                add([s, t])
        for s in irrelevant:
            for t in REPS:
                add([s, t])
    return out


PLAIN = [s for s in RELEVANT if not any(s.startswith(fn + "(") for fn in XATTRS)]
SMALL_REL = [s for s in RELEVANT if not any(s.startswith(fn + "(") for fn in ("hasattr", "setattr"))]
XSHAPES = [s for s in RELEVANT if s not in PLAIN]


def random_tree(rng, max_depth):
    d = rng.randint(3, max_depth)
    plain_only = rng.random() < 0.3
    spec = [rng.choice(LEAVES)]
    for _ in range(d):
        r = rng.random()
        if r < 0.55 or (plain_only and r < 0.8):
            spec = [rng.choice(PLAIN), spec]
        elif r < 0.8:
            spec = [rng.choice(XSHAPES), spec]
        else:
            spec = [rng.choice(IRRELEVANT), spec]
    return spec


# ------------------------------------------------------------------ encoding for the Lean driver

def encode(node):
    """The projection of an expression the namers look at (same isinstance order as the code)."""
    if isinstance(node, ast.Name):
        return {"k": "name", "id": node.id}
    if isinstance(node, ast.Call):
        return {"k": "call", "f": encode(node.func), "args": [encode(a) for a in node.args]}
    if isinstance(node, ast.Attribute):
        return {"k": "attr", "v": encode(node.value), "a": node.attr}
    if isinstance(node, ast.Subscript):
        return {"k": "sub", "v": encode(node.value)}
    if isinstance(node, ast.Starred):
        return {"k": "starred", "v": encode(node.value)}
    if isinstance(node, ast.Constant) and isinstance(node.value, str):
        return {"k": "str", "s": node.value}
    return {"k": "other", "c": node.__class__.__name__}


# ------------------------------------------------------------------ implementation side

FATAL_SITES = [
    ("tooFewArgs", ("too few args", "not enough args")),
    ("nestedOtherCall", ("may only be nested in other calls", "object must be a name or a call")),
]


def _canon(out, tap, n0):
    if out[0] == "ok":
        v = out[1]
        if isinstance(v, tuple) and len(v) == 2 and all(isinstance(x, str) for x in v):
            return {"ok": [v[0], v[1]]}
        return {"ok": v}
    if out[0] == "fatal":
        msgs = [e["message"] for e in tap.events[n0:] if e["level"] == "fatal"]
        msg = msgs[-1] if msgs else ""
        for site, pats in FATAL_SITES:
            if any(p in msg for p in pats):
                return {"fatal": site}
        return {"fatal": "other:" + msg[:80]}
    return {"raised": out[1]}


COMBOS = [
    ("new_safe", lambda n: names_of(n, safe=True)),
    ("new_unsafe", lambda n: names_of(n, safe=False)),
    ("new_safe_noun", lambda n: names_of(n, unravel_attr_access_calls=False, safe=True)),
    ("new_unsafe_noun", lambda n: names_of(n, unravel_attr_access_calls=False, safe=False)),
    ("old_safe", lambda n: get_basename_fullname_pair(n, True)),
    ("old_unsafe", lambda n: get_basename_fullname_pair(n, False)),
]


def run_impl(spec, tap, check_fresh):
    """Outcomes of every combination on one freshly built tree; memo / wrapper self-consistency."""
    impl.clear_caches_fast()
    node = build_located(spec)
    out, notes = {}, []
    for key, fn in COMBOS:
        n0 = len(tap.events)
        first = _canon(impl.outcome_of(fn, node), tap, n0)
        n0 = len(tap.events)
        second = _canon(impl.outcome_of(fn, node), tap, n0)   # memoised path
        out[key] = first
        if first != second:
            notes.append({"memo": key, "first": first, "second": second})
    for safe, key in ((True, "new_safe"), (False, "new_unsafe")):
        n0 = len(tap.events)
        b = _canon(impl.outcome_of(basename_of, node, safe=safe), tap, n0)
        n0 = len(tap.events)
        f = _canon(impl.outcome_of(fullname_of, node, safe=safe), tap, n0)
        want = out[key]
        if "ok" in want:
            ok = b == {"ok": want["ok"][0]} and f == {"ok": want["ok"][1]}
        else:
            ok = b == want and f == want
        if not ok:
            notes.append({"wrappers": key, "names_of": want, "basename_of": b, "fullname_of": f})
    # the spelling is a function of the expression, not of where it stands: the same tree with every `ctx`
    # set to Store / Del (an assignment or `del` target, e.g. `head, *tail = xs`) must be named the same
    if any(hasattr(n, "ctx") for n in ast.walk(node)):
        for ctx_cls in (ast.Store, ast.Del):
            impl.clear_caches_fast()
            node_c = build_located(spec)
            for n in ast.walk(node_c):
                if hasattr(n, "ctx"):
                    n.ctx = ctx_cls()
            for key, fn in COMBOS:
                n0 = len(tap.events)
                got = _canon(impl.outcome_of(fn, node_c), tap, n0)
                if got != out[key]:
                    notes.append({"ctx": key, "context": ctx_cls.__name__, "load": out[key], "got": got})
                    break
    if check_fresh:
        # structurally equal fresh tree, cold caches, reverse call order
        impl.clear_caches_fast()
        node2 = build_located(spec)
        for key, fn in reversed(COMBOS):
            n0 = len(tap.events)
            again = _canon(impl.outcome_of(fn, node2), tap, n0)
            if again != out[key]:
                notes.append({"fresh": key, "first": out[key], "again": again})
    return node, out, notes


# ------------------------------------------------------------------ the README, independently

def readme(node, flags):
    """(base, spelling) by the README table, on the real ast node. `flags` collects what was met on
    the path the table reads: 'lit' (a literal getattr-family call), 'interp' (a direct
    getattr-family call with no equivalent dotted access)."""
    if isinstance(node, ast.Name):
        return node.id, node.id
    if isinstance(node, ast.Attribute):
        b, s = readme(node.value, flags)
        return b, f"{s}.{node.attr}"
    if isinstance(node, ast.Subscript):
        b, s = readme(node.value, flags)
        return b, f"{s}[]"
    if isinstance(node, ast.Starred):
        b, s = readme(node.value, flags)
        return b, f"*{s}"
    if isinstance(node, ast.Call):
        f = node.func
        if isinstance(f, ast.Name) and f.id in XATTRS:
            a = node.args
            if len(a) >= 2 and isinstance(a[1], ast.Constant) and isinstance(a[1].value, str):
                flags.add("lit")
                b, s = readme(a[0], flags)
                return b, f"{s}.{a[1].value}"
            flags.add("interp")
        b, s = readme(f, flags)
        return b, f"{s}()"
    k = "@" + type(node).__name__
    return k, k


# ------------------------------------------------------------------ structural conditions for signatures

def chainbase(node):
    """Identifier at the bottom of the func/value chain, or None."""
    while True:
        if isinstance(node, ast.Name):
            return node.id
        if isinstance(node, ast.Call):
            node = node.func
        elif isinstance(node, (ast.Attribute, ast.Subscript, ast.Starred)):
            node = node.value
        else:
            return None


def structure(node):
    """Facts about the getattr-family-like calls (chain base is a family name) anywhere in the tree."""
    st = set()
    for c in ast.walk(node):
        if not isinstance(c, ast.Call):
            continue
        fn = chainbase(c.func)
        if fn not in XATTRS:
            continue
        direct = isinstance(c.func, ast.Name)
        st.add("xattr")
        if not direct:
            st.add("indirect")
        if len(c.args) < 2:
            st.add("short-direct" if direct else "short-indirect")
            continue
        obj = c.args[0]
        if isinstance(obj, ast.Call):
            if not (isinstance(obj.func, ast.Name) and obj.func.id == fn):
                st.add("obj-other-call")
        else:
            if chainbase(obj) is None:
                st.add("obj-unnameable")
            if not isinstance(obj, (ast.Name, ast.Attribute, ast.Subscript, ast.Starred)):
                st.add("obj-not-nodewithname")
    return st


NAMEABLE_EXC = {"RattrBinOpInNameable", "RattrUnaryOpInNameable", "RattrConstantInNameable",
                "RattrLiteralInNameable", "RattrComprehensionInNameable", "TypeError"}


def judge(node, im, notes):
    """Property oracle on the implementation's outputs -> list of (signature, detail), plus the
    README pair and whether clause (a) was judged."""
    flags = set()
    want = list(readme(node, flags))
    st = structure(node)
    viol = []

    # (a) spelling and base of every successful naming
    judged_a = "interp" not in flags
    if judged_a:
        for key in ("new_safe", "new_unsafe", "old_safe", "old_unsafe"):
            o = im[key]
            if "ok" not in o or o["ok"] == want:
                continue
            namer = key.split("_")[0]
            got = o["ok"]
            if (isinstance(got, list) and got[1] == want[1] and got[0] in XATTRS and "lit" in flags):
                sig = "spelling:xattr-base-is-builtin-name"
            elif namer == "new" and "indirect" in st:
                sig = "spelling:indirect-xattr-call-unravelled:new"
            elif (isinstance(got, list) and got[0] in XATTRS and "lit" in flags and "indirect" in st):
                # old namer on e.g. getattr(x,'y')(a,'b'): spelling x.y() right, base getattr
                sig = "spelling:xattr-base-is-builtin-name"
            else:
                sig = f"spelling:other:{key}"
            viol.append((sig, {"combo": key, "got": got, "readme": want}))

    # (b) the two namers agree
    for safe in ("safe", "unsafe"):
        n, o = im[f"new_{safe}"], im[f"old_{safe}"]
        same = (n == o) or ("fatal" in n and "fatal" in o)
        if same:
            continue
        if "raised" in n and "raised" in o and "obj-not-nodewithname" in st \
                and o["raised"] == "TypeError" and n["raised"] in NAMEABLE_EXC:
            sig = "disagree:xattr-object-exception-type"
        elif "indirect" in st:
            sig = "disagree:indirect-xattr-call"
        else:
            sig = f"disagree:other:{safe}"
        viol.append((sig, {"safe": safe, "new": n, "old": o}))

    # (c) safe naming never raises (nor exits)
    for key in ("new_safe", "old_safe"):
        o = im[key]
        namer = key.split("_")[0]
        if "raised" in o:
            if "obj-unnameable" in st and o["raised"] in NAMEABLE_EXC:
                sig = "safe-raises:xattr-object-unnameable"
            else:
                sig = f"safe-raises:other:{namer}:{o['raised']}"
            viol.append((sig, {"combo": key, "got": o}))
        elif "fatal" in o:
            if o["fatal"] == "tooFewArgs" and "short-direct" in st:
                sig = "safe-fatal:xattr-too-few-args"
            elif o["fatal"] == "tooFewArgs" and "short-indirect" in st and namer == "new":
                sig = "safe-fatal:indirect-xattr-too-few-args:new"
            elif o["fatal"] == "nestedOtherCall" and "obj-other-call" in st:
                sig = "safe-fatal:xattr-object-is-call"
            else:
                sig = f"safe-fatal:other:{namer}:{o['fatal']}"
            viol.append((sig, {"combo": key, "got": o}))
        elif "ok" not in o or not (isinstance(o["ok"], list) and len(o["ok"]) == 2):
            viol.append((f"safe-result-malformed:{namer}", {"combo": key, "got": o}))

    # memoisation / wrapper consistency
    for nt in notes:
        kind = next(iter(nt))
        viol.append((f"{ {'memo': 'memo-not-transparent', 'fresh': 'memo-not-transparent', 'wrappers': 'wrappers-inconsistent', 'ctx': 'spelling-depends-on-expression-context'}[kind] }:{nt[kind]}{':' + nt['context'] if kind == 'ctx' else ''}", nt))
    return viol, want, judged_a, flags, st


# ------------------------------------------------------------------ run

def describe(spec, node):
    try:
        src = ast.unparse(node)
    except Exception as e:  # noqa
        src = f"<unparse failed: {type(e).__name__}>"
    return {"tree": spec, "src": src}


def all_cases(tier, rng):
    def merge(*lists):
        out, seen = [], set()
        for l in lists:
            for t in l:
                k = json.dumps(t)
                if k not in seen:
                    seen.add(k)
                    out.append(t)
        return out

    if tier == "quick":
        trees = merge(
            enumerate_trees([SMALL_REL, RELEVANT], LEAVES, IRRELEVANT),       # depth 2, getattr family everywhere
            enumerate_trees([PLAIN, PLAIN, PLAIN], LEAVES, IRRELEVANT),       # depth 3, family-free
        )
        n_rand = 2000
    else:
        trees = merge(
            enumerate_trees([RELEVANT, RELEVANT], LEAVES, IRRELEVANT),
            enumerate_trees([PLAIN, PLAIN, PLAIN], LEAVES, IRRELEVANT),
            enumerate_trees([SMALL_REL, SMALL_REL, RELEVANT], LEAVES_SMALL, IRRELEVANT),
            enumerate_trees([PLAIN, PLAIN, PLAIN, PLAIN], LEAVES_SMALL, []),
        )
        n_rand = 20000
    n_exh = len(trees)
    trees = trees + [random_tree(rng, 8) for _ in range(n_rand)]
    return trees, n_exh, n_rand


def run(tier, seed, build):
    res = common.Result(PID)
    res.rule = ("stage N (namers) — exhaustive: every tree spec of depth <= D (D=2 quick, 3 thorough) over one shape per (ast.expr class, "
                "child slot), the four getattr-family builtins with literal / variable / missing / extra arguments in every "
                "slot the namers read, representatives in the slots they ignore; plus seeded random trees to depth 8. "
                "non-trivial = distinct tree with at least one compound step (depth >= 1). "
                "stage S (consumer sites, py/props/c10sites.py) — every reference to a namer in the source is enumerated (Tie A) and "
                "classified by the model's table; for every slot family x every compound expression (exhaustive over {.attr,[sub],(call)} "
                "to depth 2 quick / 3 thorough + curated + seeded random chains to 6 steps with slices, keywords, stand-in bases) one probe, "
                "observed in the FunctionAnalyser IR (names with basenames, call records), in the printed results of the whole file "
                "(in-process and CLI) and through a followed import; non-trivial = distinct (channel, slot, compound expression)")
    impl.reset_config()
    rng = random.Random(seed)
    import time as _time
    _t0 = _time.time()
    stage_wall = {}
    trees, n_exh, n_rand = all_cases(tier, rng)
    res.extra["exhaustive"] = True
    res.extra["exhaustive_cases"] = n_exh
    res.extra["random_cases"] = n_rand

    # every ast.expr class of this Python must occur as a node of interest
    classes = {c.__name__ for c in ast.expr.__subclasses__() if c.__module__ == 'ast'}
    covered = set()

    model = common.Model()
    enc, nodes_meta = [], []
    # the namer-level stage observes outcomes (value / SystemExit / exception class) and the tapped
    # events; the RENDERING of a diagnostic line (`rattr.error.error.__log`: path formatting + print to
    # stderr, no state) is C15 / C16's subject and is switched off here — it was 1/4 of this stage's time.
    # Stages S and X run with the real renderer.
    import sys as _sys
    from unittest import mock as _mock

    _errmod = _sys.modules["rattr.error.error"]
    with _mock.patch.dict(_errmod.__dict__, {"__log": lambda *a, **k: None}), impl.Tap() as tap:
        impl_out = []
        for i, spec in enumerate(trees):
            node, im, notes = run_impl(spec, tap, check_fresh=(i % 7 == 0))
            impl_out.append((node, im, notes))
            enc.append(encode(node))
            if len(tap.events) > 50000:
                tap.events.clear()
                tap.printed.clear()
                tap._stderr.seek(0)
                tap._stderr.truncate()
    stage_wall["namers:implementation"] = round(_time.time() - _t0, 1)
    outs = model.batch([("names", {"expr": e}) for e in enc])
    stage_wall["namers:model"] = round(_time.time() - _t0 - stage_wall["namers:implementation"], 1)

    for spec, (node, im, notes), mo in zip(trees, impl_out, outs):
        res.evaluations += 1
        case = describe(spec, node)
        for n in ast.walk(node):
            if isinstance(n, ast.expr):
                covered.add(type(n).__name__)
        res.count("root:" + type(node).__name__)
        if len(spec) > 1:
            res.nontrivial.add(common.digest(spec))
        for key in ("new_safe", "new_unsafe", "old_safe", "old_unsafe"):
            o = im[key]
            res.count(f"{key}:" + ("ok" if "ok" in o else next(iter(o)) + ":" + str(o[next(iter(o))])[:40]))

        viol, want, judged_a, flags, st = judge(node, im, notes)
        if "__error__" in mo:
            res.disagreements.append({"case": case, "impl": im, "model": mo})
        else:
            if mo["spec"] != want:
                res.internal_errors.append({"what": "Lean Spec.spell/base disagrees with the Python README oracle",
                                            "case": case, "lean": mo["spec"], "python": want})
                continue
            mm = {k: mo[k] for k in im}
            if mm != im:
                diff = {k: {"impl": im[k], "model": mm[k]} for k in im if im[k] != mm[k]}
                res.disagreements.append({"case": case, "diff": diff})
        res.count("a:judged" if judged_a else "a:interp-nonliteral-or-short-xattr")
        for f in sorted(st):
            res.count("struct:" + f)
        if not viol:
            res.count("verdict:holds")
            res.sample({"case": case, "impl": im, "readme": want})
        seen = set()
        for sig, detail in viol:
            if sig in seen:
                continue
            seen.add(sig)
            res.count("verdict:" + sig.split(":")[0] + ":" + sig.split(":")[1])
            res.violations.append({"signature": sig, "case": case, "detail": detail, "impl": im, "readme": want})

    # ------------------------------------------------------------------ stage S: the consumers of the namers
    from props import c10sites

    _t1 = _time.time()
    stage_wall["namers:judge"] = round(_t1 - _t0 - stage_wall["namers:implementation"] - stage_wall["namers:model"], 1)
    site_probes = c10sites.run_stage(res, tier, rng, model)
    _t2 = _time.time()
    stage_wall["sites"] = round(_t2 - _t1, 1)

    # ------------------------------------------------------------------ stage X: names through a caller (Tie B with the pipeline model)
    from props import c10callers

    c10callers.run_stage(res, tier, rng, model, site_probes)
    stage_wall["callers"] = round(_time.time() - _t2, 1)
    res.extra["stage_wall_s"] = stage_wall          # informational only: no verdict depends on it

    missing = sorted(classes - covered)
    if missing:
        res.internal_errors.append({"what": "generator does not cover every ast.expr class", "missing": missing})
    res.extra["expr_classes_covered"] = sorted(covered)
    res.assumptions = [
        "[interp] the README table is read compositionally: the spelling of a compound is the spelling of its value/func plus the suffix; "
        "any node outside {Name, Attribute, Subscript, Call, Starred} is '@' + its ast class name (the README's '@Int' example predates ast.Constant)",
        "[interp] a direct getattr/setattr/hasattr/delattr call with >= 2 positional arguments and a string-literal name spells as the dotted access and its base is the object's base",
        "[interp] clause (a) is not judged on expressions whose README path contains a direct getattr-family call with a non-literal name or < 2 arguments (spelled 'o.<n>' by rattr; no dotted equivalent exists)",
        "[interp] error.fatal (SystemExit) under safe=True counts as 'raises' for clause (c)",
        "functools.lru_cache on node identity is transparent for unmutated trees (checked: second call, and a fresh equal tree with cold caches)",
        "unravel_attr_access_calls=False is compared model-vs-implementation only (the property does not speak about it)",
        "[interp] stage S: 'wherever rattr reports a name' = the FunctionAnalyser's IR (Name.name / Name.basename, Call.name, call argument "
        "spellings), the printed `-o results` document (sections and keys) and the names substituted into a caller; for an expression E in a "
        "reporting slot the documented name is Spec.spell E with base Spec.base E; names rooted at E's base other than E's spelling, the "
        "spellings of the prefixes of E's spine and the slot's derived names (initialiser attributes, callee parameter attributes) are undocumented",
        "[interp] stage S does not judge names that need TWO levels of substitution (callee of a callee): that is C03's subject",
        "stage S probes are getattr-family-free (the namer-level stage owns those); strict-naming slots (assignment targets, getattr objects) "
        "only get variable-based expressions, safe-naming slots also '@' stand-in bases",
    ]
    return res


def replay(path):
    j = json.load(open(path))
    case = j.get("case") or j.get("input") or {}
    spec = case.get("tree")
    if spec is None and case.get("stage") == "sites":
        from props import c10sites

        impl.reset_config()
        return c10sites.replay_case(case)
    if spec is None and case.get("stage") == "callers":
        from props import c10callers

        impl.reset_config()
        return c10callers.replay_case(case)
    if spec is None:
        print(json.dumps(j, indent=1))
        return 0
    impl.reset_config()
    with impl.Tap() as tap:
        node, im, notes = run_impl(spec, tap, check_fresh=True)
    mo = common.Model().batch([("names", {"expr": encode(node)})])[0]
    viol, want, judged_a, flags, st = judge(node, im, notes)
    print(json.dumps({"case": describe(spec, node), "dump": ast.dump(node), "impl": im, "model": mo,
                      "readme": want, "violations": [v[0] for v in viol]}, indent=1))
    return 0

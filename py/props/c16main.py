"""C16, whole-`main` stage: the Lean model `MainRun.main` (= the whole single-file pipeline model
`Pipeline.runWith` composed with the diagnostics model `Diag.run`) against the real `main`, for one
module under MANY configurations: 4 warning levels x {plain, -H -T} x a strict / threshold setting.

For every setting the model must predict, from the module's AST encoding alone (no event list taken
from the implementation): the exit status, whether anything is printed on stdout and the results
document itself, the three badness buckets, and the (level, place) sequence of the printed lines.
The real side is `rattr.__main__.main` run in-process with the pre-filter tap (a sample also through
the CLI).  The property oracle on the real side (stdout / exit / buckets identical across the
settings) is applied as well.

Cases come from the pipeline stage's generator (props/pipeline.py, props/filegen.py) plus curated
modules with a diagnostic of every level; a case on which the PIPELINE model itself disagrees with
the implementation (C03 / C14's subject) is not used here (counted).
"""
from __future__ import annotations

import json
from pathlib import Path

import common
import diag_common as dc
from props import c15 as c15mod
from props import filelib, pipeline

CURATED = [
    # info + warning + error (5) + simplification error: thresholds and strict cut at different places
    ("target.py", "def leaf(x):\n    return x.l\ndef f(a, k):\n    a.m()\n    undefined_thing.z\n    getattr(a, k)\n    return leaf(a, a, a)\n"),
    # getattr family, dynamic names only
    ("target.py", "def rd(r, f):\n    return getattr(r, f)\ndef wr(r, f, v):\n    setattr(r, f, v)\n    return r.id\ndef hs(r, f):\n    return hasattr(r, f.name)\ndef dl(r, f):\n    delattr(r, f)\n"),
    # warnings only (strict gate: non-zero badness without any error)
    ("target.py", "class K:\n    def __init__(self, v):\n        self.v = v\ndef f(a):\n    K(a)\n    return nowhere(a)\n"),
    # infos only
    ("target.py", "import math\ndef f(a):\n    a.go()\n    return math.sqrt(a.x)\n"),
    # a fatal after some diagnostics
    ("target.py", "def g(a):\n    return a.q()\ndef f(a):\n    def inner():\n        pass\n    global G\n    return a\n"),
    # nothing at all
    ("target.py", "def f(a):\n    return a.x\n"),
    # module level: del, expression, lambda; nested class; call on a call
    ("target.py", "v = 1\ndel v\nw = 2\nw + 1\ndef h(x):\n    return x\ndef f(a):\n    class In:\n        pass\n    return h(a)()\n"),
]

HT = [(False, False), (True, True)]
SETTINGS = [dict(warn=w, H=h, T=t) for w in dc.WARN for h, t in HT]


class _Proj:
    def __init__(self, root: Path):
        self.cwd = self.root = root
        self.home = root


def argv_for(target_rel, cfg):
    a = ["-o", "results", "-f", "0", "-w", cfg["warn"]]
    for p in pipeline.EXCLUDE:
        a += ["-x", p]
    for p in pipeline.EXCLUDE_IMPORTS:
        a += ["-F", p]
    if cfg["H"]:
        a.append("-H")
    if cfg["T"]:
        a.append("-T")
    if cfg["strict"]:
        a.append("--strict")
    if cfg["threshold"]:
        a += ["--threshold", str(cfg["threshold"])]
    return a + [target_rel]


def doc_of(stdout):
    if not stdout.strip():
        return None
    d = json.loads(stdout)
    return {k: {f: sorted(v[f]) for f in ("gets", "sets", "dels", "calls")} for k, v in d.items()}


def model_doc(j):
    if j is None:
        return None
    d = {}
    for name, ent in j:
        d[name] = {f: list(ent[f]) for f in ("gets", "sets", "dels", "calls")}
    return d


def run_main_stage(res, model, rng, n, tier, cli_sample=2, inproc=None):
    keep = []
    scratch = common.Result("C16")
    pipeline.run_pipeline_stage(scratch, rng, n, model, cli_sample=0, keep=keep, curated=False, extra=CURATED)
    res.count("main:pipeline-cases", len(keep))
    projects = []
    try:
        for c in keep:
            if c.diff is not None or c.mo is None or "__error__" in c.mo:
                res.count("main:skipped:pipeline-model-disagrees-here (C03's subject)")
                res.skipped_outside_fragment += 1
                continue
            if c.im["outcome"] == "crash":
                res.count("main:skipped:uncaught-exception (C07's subject)")
                res.skipped_outside_fragment += 1
                continue
            # the strict / threshold setting, around the module's own total (from the MODEL's events)
            probe = model.batch([("c16_main", {**c.payload, "cfgs": []})])[0]
            if "__error__" in probe or probe.get("outcome") != "ok":
                res.disagreements.append({"case": {"stage": "main", "module": c.src}, "diff": f"model: {probe}"})
                continue
            total = sum(e[1] for e in probe["events"])
            cands = [dict(strict=False, threshold=0), dict(strict=True, threshold=0)]
            if total > 0:
                cands += [dict(strict=False, threshold=total), dict(strict=False, threshold=max(total - 1, 1))]
            picks = [rng.choice(cands)] if tier == "quick" else cands
            project = filelib.make_project()
            projects.append(project)
            (project / c.target).parent.mkdir(parents=True, exist_ok=True)
            (project / c.target).write_text(c.src)
            pr = _Proj(project)
            for a in picks:
                cfgs = [dict(a, **s) for s in SETTINGS]
                mo = model.batch([("c16_main", {**c.payload, "cfgs": [c15mod.model_cfg(x) for x in cfgs]})])[0]
                case = {"stage": "main", "module": c.src, "analysis_cfg": a}
                if "__error__" in mo or mo.get("outcome") != "ok":
                    res.disagreements.append({"case": case, "diff": f"model: {mo}"})
                    continue
                jobs = [(pr, argv_for(c.target, x), False) for x in cfgs]
                ips = inproc(jobs) if inproc is not None else [dc.run_inprocess(p, a) for p, a, _ in jobs]
                res.evaluations += len(cfgs)
                if any(e[0] != "info" for e in probe["events"]):
                    res.nontrivial.add(common.digest({"m": c.src, "a": a}))
                res.count(f"main:analysis:{'strict' if a['strict'] else ('thr' if a['threshold'] else 'permissive')}")
                if any(ip["crash"] is not None for ip in ips):
                    res.count("main:skipped:uncaught-exception-under-some-setting")
                    res.skipped_outside_fragment += 1
                    continue
                # ---- property oracle on the real runs
                for what, vals in (("stdout", [ip["stdout"] for ip in ips]), ("exit-status", [ip["exit"] for ip in ips]),
                                   ("badness", [ip["buckets"] for ip in ips])):
                    if any(v != vals[0] for v in vals):
                        ws = sorted({x["warn"] for x, v in zip(cfgs, vals) if v != vals[SETTINGS.index(dict(warn="all", H=False, T=False))]})
                        res.violations.append({"signature": f"{what}-depends-on:single-file:{'-w' if len(ws) < 4 else '-H-T'}",
                                               "case": {"program": {"single_file": c.src, "target": c.target}, "analysis_cfg": a},
                                               "differs_at": ws})
                # ---- correspondence
                for x, ip, m in zip(cfgs, ips, mo["runs"]):
                    ip_printed = [[p["level"], ip["events"][p["event"]]["where"] if p["event"] is not None else "simplification"]
                                  for p in ip["printed"] if p["level"] != "rattr"]
                    try:
                        real_doc = doc_of(ip["stdout"])
                    except Exception:  # noqa
                        real_doc = "unparseable"
                    mm = {"exit": m["exit"], "stdout": model_doc(m["stdout"]), "buckets": m["buckets"], "printed": m["printed"]}
                    ii = {"exit": ip["exit"], "stdout": real_doc, "buckets": ip["buckets"], "printed": ip_printed}
                    diffs = [k for k in mm if mm[k] != ii[k]]
                    res.count("main:exit:" + str(ip["exit"]))
                    res.count("main:stdout:" + ("document" if real_doc else "empty"))
                    if diffs:
                        res.disagreements.append({"case": case, "setting": {k: x[k] for k in ("warn", "H", "T")}, "fields": diffs,
                                                  "impl": {k: ii[k] for k in diffs}, "model": {k: mm[k] for k in diffs}})
                # ---- the real CLI on a sample
                if cli_sample > 0:
                    cli_sample -= 1
                    for x, m in list(zip(cfgs, mo["runs"]))[::3]:
                        r = dc.run_cli(pr, argv_for(c.target, x))
                        try:
                            real_doc = doc_of(r["stdout"])
                        except Exception:  # noqa
                            real_doc = "unparseable"
                        lv = [l["level"] for l in r["lines"] if l["level"] != "rattr"]
                        if r["exit"] != m["exit"] or real_doc != model_doc(m["stdout"]) or lv != [p[0] for p in m["printed"]] or r["junk"]:
                            res.disagreements.append({"case": case, "setting": {k: x[k] for k in ("warn", "H", "T")}, "fields": ["cli"],
                                                      "impl": {"exit": r["exit"], "levels": lv, "junk": r["junk"][:3]},
                                                      "model": {"exit": m["exit"], "levels": [p[0] for p in m["printed"]]}})
    finally:
        for p in projects:
            filelib.drop_project(p)
    if scratch.internal_errors:
        res.internal_errors.extend(scratch.internal_errors[:3])

"""C16, whole-`main` stage: the Lean model `MainRun.main` (= the whole single-file pipeline model
`Pipeline.runWith` composed with the diagnostics model `Diag.run`) against the real `main`, for one
module under MANY configurations: 4 warning levels x {plain, -H -T} x a strict / threshold setting.

For every setting the model must predict, from the module's AST encoding alone (no event list taken
from the implementation): the exit status, whether anything is printed on stdout and the results
document itself, the three badness buckets, and the (level, place) sequence of the printed lines.
The real side is `rattr.__main__.main` run in-process with the pre-filter tap (a sample also through
the CLI).  The property oracle on the real side (stdout / exit / buckets identical across the
settings) is applied as well.

Every output mode and three spellings of the target (round 3): the project lives five components below a
fake $HOME; the target is given as in the case (`target.py`, `lp/mod_t.py`, …), by its absolute path
(below $HOME, inside the project root, more than five parts) or through `..` (`../proj/<target>`); besides
`-o results` under the eight settings, `-o ir` and `-o cacheable` run under the four -H / -T combinations
and `-o stats` / `-o silent` under plain and -H -T. The model (`MainRun.mainOut`, op `c16_out`) gets the
target AS SPELLED and must predict every document: for `-o ir` the "filename", the context's file, the
symbols with their files and the (empty) "import_irs"; for `-o cacheable` the "filepath" and the results
document; for `-o stats` the badness rows and the threshold (theorems C16_out_indep / C16_out_paths /
C16_out_filename / C16_out_filepath).

Cases come from the pipeline stage's generator (props/pipeline.py, props/filegen.py) plus curated
modules with a diagnostic of every level; a case on which the PIPELINE model itself disagrees with
the implementation (C03 / C14's subject) is not used here (counted).
"""
from __future__ import annotations

import json
from pathlib import Path

import common
import diag_common as dc
from props import c15 as c15mod
from props import filelib, pipeline

CURATED = [
    # info + warning + error (5) + simplification error: thresholds and strict cut at different places
    ("target.py", "def leaf(x):\n    return x.l\ndef f(a, k):\n    a.m()\n    undefined_thing.z\n    getattr(a, k)\n    return leaf(a, a, a)\n"),
    # getattr family, dynamic names only
    ("target.py", "def rd(r, f):\n    return getattr(r, f)\ndef wr(r, f, v):\n    setattr(r, f, v)\n    return r.id\ndef hs(r, f):\n    return hasattr(r, f.name)\ndef dl(r, f):\n    delattr(r, f)\n"),
    # warnings only (strict gate: non-zero badness without any error)
    ("target.py", "class K:\n    def __init__(self, v):\n        self.v = v\ndef f(a):\n    K(a)\n    return nowhere(a)\n"),
    # infos only
    ("target.py", "import math\ndef f(a):\n    a.go()\n    return math.sqrt(a.x)\n"),
    # a fatal after some diagnostics
    ("target.py", "def g(a):\n    return a.q()\ndef f(a):\n    def inner():\n        pass\n    global G\n    return a\n"),
    # nothing at all
    ("target.py", "def f(a):\n    return a.x\n"),
    # module level: del, expression, lambda; nested class; call on a call
    ("target.py", "v = 1\ndel v\nw = 2\nw + 1\ndef h(x):\n    return x\ndef f(a):\n    class In:\n        pass\n    return h(a)()\n"),
]

HT = [(False, False), (True, True)]
SETTINGS = [dict(warn=w, H=h, T=t) for w in dc.WARN for h, t in HT]


HT4 = [(False, False), (False, True), (True, False), (True, True)]
SPELLINGS = ("as-is", "absolute", "updir")
DEPTH = ("w1", "w2", "w3", "proj")          # the project directory, below the fake $HOME


def mode_jobs(a, k):
    """[(cfg, mode)] of one (case, analysis cfg): `results` under the eight SETTINGS (as before), the
    path-bearing documents under the four -H / -T combinations (warning level rotating with k), stats
    and silent under plain and -H -T."""
    jobs = [(dict(a, **s), "results") for s in SETTINGS]
    # (every other time under the permissive setting, so that a document is printed whatever the module's badness)
    pa = dict(strict=False, threshold=0) if k % 2 else a
    jobs += [(dict(pa, warn=dc.WARN[k % 4], H=h, T=t), "ir") for h, t in HT4]
    jobs += [(dict(pa, warn=dc.WARN[(k + 1) % 4], H=h, T=t), "cacheable") for h, t in HT4]
    jobs += [(dict(a, warn=dc.WARN[(k + 2) % 4], H=h, T=t), "stats") for h, t in HT]
    jobs += [(dict(a, warn=dc.WARN[(k + 3) % 4], H=h, T=t), "silent") for h, t in HT]
    return jobs


class _Proj:
    def __init__(self, root: Path, home: Path = None):
        self.cwd = self.root = root
        self.home = root if home is None else home


def make_deep_project():
    """filelib's local package, in a project directory four components below a fake $HOME (so that an
    absolute spelling of the target is below $HOME and has more than five parts). -> (scratch, home, project)"""
    import tempfile
    scratch = Path(tempfile.mkdtemp(prefix="rattr-c16main-")).resolve()
    home = scratch / "home" / "user"
    project = home.joinpath(*DEPTH)
    for rel, text in filelib.LOCAL_PACKAGE.items():
        p = project / rel
        p.parent.mkdir(parents=True, exist_ok=True)
        p.write_text(text)
    return scratch, home, project


def spelled(project: Path, target_rel: str, spelling: str) -> str:
    if spelling == "absolute":
        return str(project / target_rel)
    if spelling == "updir":
        return str(Path("..") / project.name / target_rel)
    return target_rel


def module_name_for(project: Path, arg: str):
    """`derive_module_name_from_path` of the target as spelled (the real locator, as for every other fact
    of the payload)."""
    import impl
    from rattr.module_locator.util import derive_module_name_from_path
    with impl.in_dir(str(project)):
        impl.reset_config(target=Path(arg), _excluded_names=list(pipeline.EXCLUDE), _follow_imports_level=0,
                          _excluded_imports=list(pipeline.EXCLUDE_IMPORTS))
        return derive_module_name_from_path(Path(arg)) or ""


def real_printed(mode, stdout):
    """Projection of the real stdout to the model's `Printed` JSON (None: nothing printed)."""
    if not stdout.strip():
        return None
    if mode == "results":
        return {"mode": "results", "doc": doc_of(stdout)}
    if mode == "stats":
        st = dc.parse_stats(stdout)
        if st is None:
            return "unparseable"
        return {"mode": "stats", "buckets": [st["target"], st["import"], st["simpl"]],
                "threshold": 0 if st["threshold"] == "\u221e" else int(st["threshold"])}
    d = json.loads(stdout)
    if mode == "ir":
        t = d["target_ir"]
        ir = t["ir"]
        return {"mode": "ir", "filename": t["filename"], "contextFile": ir["context"]["file"],
                "symbols": sorted([k, v["location"]["file"]] for k, v in ir["symbols"].items()),
                "importIrs": sorted(d["import_irs"])}
    if mode == "cacheable":
        return {"mode": "cacheable", "filepath": d["filepath"],
                "doc": {k: {f: sorted(v[f]) for f in ("gets", "sets", "dels", "calls")} for k, v in d["results"].items()}}
    return "unparseable"


def model_printed(j):
    if j is None:
        return None
    j = dict(j)
    if "doc" in j:
        j["doc"] = model_doc(j["doc"])
    if "symbols" in j:
        j["symbols"] = sorted({(k, f) for k, f in j["symbols"]})
        j["symbols"] = [list(x) for x in j["symbols"]]
    if "importIrs" in j:
        j["importIrs"] = sorted(j["importIrs"])
    return j


def comparable_stdout(mode, text):
    if mode != "stats":
        return text
    st = dc.parse_stats(text)
    return json.dumps(st, sort_keys=True) if st is not None else text


def argv_for(target_rel, cfg, output="results"):
    a = ["-o", output, "-f", "0", "-w", cfg["warn"]]
    for p in pipeline.EXCLUDE:
        a += ["-x", p]
    for p in pipeline.EXCLUDE_IMPORTS:
        a += ["-F", p]
    if cfg["H"]:
        a.append("-H")
    if cfg["T"]:
        a.append("-T")
    if cfg["strict"]:
        a.append("--strict")
    if cfg["threshold"]:
        a += ["--threshold", str(cfg["threshold"])]
    return a + [target_rel]


def doc_of(stdout):
    if not stdout.strip():
        return None
    d = json.loads(stdout)
    return {k: {f: sorted(v[f]) for f in ("gets", "sets", "dels", "calls")} for k, v in d.items()}


def model_doc(j):
    if j is None:
        return None
    d = {}
    for name, ent in j:
        d[name] = {f: list(ent[f]) for f in ("gets", "sets", "dels", "calls")}
    return d


def run_main_stage(res, model, rng, n, tier, cli_sample=2, inproc=None):
    keep = []
    scratch = common.Result("C16")
    pipeline.run_pipeline_stage(scratch, rng, n, model, cli_sample=0, keep=keep, curated=False, extra=CURATED)
    res.count("main:pipeline-cases", len(keep))
    scratches = []
    k = rng.randrange(12)
    try:
        for c in keep:
            if c.diff is not None or c.mo is None or "__error__" in c.mo:
                res.count("main:skipped:pipeline-model-disagrees-here (C03's subject)")
                res.skipped_outside_fragment += 1
                continue
            if c.im["outcome"] == "crash":
                res.count("main:skipped:uncaught-exception (C07's subject)")
                res.skipped_outside_fragment += 1
                continue
            # the strict / threshold setting, around the module's own total (from the MODEL's events)
            probe = model.batch([("c16_main", {**c.payload, "cfgs": []})])[0]
            if "__error__" in probe or probe.get("outcome") != "ok":
                res.disagreements.append({"case": {"stage": "main", "module": c.src}, "diff": f"model: {probe}"})
                continue
            total = sum(e[1] for e in probe["events"])
            cands = [dict(strict=False, threshold=0), dict(strict=True, threshold=0)]
            if total > 0:
                cands += [dict(strict=False, threshold=total), dict(strict=False, threshold=max(total - 1, 1))]
            picks = [rng.choice(cands)] if tier == "quick" else cands
            sc, home, project = make_deep_project()
            scratches.append(sc)
            (project / c.target).parent.mkdir(parents=True, exist_ok=True)
            (project / c.target).write_text(c.src)
            pr = _Proj(project, home)
            for a in picks:
                k += 1
                spelling = SPELLINGS[k % 3]
                arg = spelled(project, c.target, spelling)
                payload = c.payload
                if spelling != "as-is":
                    mn = module_name_for(project, arg)
                    if mn != payload["module"]:
                        res.count("main:module-name-depends-on-spelling")
                        payload = {**payload, "module": mn}
                mjobs = mode_jobs(a, k)
                mo = model.batch([("c16_out", {**payload, "target": str(Path(arg)),
                                               "jobs": [[c15mod.model_cfg(x), m] for x, m in mjobs]})])[0]
                case = {"stage": "main", "module": c.src, "analysis_cfg": a, "spelling": spelling, "target": c.target}
                if "__error__" in mo or mo.get("outcome") != "ok":
                    res.disagreements.append({"case": case, "diff": f"model: {mo}"})
                    continue
                jobs = [(pr, argv_for(arg, x, m), False) for x, m in mjobs]
                ips = inproc(jobs) if inproc is not None else [dc.run_inprocess(p, a) for p, a, _ in jobs]
                res.evaluations += len(mjobs)
                if any(e[0] != "info" for e in probe["events"]):
                    res.nontrivial.add(common.digest({"m": c.src, "a": a}))
                res.count(f"main:analysis:{'strict' if a['strict'] else ('thr' if a['threshold'] else 'permissive')}")
                res.count(f"main:spelling:{spelling}")
                if any(ip["crash"] is not None for ip in ips):
                    res.count("main:skipped:uncaught-exception-under-some-setting")
                    res.skipped_outside_fragment += 1
                    continue
                # ---- property oracle on the real runs, per output mode
                vcase = {"program": {"single_file": c.src, "target": c.target, "spelling": spelling}, "analysis_cfg": a}
                for mode in ("results", "ir", "cacheable", "stats", "silent"):
                    rows = [(x, ip) for (x, m), ip in zip(mjobs, ips) if m == mode]
                    ref = rows[0][1]
                    for what, f in (("stdout", lambda ip: comparable_stdout(mode, ip["stdout"])), ("exit-status", lambda ip: ip["exit"]),
                                    ("badness", lambda ip: ip["buckets"])):
                        vals = [f(ip) for _, ip in rows]
                        if any(v != vals[0] for v in vals):
                            ws = sorted({x["warn"] for (x, _), v in zip(rows, vals) if v != vals[0]})
                            hts = sorted({"-H" * x["H"] + "-T" * x["T"] for (x, _), v in zip(rows, vals) if v != vals[0]} - {""})
                            if mode == "results":
                                which = "-w" if len(ws) < 4 else "-H-T"
                            else:      # one warning level per mode here: only -H / -T vary
                                which = "+".join(hts) or "-w"
                            res.violations.append({"signature": f"{what}-depends-on:single-file:" + (which if mode == "results" else f"-o-{mode}:{which}"),
                                                   "case": {**vcase, "output": mode}, "differs_at": ws,
                                                   "first_lines": {f"-w {x['warn']}{' -H' if x['H'] else ''}{' -T' if x['T'] else ''}":
                                                                   ip["stdout"][:400].splitlines()[:8] for x, ip in rows[:4]} if what == "stdout" else None})
                    del ref
                # ---- correspondence
                for (x, mode), ip, m in zip(mjobs, ips, mo["runs"]):
                    ip_printed = [[p["level"], ip["events"][p["event"]]["where"] if p["event"] is not None else "simplification"]
                                  for p in ip["printed"] if p["level"] != "rattr"]
                    try:
                        real = real_printed(mode, ip["stdout"])
                    except Exception:  # noqa
                        real = "unparseable"
                    mm = {"exit": m["exit"], "stdout": model_printed(m["stdout"]), "buckets": m["buckets"], "printed": m["printed"]}
                    ii = {"exit": ip["exit"], "stdout": real, "buckets": ip["buckets"], "printed": ip_printed}
                    diffs = [f for f in mm if mm[f] != ii[f]]
                    res.count("main:exit:" + str(ip["exit"]))
                    res.count(f"main:stdout:{mode}:" + ("document" if real else "empty"))
                    if diffs:
                        def brief(v):
                            return v if not isinstance(v, dict) else {f: (w if f != "doc" else "…") for f, w in v.items()}
                        res.disagreements.append({"case": case, "output": mode, "setting": {f: x[f] for f in ("warn", "H", "T")}, "fields": diffs,
                                                  "impl": {f: brief(ii[f]) for f in diffs}, "model": {f: brief(mm[f]) for f in diffs}})
                # ---- the real CLI on a sample (every third job: all five output modes occur)
                if cli_sample > 0:
                    cli_sample -= 1
                    picked = list(zip(mjobs, mo["runs"]))[::3]
                    for ((x, mode), m), r in zip(picked, dc.run_cli_many([(pr, argv_for(arg, x, mode)) for (x, mode), _ in picked])):
                        try:
                            real = real_printed(mode, r["stdout"])
                        except Exception:  # noqa
                            real = "unparseable"
                        lv = [l["level"] for l in r["lines"] if l["level"] != "rattr"]
                        if r["exit"] != m["exit"] or real != model_printed(m["stdout"]) or lv != [p[0] for p in m["printed"]] or r["junk"]:
                            res.disagreements.append({"case": case, "output": mode, "setting": {f: x[f] for f in ("warn", "H", "T")}, "fields": ["cli"],
                                                      "impl": {"exit": r["exit"], "levels": lv, "junk": r["junk"][:3]},
                                                      "model": {"exit": m["exit"], "levels": [p[0] for p in m["printed"]]}})
    finally:
        import shutil
        for p in scratches:
            shutil.rmtree(p, ignore_errors=True)
    if scratch.internal_errors:
        res.internal_errors.extend(scratch.internal_errors[:3])


def replay_case(case, base):
    """A failing single-file case: the module at <fake home>/w1/w2/w3/proj/<target>, spelled as recorded,
    every setting through the real CLI in the recorded output mode."""
    prog, a = case["program"], case["analysis_cfg"]
    home = base / "home" / "user"
    project = home.joinpath(*DEPTH)
    for rel, text in filelib.LOCAL_PACKAGE.items():
        p = project / rel
        p.parent.mkdir(parents=True, exist_ok=True)
        p.write_text(text)
    (project / prog["target"]).parent.mkdir(parents=True, exist_ok=True)
    (project / prog["target"]).write_text(prog["single_file"])
    arg = spelled(project, prog["target"], prog.get("spelling", "as-is"))
    mode = case.get("output", "results")
    pr = _Proj(project, home)
    print("cwd:", project, " HOME:", home, " target argument:", arg, " output mode:", mode)
    print("MODULE:\n" + prog["single_file"])
    for w in dc.WARN:
        for h, t in HT4:
            r = dc.run_cli(pr, argv_for(arg, dict(a, warn=w, H=h, T=t), mode))
            print(f"-w {w}{' -H' if h else ''}{' -T' if t else ''}", "exit", r["exit"], "stdout", common.digest(comparable_stdout(mode, r["stdout"])),
                  "first lines:", r["stdout"][:200].splitlines()[:6] if mode in ("ir", "cacheable") else "")
    return 0

"""C08, cross-module rows: SAME-NAMED symbols in the target file and in followed imports.

One project = target.py + imp1.py + imp2.py (imp1 imports imp2).  For every symbol kind
(function, lambda, class, static method) and every *configuration* = which of the three modules
define a symbol of that name and how (see FLAVOURS), a distinct symbol name carries the
configuration (`fn_DAE` = function defined in the target with the plain signature, absent from imp1,
defined in imp2 with another signature), so ONE project holds the whole small-scope cube.

Every module has a `use_<name>` function calling *its own* global of that name; the target also
calls the imports' `use_…` functions, the imports' symbols directly (`imp1.<name>(v)`), a function of
imp1 that calls imp2's `use_…` (import of an import) and, in one function, its own symbol AND the
import's `use_…` with the same argument spelling.

Oracle (Python's scoping rules, nothing else): a bare call made in module M refers to M's own
module global; it is never a same-named symbol of another file.  The body that may be inlined is
therefore M's definition (when it has a body: function / lambda / class WITH `__init__` / static
method) and nothing when M does not define the name (NameError in Python) or defines a class without
`__init__`.  Each definition reads one distinctive attribute `mark_<module>_<name>`; the marks found in
the caller's results entry say which bodies were inlined.

Signatures are computed from the INPUT only: kind, where the bare call is made, the flavour of the
calling module's own definition, and who else defines the name (with which flavour).
"""
from __future__ import annotations

import itertools

ROLES = ("target", "imp1", "imp2")
KIND_NAME = {"fn": "function", "lam": "lambda", "cls": "class", "static": "static-method",
             "mixed": "class-or-function"}
# A absent; D defined, signature (a); E defined, signature (a, b=None); I class with __init__(self, a);
# N class without __init__
# kind "mixed": ONE name that is a class in one module and a function in another — F function (a), I / N as for classes
FLAV_NAME = {"F": "function", "A": "absent", "D": "same-signature", "E": "other-signature", "I": "with-init", "N": "without-init"}
HAS_BODY = {"D", "E", "I", "F"}


def configs():
    out = []
    for kind, flavs in (("fn", "ADE"), ("lam", "AD"), ("static", "AD"), ("cls", "AIN")):
        for cfg in itertools.product(flavs, repeat=3):
            if set(cfg) != {"A"}:
                out.append((kind, cfg))
    # classes whose initialisers differ in signature (classes are looked up by name only)
    out += [("cls", c) for c in (("E", "I", "A"), ("I", "E", "A"), ("A", "I", "E"), ("A", "E", "I"),
                                 ("E", "N", "A"), ("N", "E", "A"))]
    # one name, a class here and a function there (classes are looked up by NAME across all files)
    for cfg in itertools.product("AFIN", repeat=3):
        # (a class without __init__ next to one WITH __init__ is the `cls` cube's subject — a known defect — and is left
        # out here so that this block is about the class / function confusion alone)
        if "F" in cfg and (("I" in cfg) != ("N" in cfg)):
            out.append(("mixed", cfg))
    return out


def sym_name(kind, cfg):
    stem = {"fn": "fn", "lam": "lam", "cls": "Cls", "static": "Hs", "mixed": "Mix"}[kind]
    return f"{stem}_{''.join(cfg)}"


def mark(role, name):
    return f"mark_{role}_{name}"


def definition(kind, flav, role, name):
    m = mark(role, name)
    if flav == "A":
        return None
    sig = "a" if flav in "DI" else "a, b=None"
    if kind == "fn" or flav == "F":
        return f"def {name}({sig}):\n    return a.{m}\n"
    if kind == "lam":
        return f"{name} = lambda {sig}: a.{m}\n"
    if kind == "static":
        return f"class {name}:\n    @staticmethod\n    def sm({sig}):\n        return a.{m}\n"
    if flav == "N":
        return f"class {name}(dict):\n    def meth(self, a):\n        return a.{m}_meth\n"
    return f"class {name}:\n    def __init__(self, {sig}):\n        self.s = a.{m}\n"


def call_own(kind, name, arg="a"):
    if kind in ("cls", "mixed"):
        return f"k = {name}({arg})"
    if kind == "static":
        return f"{name}.sm({arg})"
    return f"{name}({arg})"


def call_direct(kind, module, name, arg):
    if kind in ("cls", "mixed"):
        return f"k = {module}.{name}({arg})"
    if kind == "static":
        return f"{module}.{name}.sm({arg})"
    return f"{module}.{name}({arg})"


def own_label(flav, kind=None):
    if kind == "mixed":
        return {"A": "absent", "F": "function", "I": "class-with-init", "N": "class-without-init"}[flav]
    return "absent" if flav == "A" else "without-init" if flav == "N" else "defined"


def rel(own, other, kind=None):
    """how another module's definition (which HAS a body) relates to the calling module's own one."""
    if kind == "mixed":
        return {"F": "function", "I": "class-with-init"}[other]
    if own in ("A", "N"):
        return "with-body"
    return "equal-signature" if own == other else "different-signature"


def others_label(cfg, resolving, kind=None):
    """the OTHER modules defining a same-named symbol that has a body (the candidate wrong callees), relative to
    the module whose global Python picks."""
    i = ROLES.index(resolving)
    own = cfg[i]
    parts = []
    if resolving == "target":
        rels = sorted({rel(own, f, kind) for f in (cfg[1], cfg[2]) if f in HAS_BODY})
        if rels:
            parts.append("import(" + "/".join(rels) + ")")
    else:
        o = 3 - i           # the other import
        if cfg[0] in HAS_BODY:
            parts.append(f"target({rel(own, cfg[0], kind)})")
        if cfg[o] in HAS_BODY:
            parts.append(f"other-import({rel(own, cfg[o], kind)})")
    return "+".join(parts) if parts else "nobody"


def signature(kind, site, cfg, resolving):
    own = cfg[ROLES.index(resolving)]
    if site == "both":
        return (f"wrong-callee-across-modules:{KIND_NAME[kind]}:same-spelled-calls-in-target-and-import:"
                f"target={own_label(cfg[0], kind)}:import={own_label(own, kind)}"
                + (f"({rel(cfg[0], own, kind)})" if own in HAS_BODY and cfg[0] in HAS_BODY else ""))
    return (f"wrong-callee-across-modules:{KIND_NAME[kind]}:{site}:own={own_label(own, kind)}:"
            f"same-name-in={others_label(cfg, resolving, kind)}")


def expected_marks(cfg, role, name):
    return [mark(role, name)] if cfg[ROLES.index(role)] in HAS_BODY else []


def build(rng, callers_first=(False, False, False), layout="flat"):
    """-> (files: dict relpath -> source, rows, import lines of the target).
    `callers_first[i]`: module i (target, imp1, imp2) has its calling functions BEFORE its definitions (a call recorded
    before its class was analysed carries the class symbol of the root context, not the re-registered one); the
    `layout`: "flat" = imp1.py / imp2.py next to target.py; "packages" = pa/shared.py and pb/shared.py (two followed
    imports whose FILE NAMES are equal), bound to the names imp1 / imp2 by `from pa import shared as imp1`.
    classes holding static methods always come first (a static method is only known once its class was visited: the
    known finding `not-inlined-though-python-resolves-it:dotted:static-method:callers-first`).
    row = dict(name=<function of target.py>, src, expect=[marks], sig=<signature if the marks differ>, row=(…))

    Every row of the target reaches import functions of its OWN (`use_…` / `useb_…` / `used_…`): result generation
    mutates the IRs it walks (C14), so a function shared between two rows would make one row's answer depend on
    whether the other was processed first."""
    cfgs = configs()
    defs = {r: [] for r in ROLES}
    sdefs = {r: [] for r in ROLES}
    uses = {r: [] for r in ROLES}
    rows = []
    for kind, cfg in cfgs:
        n = sym_name(kind, cfg)
        c = "".join(cfg)
        for i, r in enumerate(ROLES):
            d = definition(kind, cfg[i], r, n)
            if d is not None:
                (sdefs if kind == "static" else defs)[r].append(d)
        for r in ("imp1", "imp2"):
            uses[r].append(f"def use_{n}(a):\n    {call_own(kind, n)}\n")
        uses["imp1"].append(f"def useb_{n}(a):\n    {call_own(kind, n)}\n")
        uses["imp2"].append(f"def used_{n}(a):\n    {call_own(kind, n)}\n")
        uses["imp1"].append(f"def deep_{n}(a):\n    imp2.used_{n}(a)\n")

        def add(fname, body, expect, site, resolving, form):
            src = f"def {fname}(a):\n" + "".join(f"    {l}\n" for l in body)
            rows.append({"name": fname, "src": src, "expect": sorted(expect), "kind": kind, "cfg": c,
                         "sig": signature(kind, site, cfg, resolving),
                         "row": ("cross-module", KIND_NAME[kind], form, c)})

        add(f"t_own_{n}", [call_own(kind, n)], expected_marks(cfg, "target", n), "call-in-target", "target",
            "own-bare-call-in-target")
        for imp in ("imp1", "imp2"):
            add(f"t_via_{imp}_{n}", [f"{imp}.use_{n}(a)"], expected_marks(cfg, imp, n), "call-in-import", imp,
                "bare-call-inside-followed-import")
            # direct dotted call: the callee module is explicit
            add(f"t_dir_{imp}_{n}", [call_direct(kind, imp, n, "a")], expected_marks(cfg, imp, n), "direct-dotted-call",
                imp, "direct-dotted-call-from-target")
        add(f"t_deep_{n}", [f"imp1.deep_{n}(a)"], expected_marks(cfg, "imp2", n), "call-in-import", "imp2",
            "bare-call-inside-import-of-import")
        # own call and the import's own call, spelled alike, in ONE caller: both bodies (only where both HAVE bodies:
        # the other configurations are the `t_own` / `t_via` rows once more)
        if cfg[0] in HAS_BODY and cfg[1] in HAS_BODY and not (kind == "mixed" and cfg[0] == cfg[1]):
            add(f"t_both_{n}", [call_own(kind, n), f"imp1.useb_{n}(a)"],
                expected_marks(cfg, "target", n) + expected_marks(cfg, "imp1", n), "both", "imp1",
                "own-call-and-same-spelled-call-inside-import")
    for r in ROLES:
        rng.shuffle(defs[r])
        rng.shuffle(sdefs[r])
        rng.shuffle(uses[r])
    t_rows = list(rows)
    rng.shuffle(t_rows)
    if layout == "packages":
        imp_line = {"imp1": "from pa import shared as imp1\n", "imp2": "from pb import shared as imp2\n"}
        paths = {"imp1": "pa/shared.py", "imp2": "pb/shared.py"}
    else:
        imp_line = {"imp1": "import imp1\n", "imp2": "import imp2\n"}
        paths = {"imp1": "imp1.py", "imp2": "imp2.py"}
    imports_t = [imp_line["imp1"], imp_line["imp2"]]
    rng.shuffle(imports_t)

    def module(i, head, callers):
        r = ROLES[i]
        parts = [callers, "\n".join(defs[r])] if callers_first[i] else ["\n".join(defs[r]), callers]
        return head + "\n" + "\n".join(sdefs[r]) + "\n" + "\n".join(parts)

    files = {
        paths["imp2"]: module(2, "", "\n".join(uses["imp2"])),
        paths["imp1"]: module(1, imp_line["imp2"], "\n".join(uses["imp1"])),
        "target.py": module(0, "".join(imports_t), "\n".join(r["src"] for r in t_rows)),
    }
    if layout == "packages":
        files["pa/__init__.py"] = ""
        files["pb/__init__.py"] = ""
    return files, t_rows, imports_t


def marks_of(entry):
    """the distinctive attribute names (last component) present in a results entry."""
    return sorted({n.rsplit(".", 1)[-1] for k in ("gets", "sets", "dels") for n in entry[k] if "mark_" in n})

"""C05 — whole PROJECTS (a target and the modules it imports, imports followed).

  * `ProjGen`: generator of projects: 0-2 local modules (imported plainly, `from … import`, under an
    alias; chains target -> liba -> libb), functions and classes with an acyclic call graph across the
    modules, and SHADOWING statements: function bodies that bind / unbind / use a LOCAL name spelt like
    a module-level function, class, import or variable (`N = …`, `del N`, `for N in`, `with … as N`,
    `except … as N`, walrus, comprehension variable, lambda parameter, nested def, parameter).
    mode "clean": bare parameters as arguments, every definition has at most one call site (the call
    graph unfolds to a tree from every root: the fragment of `C05_tree_order_independent`), so no known
    order-dependence applies and every variant must give every function the same results;
    mode "free": shared parameter names, diamonds, compound arguments (for the history stage, whose
    oracle compares identical sources only).
  * variants of a project: definitions permuted (in the target, in an imported module, everywhere),
    unrelated definitions added (to the target / to an imported module; fresh names, and names EQUAL to
    a function / class defined in ANOTHER file of the project), unreachable definitions removed.
  * `run_main`: the real `rattr.__main__.main` in-process (follow imports), capturing the IRs as result
    generation receives them; `snapshot_project` + the Lean op `results`: the model `Results.generate`
    on the multi-file program (roots = the target's functions, keys = all functions of all files).
  * history: one fresh interpreter analyses a sequence of targets (A,A / A,B,A / B,A,B) with rattr
    used as a library, exactly as `main()` does, NOT clearing any functools cache in between.
"""
from __future__ import annotations

import ast
import contextlib
import io
import json
import os
import random
import shutil
import subprocess
import sys
import tempfile
from pathlib import Path
from unittest import mock

import impl
from props import resultslib as rl

from rattr.cli import parse_arguments
from rattr.config import Config, State
from rattr.config._types import ConfigMetaclass
from rattr.results import IrCall, IrEnvironment, find_call_target_and_ir

BASE_SIG = "results-depend-on-definition-order-or-unrelated-code"
HIST_SIG = "results-depend-on-earlier-analysis-in-the-same-process"

# ------------------------------------------------------------------ the generator

STRUCTURES = [
    ("single", {"target": []}),
    ("one-import", {"target": ["liba"], "liba": []}),
    ("two-imports", {"target": ["liba", "libb"], "liba": [], "libb": []}),
    ("chain", {"target": ["liba"], "liba": ["libb"], "libb": []}),
    ("chain+direct", {"target": ["liba", "libb"], "liba": ["libb"], "libb": []}),
]
SHORT = {"target": "t", "liba": "a", "libb": "b"}

SHADOW_FORMS = ["assign-del", "del-only", "assign", "annassign", "for", "for-del", "with", "with-del", "walrus",
                "except", "comp", "lambda", "nested-def", "tuple-del", "del-attr", "del-item", "param", "augassign",
                "assign-call", "del-then-call"]


CALL_FORMS = {"nested-def", "assign-call", "del-then-call"}


class Def:
    """One top-level definition of a module."""

    def __init__(self, mod, name, kind, params):
        self.mod, self.name, self.kind, self.params = mod, name, kind, list(params)
        self.lines = []
        self.calls = []         # (module, name) of the definitions it calls (Python semantics)
        self.mentions = []      # (module, name) it merely spells (shadowing): kept when it is kept
        self.shadow = []        # forms of the shadowing statements in its body

    @property
    def key(self):
        return (self.mod, self.name)

    def source(self):
        body = [x for l in (self.lines or ["pass"]) for x in l.split("\n")]      # a statement may span lines
        if self.kind == "func":
            return f"def {self.name}({', '.join(self.params)}):\n" + "".join(f"    {l}\n" for l in body)
        return (f"class {self.name}:\n    def __init__({', '.join(self.params)}):\n"
                + "".join(f"        {l}\n" for l in body))


class Module:
    def __init__(self, name):
        self.name = name
        self.header = []        # import lines and module-level variables, always first
        self.defs = []          # Def or raw source chunks (str) in definition order
        self.spell = {}         # (module, defname) -> how this module spells it
        self.bare = set()       # bare names visible at module level

    def source(self, order=None):
        defs = self.defs if order is None else order
        return "\n".join(self.header) + "\n\n" + "\n".join(d if isinstance(d, str) else d.source() for d in defs)


class Project:
    def __init__(self, structure, mode):
        self.structure, self.mode = structure, mode
        self.mods = {}          # name -> Module, dependency order (imported first)
        self.features = set()

    def files(self, orders=None):
        orders = orders or {}
        return {("target.py" if n == "target" else n + ".py"): m.source(orders.get(n)) for n, m in self.mods.items()}

    def all_defs(self):
        return [d for m in self.mods.values() for d in m.defs if isinstance(d, Def)]

    def find(self, key):
        return next(d for d in self.all_defs() if d.key == key)

    def reachable(self, roots):
        seen, st = set(), list(roots)
        while st:
            k = st.pop()
            if k in seen:
                continue
            seen.add(k)
            d = self.find(k)
            st.extend(d.calls)
            st.extend(d.mentions)
        return seen


class ProjGen:
    def __init__(self, rng: random.Random, mode="clean", structure=None, shadow=None):
        self.r = rng
        self.mode = mode
        self.structure = structure
        self.shadow = shadow
        self.n = 0

    def fresh(self, p):
        self.n += 1
        return f"{p}{self.n}"

    def params_for(self, tag):
        r = self.r
        n = r.randint(1, 3)
        if self.mode == "free" and r.random() < 0.6:
            return r.sample(["item", "other", "left"], n)
        return [f"{tag}{c}" for c in "xyz"[:n]]

    def own_access(self, p):
        r = self.r
        k = r.choice(["get", "get", "set", "del", "deep"])
        a = self.fresh("a")
        return {"get": f"{p}.{a}", "set": f"{p}.{a} = 1", "del": f"del {p}.{a}", "deep": f"{p}.{a}.{self.fresh('a')}"}[k]

    def arg(self, params):
        r = self.r
        p = r.choice(params)
        if self.mode == "free" and r.random() < 0.15:
            return r.choice([f"{p}.{self.fresh('n')}", f"{p}[0]"])
        return p

    def build(self):
        r = self.r
        st = self.structure or r.choice(STRUCTURES)
        if isinstance(st, str):
            st = next(s for s in STRUCTURES if s[0] == st)
        name, deps = st
        proj = Project(name, self.mode)
        used = set()                                    # definitions that already have a call site (clean mode)
        for mname in [m for m in ("libb", "liba", "target") if m in deps]:
            m = Module(mname)
            proj.mods[mname] = m
            short = SHORT[mname]
            # ---- imports
            for dep in deps[mname]:
                style = r.choice(["import", "from", "alias"])
                dm = proj.mods[dep]
                dnames = [d.name for d in dm.defs]
                if style == "import":
                    m.header.append(f"import {dep}")
                    m.bare.add(dep)
                    for n in dnames:
                        m.spell[(dep, n)] = f"{dep}.{n}"
                elif style == "alias":
                    al = f"{short}_{dep}"
                    m.header.append(f"import {dep} as {al}")
                    m.bare.add(al)
                    for n in dnames:
                        m.spell[(dep, n)] = f"{al}.{n}"
                else:
                    some = r.sample(dnames, r.randint(1, len(dnames)))
                    m.header.append(f"from {dep} import {', '.join(some)}")
                    for n in some:
                        m.bare.add(n)
                        m.spell[(dep, n)] = n
            if r.random() < 0.5:
                v = f"{short.upper()}_CONFIG"
                m.header.append(f"{v} = 1")
                m.bare.add(v)
            # ---- definitions: functions f0 … and maybe a class; calls go to LATER definitions of this module
            # and to definitions of imported modules
            nf = r.randint(2, 4)
            defs = [Def(mname, f"{short}_f{i}", "func", self.params_for(f"{short}{i}")) for i in range(nf)]
            if r.random() < 0.5:
                defs.insert(r.randint(0, nf), Def(mname, f"{short.upper()}K", "class", ["self"] + self.params_for(f"{short}k")))
            for d in defs:
                m.spell[(mname, d.name)] = d.name
                m.bare.add(d.name)
            for i, d in enumerate(defs):
                ps = [p for p in d.params if p != "self"]
                for p in ps:
                    if r.random() < 0.85:
                        d.lines.append(self.own_access(p))
                if d.kind == "class":
                    d.lines.append(f"self.{self.fresh('s')} = {r.choice(ps)}.{self.fresh('a')}")
                cands = [c.key for c in defs[i + 1:]] + [k for k in m.spell if k[0] != mname]
                r.shuffle(cands)
                ncalls = r.choice([0, 1, 1, 2]) if d.kind == "func" else r.choice([0, 0, 1])
                for key in cands:
                    if ncalls == 0:
                        break
                    if self.mode == "clean" and key in used:
                        continue
                    callee = proj.find(key) if key[0] != mname else next(c for c in defs if c.key == key)
                    cps = [p for p in callee.params if p != "self"]
                    if self.mode == "free":
                        # the same argument names from several callers: EQUAL Call symbols on several paths
                        args = [q if (q in ps and r.random() < 0.7) else self.arg(ps) for q in cps]
                    else:
                        args = [self.arg(ps) for _ in cps]
                    call = f"{m.spell[key]}({', '.join(args)})"
                    if callee.kind == "class" and r.random() < 0.5:
                        call = f"{self.fresh('inst')} = {call}"
                    elif r.random() < 0.3 and d.kind == "func":
                        call = f"return {call}"
                    d.lines.append(call)
                    d.calls.append(key)
                    used.add(key)
                    ncalls -= 1
                rets = [l for l in d.lines if l.startswith("return ")]
                rest = [l for l in d.lines if not l.startswith("return ")]
                r.shuffle(rest)
                d.lines = rest + rets[:1]
            m.defs = defs
        # ---- shadowing
        want = self.shadow if self.shadow is not None else (r.random() < 0.8)
        if want:
            for _ in range(r.randint(1, 3)):
                self.add_shadow(proj)
        return proj

    # a function body that binds / unbinds / uses a local name spelt like a module-level name
    def add_shadow(self, proj, form=None, where=None):
        r = self.r
        mname = where or r.choice(list(proj.mods))
        m = proj.mods[mname]
        short = SHORT[mname]
        names = sorted(m.bare)
        # mostly a name some definition of this module really calls (its spelling's first component)
        called = sorted({m.spell[k].split(".")[0] for d in m.defs if isinstance(d, Def) for k in d.calls if k in m.spell})
        n = r.choice(called) if called and r.random() < 0.7 else r.choice(names)
        form = form or r.choice(SHADOW_FORMS)
        k = self.fresh("")
        mention = [key for key, sp in m.spell.items() if sp == n or sp.split(".")[0] == n]
        funcs = [d for d in m.defs if isinstance(d, Def)]         # a class hosts the statements in its __init__
        if form == "param":
            d = Def(mname, f"{short}_shadow{k}", "func", [n, f"q{k}"])
            d.lines = [f"{n}.use{k}", f"{n}(q{k})"]
            host, lines = d, None
            m.defs.insert(r.randint(0, len(m.defs)), d)
        else:
            # a form that CALLS the name is resolved by rattr to the module-level definition (Context.add never
            # shadows): inside an existing function that would close a cycle / a second path in the call graph
            # rattr sees (known order dependences); such forms get a function of their own, which nobody calls
            if r.random() < 0.5 and funcs and form not in CALL_FORMS:
                host = r.choice(funcs)
            else:
                host = Def(mname, f"{short}_shadow{k}", "func", [f"c{k}"])
                m.defs.insert(r.randint(0, len(m.defs)), host)
            p = r.choice([q for q in host.params if q not in (n, "self")] or host.params)
            lines = {
                "assign-del": [f"{n} = {p}.sh{k}", f"{n}.use{k}", f"del {n}"],
                "del-only": [f"del {n}"],
                "assign": [f"{n} = {p}.sh{k}", f"{n}.use{k}"],
                "annassign": [f"{n}: int = {p}.sh{k}", f"del {n}"],
                "for": [f"for {n} in {p}.sh{k}:", f"    {n}.use{k}"],
                "for-del": [f"for {n} in {p}.sh{k}:", f"    {n}.use{k}", f"del {n}"],
                "with": [f"with {p}.sh{k} as {n}:", f"    {n}.use{k}"],
                "with-del": [f"with {p}.sh{k} as {n}:", f"    {n}.use{k}", f"    del {n}"],
                "walrus": [f"({n} := {p}.sh{k}).use{k}", f"del {n}"],
                "except": ["try:", f"    {p}.sh{k}", f"except {p}.exc{k} as {n}:", f"    {n}.use{k}"],
                "comp": [f"[{n}.use{k} for {n} in {p}.sh{k}]"],
                "lambda": [f"(lambda {n}: {n}.use{k})({p})"],
                "nested-def": [f"def {n}(z{k}):", f"    z{k}.use{k}", f"{n}({p})", f"del {n}"],
                "tuple-del": [f"{n}, tmp{k} = {p}.sh{k}", f"del ({n}, tmp{k})"],
                "del-attr": [f"del {n}.attr{k}"],
                "del-item": [f"del {n}[0]"],
                "augassign": [f"{n} += {p}.sh{k}", f"del {n}"],
                "assign-call": [f"{n} = {p}.sh{k}", f"{n}({p})", f"del {n}"],
                "del-then-call": [f"del {n}", f"{n}({p})"],
            }[form]
            stmts = []
            for l in lines:                      # an indented line continues the statement before it
                if (l.startswith("    ") or l.startswith("except ")) and stmts:
                    stmts[-1] += "\n" + l
                else:
                    stmts.append(l)
            pos = r.randint(0, len(host.lines))
            if host.lines and host.lines[-1].startswith("return ") and pos == len(host.lines):
                pos -= 1
            host.lines[pos:pos] = stmts
        host.mentions.extend(mention)
        host.shadow.append(form)
        proj.features.add("shadow:" + form)
        return host


# ------------------------------------------------------------------ variants

def perm(rng, xs):
    ys = list(xs)
    rng.shuffle(ys)
    return ys


def unrelated_chunk(rng, name, kind, params, tag):
    ps = list(params)
    if kind == "func":
        body = "".join(f"    {p}.unrelated_{tag}\n" for p in ps[:1]) or "    pass\n"
        return f"def {name}({', '.join(ps)}):\n{body}    return 0\n"
    ps = ["self"] + [p for p in ps if p != "self"]
    return f"class {name}:\n    def __init__({', '.join(ps)}):\n        self.unrelated_{tag} = 1\n"


def variants_of(rng, proj: Project, n_perm=2):
    """[(kind, files, compared)]: `compared` = names of the target's functions whose results must equal
    the base project's (None = all the base's)."""
    out = []
    mods = proj.mods
    libs = [n for n in mods if n != "target"]
    for _ in range(n_perm):
        out.append(("perm:target", proj.files({"target": perm(rng, mods["target"].defs)}), None))
    for lib in libs:
        out.append((f"perm:import", proj.files({lib: perm(rng, mods[lib].defs)}), None))
    if libs:
        out.append(("perm:all", proj.files({n: perm(rng, m.defs) for n, m in mods.items()}), None))

    def insert(mod, chunk):
        ds = list(mods[mod].defs)
        ds.insert(rng.randint(0, len(ds)), chunk)
        return proj.files({mod: ds})

    # ---- unrelated definitions added to the target
    t = mods["target"]
    out.append(("added:target:fresh-function", insert("target", unrelated_chunk(rng, "zz_unrelated", "func", ["u"], "fresh")), None))
    out.append(("added:target:fresh-class", insert("target", unrelated_chunk(rng, "ZZUnrelated", "class", ["u"], "fresh")), None))
    foreign = [d for d in proj.all_defs() if d.mod != "target" and d.name not in t.bare]
    for d in rng.sample(foreign, min(2, len(foreign))):
        same = rng.random() < 0.6
        ps = d.params if same else ["other_" + p for p in d.params if p != "self"] + ["extra"]
        kind = d.kind if rng.random() < 0.8 else ("class" if d.kind == "func" else "func")
        what = {"func": "function", "class": "class"}
        label = f"added:target:{what[kind]}-named-like-{what[d.kind]}-of-followed-import"
        if d.kind == "func" and kind == "func":
            label += ":same-parameters" if same else ":other-parameters"
        out.append((label, insert("target", unrelated_chunk(rng, d.name, kind, [p for p in ps if p != "self"], "clash")), None))
    # ---- unrelated definitions added to an imported module
    for lib in libs[:1] if libs else []:
        lm = mods[lib]
        out.append(("added:import:fresh-function", insert(lib, unrelated_chunk(rng, "zz_unrelated_in_import", "func", ["u"], "fresh")), None))
        others = [d for d in proj.all_defs() if d.mod != lib and d.name not in lm.bare]
        for d in rng.sample(others, min(1, len(others))):
            what = {"func": "function", "class": "class"}
            src_mod = "target" if d.mod == "target" else "another-import"
            out.append((f"added:import:{what[d.kind]}-named-like-{what[d.kind]}-of-{src_mod}",
                        insert(lib, unrelated_chunk(rng, d.name, d.kind, [p for p in d.params if p != "self"], "clash")), None))
    # ---- everything a root does not transitively call removed (in every file)
    tdefs = [d for d in t.defs if isinstance(d, Def) and d.kind == "func"]
    if tdefs:
        root = rng.choice(tdefs)
        keep = proj.reachable([root.key])
        orders = {n: [d for d in m.defs if isinstance(d, Def) and d.key in keep] for n, m in mods.items()}
        if any(len(orders[n]) != len(mods[n].defs) for n in mods):
            out.append(("removed", proj.files(orders), sorted(d.name for d in orders["target"])))
    return out


# ------------------------------------------------------------------ the real thing, in-process


def _drop_config():
    ConfigMetaclass._instance = None
    try:
        Config._instance = None
    except Exception:
        pass


def write_files(d: Path, files):
    for old in d.glob("*.py"):
        if old.name != DRIVER_NAME:
            old.unlink()
    for fn, content in files.items():
        (d / fn).write_text(content)


def argv_for(target="target.py", follow=1):
    return ["-o", "results", "-f", str(follow), "-w", "none", target]


def doc_of(stdout):
    doc = json.loads(stdout)
    return {k: {f: sorted(v[f]) for f in ("gets", "sets", "dels", "calls")} for k, v in doc.items()}


def run_main(project: Path, target="target.py", follow=1, capture=False):
    """`rattr.__main__.main` on project/target as a fresh process would run it (every functools cache
    cleared first). Returns {"outcome", "doc", ["snap", "round"]}."""
    import rattr.__main__ as main_mod

    out = io.StringIO()
    r = {"outcome": None, "doc": None}
    with impl.in_dir(str(project)):
        _drop_config()
        impl.clear_caches_fast()
        try:
            with impl.Tap():
                args = parse_arguments(sys_args=argv_for(target, follow))
                cfg = Config(arguments=args, state=State())
            orig = main_mod.generate_results_from_ir

            def gen(*, target_ir, import_irs):
                if capture:
                    r["snap"] = snapshot_project(target_ir, import_irs)
                res = orig(target_ir=target_ir, import_irs=import_irs)
                if capture:
                    r["round"] = impl_round(r["snap"], res)
                return res

            with impl.Tap(), contextlib.redirect_stdout(out), mock.patch.object(main_mod, "generate_results_from_ir", gen):
                oc = impl.outcome_of(main_mod.main, cfg)
        finally:
            _drop_config()
    r["outcome"] = oc[0] if oc[0] != "crash" else f"crash:{oc[1]}"
    if oc[0] == "ok":
        try:
            r["doc"] = doc_of(out.getvalue())
        except Exception as e:  # noqa
            r["outcome"] = "crash:unparseable-stdout:" + type(e).__name__
    return r


def cli_run(project: Path, target="target.py", hashseed=0, follow=1):
    env = dict(os.environ, PYTHONHASHSEED=str(hashseed), PYTHONDONTWRITEBYTECODE="1")
    p = subprocess.run([sys.executable, "-m", "rattr", *argv_for(target, follow)], cwd=str(project), env=env,
                       capture_output=True, text=True, timeout=300)
    if p.returncode != 0:
        return {"outcome": f"exit:{p.returncode}", "doc": None, "stderr": p.stderr[-400:]}
    try:
        return {"outcome": "ok", "doc": doc_of(p.stdout)}
    except Exception:  # noqa
        return {"outcome": "unparseable", "doc": None}


# ------------------------------------------------------------------ multi-file snapshot for the op `results`


def snapshot_project(target_ir, import_irs):
    """Like resultslib.snapshot, over ALL files: keys = the target's symbols (the roots, in order),
    then every import's symbols; the resolver is the real find_call_target_and_ir with the real
    environment. Keeps the live IR objects (under "_live") to read the store back afterwards."""
    entries = [(s, target_ir[s]) for s in target_ir]
    n_roots = len(entries)
    for _, ir in import_irs.items():
        entries.extend((s, ir[s]) for s in ir)
    env = IrEnvironment(target_ir=target_ir, import_irs=import_irs)
    cids, resolve, fns = {}, {}, []
    with impl.Tap():
        for k, (sym, ir) in enumerate(entries):
            calls = []
            for c in ir["calls"]:
                cid = cids.setdefault(c, len(cids))
                calls.append({"cid": cid, "name": c.id, "args": list(c.args.args),
                              "kwargs": [[a, b] for a, b in c.args.kwargs.items()]})
                if cid not in resolve:
                    out = impl.outcome_of(find_call_target_and_ir, IrCall(caller=sym, symbol=c), environment=env)
                    if out[0] == "ok" and out[1] is not None:
                        tk = [j for j, (s2, ir2) in enumerate(entries) if ir2 is out[1].ir]
                        resolve[cid] = tk[0] if tk else "foreign"
                    elif out[0] == "ok":
                        resolve[cid] = None
                    else:
                        resolve[cid] = "crash:" + str(out[1])
            fns.append({"name": sym.name, "kind": type(sym).__name__, "iface": rl.iface_json(sym), "calls": calls,
                        "gets": rl.names_of_set(ir["gets"]), "sets": rl.names_of_set(ir["sets"]),
                        "dels": rl.names_of_set(ir["dels"])})
    return {"fns": fns, "resolve": [[c, k] for c, k in sorted(resolve.items())], "order": list(range(n_roots)),
            "_live": entries}


def impl_round(snap, res):
    entries = snap["_live"]
    results = []
    for k in snap["order"]:
        sym = entries[k][0]
        if sym.id not in res:
            results.append({"key": k, "gets": ["<function missing from results>"], "sets": [], "dels": []})
            continue
        r = res[sym.id]
        results.append({"key": k, "gets": sorted(r["gets"]), "sets": sorted(r["sets"]), "dels": sorted(r["dels"])})
    store = [{"key": k, "gets": rl.names_of_set(ir["gets"]), "sets": rl.names_of_set(ir["sets"]),
              "dels": rl.names_of_set(ir["dels"])} for k, (_, ir) in enumerate(entries)]
    return {"results": results, "store": store}


def model_payload(snap):
    return {k: v for k, v in snap.items() if k != "_live"}


def snapshot_usable(snap):
    """the model's fragment: every call resolves to a key or to nothing; results are keyed by NAME in the
    implementation, so two roots of one name are outside."""
    if any(not (k is None or isinstance(k, int)) for _, k in snap["resolve"]):
        return False
    names = [snap["fns"][k]["name"] for k in snap["order"]]
    return len(set(names)) == len(names)


def compare_round(snap, rnd, mo):
    if "__error__" in mo or mo.get("outcome") != "ok":
        return {"model": mo}
    mm = rl.canon_model_round(mo["rounds"][0])
    if mm != rnd:
        return {"impl": rnd, "model": mm}
    return None


# ------------------------------------------------------------------ history: several analyses in ONE interpreter

HISTORY_DRIVER = r'''
import contextlib, io, json, sys
sys.argv = ["rattr"]
import rattr.__main__ as main_mod
from rattr.analyser.file import parse_and_analyse_file
from rattr.cli import parse_arguments
from rattr.config import Config, State
from rattr.config._types import ConfigMetaclass
from rattr.models.util import serialise
from rattr.results import generate_results_from_ir

spec = json.loads(sys.stdin.read())
steps = []


def as_main(target):
    # what `entry_point()` does in a fresh process: a new Config from the arguments, then main()
    # (the singleton is stored on the class `Config` itself by the metaclass: drop it there)
    ConfigMetaclass._instance = None
    Config._instance = None
    cfg = Config(arguments=parse_arguments(sys_args=spec["argv"] + [target]), state=State())
    out = io.StringIO()
    with contextlib.redirect_stdout(out), contextlib.redirect_stderr(io.StringIO()):
        main_mod.main(cfg)
    return json.loads(out.getvalue())


def as_library(target, cfg_holder={}):
    # one Config for the whole process (same target throughout), the two calls main() makes
    if "cfg" not in cfg_holder:
        ConfigMetaclass._instance = None
        Config._instance = None
        cfg_holder["cfg"] = Config(arguments=parse_arguments(sys_args=spec["argv"] + [target]), state=State())
    with contextlib.redirect_stderr(io.StringIO()):
        file_ir, import_irs, _stats = parse_and_analyse_file()
        results = generate_results_from_ir(target_ir=file_ir, import_irs=import_irs)
    return json.loads(serialise(results))


for target in spec["history"]:
    try:
        doc = (as_library if spec["style"] == "library" else as_main)(target)
        steps.append({"target": target, "outcome": "ok", "doc": doc})
    except SystemExit as e:
        steps.append({"target": target, "outcome": "fatal:%s" % (e.code,), "doc": None})
    except BaseException as e:
        steps.append({"target": target, "outcome": "crash:" + type(e).__name__, "doc": None})
print(json.dumps(steps))
'''


DRIVER_NAME = "_c05_history_driver.py"


def history_run(project: Path, history, style="main", hashseed=0, follow=1):
    """One fresh interpreter, cwd = project, analysing `history` (target file names) in sequence."""
    env = dict(os.environ, PYTHONHASHSEED=str(hashseed), PYTHONDONTWRITEBYTECODE="1")
    spec = {"history": list(history), "style": style, "argv": ["-o", "results", "-f", str(follow), "-w", "none"]}
    drv = project / DRIVER_NAME          # written once by TempProjects.new (several histories run concurrently)
    p = subprocess.run([sys.executable, str(drv.name)], cwd=str(project), env=env, input=json.dumps(spec),
                       capture_output=True, text=True, timeout=300)
    if p.returncode != 0:
        return {"error": p.stderr[-1500:]}
    try:
        steps = json.loads(p.stdout)
    except Exception:  # noqa
        return {"error": "unparseable driver output: " + p.stdout[-500:]}
    for s in steps:
        if s["doc"] is not None:
            s["doc"] = {k: {f: sorted(v[f]) for f in ("gets", "sets", "dels", "calls")} for k, v in s["doc"].items()}
    return {"steps": steps}


def wrappers_over(rng, lib_name, lib_src, gen: "rl.ProgGen | None", sigs, order, tag):
    """A target whose functions call the functions of module `lib_name` (every function in `order`
    wrapped once; a wrapper passes its own parameters positionally / by keyword as the callee's
    signature demands)."""
    lines = [f"import {lib_name}", ""]
    for i, fname in enumerate(order):
        sig = sigs[fname]
        pos = [p["name"] for p in sig["posonly"] + sig["args"] if not p["default"]]
        kwo = [p["name"] for p in sig["kwonly"] if not p["default"]]
        opt = [p["name"] for p in sig["posonly"] + sig["args"] if p["default"]]
        use_opt = opt if rng.random() < 0.5 else []
        params = [f"{tag}{i}_{n}" for n in pos + use_opt + kwo] or [f"{tag}{i}_none"]
        args = [f"{tag}{i}_{n}" for n in pos + use_opt] + [f"{n}={tag}{i}_{n}" for n in kwo]
        lines.append(f"def {tag}_{fname}({', '.join(params)}):")
        lines.append(f"    return {lib_name}.{fname}({', '.join(args)})")
        lines.append("")
    return "\n".join(lines)


class TempProjects:
    def __init__(self):
        self.root = Path(tempfile.mkdtemp(prefix="rattr-c05p-"))
        self.n = 0

    def new(self, files=None):
        self.n += 1
        d = self.root / f"p{self.n}"
        d.mkdir()
        if files:
            write_files(d, files)
        (d / DRIVER_NAME).with_suffix(".tmp").write_text(HISTORY_DRIVER)
        (d / DRIVER_NAME).with_suffix(".tmp").rename(d / DRIVER_NAME)
        return d

    def close(self):
        shutil.rmtree(self.root, ignore_errors=True)


# ------------------------------------------------------------------ history cases


def has_repeated_call(src):
    """syntactic: two call expressions with the same callee and the same bare-name arguments in two
    DIFFERENT functions (rattr's Call symbols compare equal)."""
    seen = {}
    for fn in ast.parse(src).body:
        if not isinstance(fn, (ast.FunctionDef, ast.AsyncFunctionDef)):
            continue
        for c in ast.walk(fn):
            if isinstance(c, ast.Call) and isinstance(c.func, ast.Name) and c.args and not c.keywords \
                    and all(isinstance(a, ast.Name) for a in c.args):
                key = (c.func.id, tuple(a.id for a in c.args))
                if seen.setdefault(key, fn.name) != fn.name:
                    return True
    return False


def history_cases(rng, corpus, n_rand, n_proj):
    """[(label, files, target_a, target_b)]: (1) every single-file corpus program (the known-finding
    witnesses of C03/C05) and `n_rand` generated ones TRANSPLANTED into a followed import, every function
    of it wrapped by a target function — target A wraps them in definition order, target B in reverse;
    (2) `n_proj` free-mode projects, target B = target A with its definitions permuted."""
    from props import c03
    cases = []
    progs = [(name, src, c03.sigs_from_source(src)) for name, src in corpus]
    tries = 0
    while len(progs) < len(corpus) + n_rand:
        # half of the generated programs are required to have a callee reached through EQUAL call records on
        # two paths (what `seen` prunes: the shape whose results depend on what the shared IRs already hold)
        src, sigs = rl.ProgGen(rng, clean=False).build()
        tries += 1
        want_diamond = (len(progs) - len(corpus)) % 2 == 0 and tries < 40 * (n_rand + 1)
        if want_diamond and not has_repeated_call(src):
            continue
        progs.append((f"rand{len(progs) - len(corpus)}", src, sigs))
    for name, src, sigs in progs:
        order = [n.name for n in ast.parse(src).body if isinstance(n, (ast.FunctionDef, ast.AsyncFunctionDef))]
        order = [n for n in order if n in sigs]
        if not order:
            continue
        sub = rng.sample(order, max(1, len(order) - rng.randint(0, 2)))
        files = {"lib.py": src,
                 "target_a.py": wrappers_over(rng, "lib", src, None, sigs, order, "wa"),
                 "target_b.py": wrappers_over(rng, "lib", src, None, sigs, list(reversed(sub)), "wb")}
        cases.append((f"import-of:{name}", files, "target_a.py", "target_b.py"))
    for i in range(n_proj):
        proj = ProjGen(rng, mode="free", structure=rng.choice(STRUCTURES[1:])).build()
        files = proj.files()
        files["target_a.py"] = files.pop("target.py")
        files["target_b.py"] = proj.files({"target": perm(rng, proj.mods["target"].defs)})["target.py"]
        cases.append((f"project{i}:{proj.structure}", files, "target_a.py", "target_b.py"))
    return cases


def judge_history(label, files, runs):
    """runs: {(style, history tuple): history_run output}. Yields violations / internal errors."""
    viol, errs, n = [], [], 0
    ref = {}
    for (style, hist), out in runs.items():
        if "error" in out:
            errs.append({"what": "history driver failed", "label": label, "history": hist, "detail": out["error"]})
            continue
        ref.setdefault(hist[0], (style, hist, out["steps"][0]))
    for (style, hist), out in runs.items():
        if "error" in out:
            continue
        for i, step in enumerate(out["steps"]):
            n += 1
            if step["target"] not in ref:
                continue
            rstyle, rhist, rstep = ref[step["target"]]
            if i == 0:
                if (step["outcome"], step["doc"]) != (rstep["outcome"], rstep["doc"]):
                    # two FRESH interpreters disagree: not history (hash seed is fixed) — machinery or nondeterminism
                    viol.append({"signature": "results-differ-between-two-fresh-processes",
                                 "case": {"label": label, "files": files, "histories": [list(rhist), list(hist)]}})
                continue
            if (step["outcome"], step["doc"]) == (rstep["outcome"], rstep["doc"]):
                continue
            pos = "same-target-again" if all(h == step["target"] for h in hist[:i]) else "after-another-target"
            fns = sorted(f for f in set(step["doc"] or {}) | set(rstep["doc"] or {})
                         if (step["doc"] or {}).get(f) != (rstep["doc"] or {}).get(f))
            viol.append({"signature": f"{HIST_SIG}:{pos}",
                         "case": {"label": label, "files": files, "history": list(hist), "style": style, "step": i},
                         "functions": fns[:6], "outcome": [rstep["outcome"], step["outcome"]],
                         "fresh_process": {f: (rstep["doc"] or {}).get(f) for f in fns[:3]},
                         "this_step": {f: (step["doc"] or {}).get(f) for f in fns[:3]}})
    return viol, errs, n


# ------------------------------------------------------------------ single files through the WHOLE-pipeline model


def pipeline_batch(model, sources):
    """Each source (a module without followed imports) through the real `main` (-f 0) and the Lean model
    `Pipeline.run` (op `pipeline`), the three passes of props/pipeline.py. Returns one dict per source:
    {"skipped": why} or {"im": real outcome/doc/diags/store, "mo": model output, "diff": None | text}."""
    from props import filelib, pipeline
    from rattr.analyser.util import is_excluded_name

    out = [None] * len(sources)
    live = []
    projects = []
    try:
        for i, src in enumerate(sources):
            project = filelib.make_project()
            projects.append(project)
            try:
                fc = filelib.run_case(project, "target.py", src, excluded=pipeline.EXCLUDE, excluded_imports=pipeline.EXCLUDE_IMPORTS)
            except SyntaxError:
                out[i] = {"skipped": "syntax error"}
                continue
            if fc.skipped is not None:
                out[i] = {"skipped": fc.skipped}
                continue
            im = pipeline.real_pipeline(project, "target.py")
            live.append([i, project, fc.payload, im, None])
        for c, mo in zip(live, model.batch([("pipeline", c[2]) for c in live])):
            c[4] = mo
            if "__error__" in mo:
                continue
            with impl.in_dir(str(c[1])):
                impl.reset_config(target=Path("target.py"), _excluded_names=list(pipeline.EXCLUDE), _follow_imports_level=0,
                                  _excluded_imports=list(pipeline.EXCLUDE_IMPORTS))
                ex = set(c[2]["facts"]["excluded"]) | {x for x in mo.get("callTargets", []) if is_excluded_name(x)}
                c[2] = {**c[2], "facts": {**c[2]["facts"], "excluded": sorted(ex)},
                        "imports": [[q, pipeline.import_fact(q)] for q in mo.get("needImports", [])]}
        live2 = [c for c in live if "__error__" not in c[4]]
        for c, mo in zip(live2, model.batch([("pipeline", c[2]) for c in live2])):
            c[4] = mo
        for i, project, payload, im, mo in live:
            if "__error__" not in mo and mo.get("outcome") == "crash" and str(mo.get("exc", "")).startswith("Outside:"):
                out[i] = {"skipped": mo["exc"]}
            elif "__error__" not in mo and mo.get("maxTie", 0) >= 2:
                out[i] = {"skipped": "hash-order tie of equal-named calls", "im": im}
            else:
                out[i] = {"im": im, "mo": mo, "diff": pipeline.compare(im, mo)}
    finally:
        for p in projects:
            filelib.drop_project(p)
    return out

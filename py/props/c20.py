"""C20 — command line overrides pyproject, which overrides defaults.

Tie B: the real `rattr.cli.parse_arguments` (in-process, in generated project directories outside
/verif and /repo) vs the Lean model `Cli.parseArgumentsX` (= `Cli.parseArguments` behind argparse's
own tokeniser, RattrModel/Argv.lean) on the same (argv in any spelling, TOML files / explicit conf,
directory layout); a sample is re-run through the real CLI (`python -m rattr`). The property
oracle is the Lean `Spec.effective` / `Spec.acceptable` (cross-checked against an independent
Python re-statement; disagreement = internal error) applied to the implementation's namespace.
"""
from __future__ import annotations

import argparse
import contextlib
import enum
import io
import itertools
import json
import os
import random
import re
import shutil
import subprocess
import sys
import tempfile
import traceback
from concurrent.futures import ThreadPoolExecutor
from pathlib import Path, PurePath

import common
import impl

from props import c20_argv
from tables import t_c20

from rattr.cli import parser as P
from rattr.cli.toml import TOMLDecodeError
from rattr.config._types import ConfigMetaclass

PID = "C20"
TABLES = ["C20"]

# ------------------------------------------------------------------ option facts (from the docs side)
# Independent of TOML_ARGUMENT_TYPE_MAP / the name map: the argparse help of each common option
# documents its TOML spelling ("TOML example: key=value"); the documented TOML type follows from
# the option's action / type.


def option_facts():
    toml = P.make_toml_parser()
    cli = P.make_cli_parser(exit_on_error=False)
    facts = []
    for a in toml._actions:
        if not a.option_strings or a.dest == "help":
            continue
        cls = type(a).__name__
        if cls == "_StoreTrueAction":
            kind, doc = "flag", "bool"
        elif cls == "_AppendAction":
            kind, doc = "list", "list[str]"
        elif cls == "_StoreAction" and a.type is int:
            kind, doc = "scalar", "int"
        elif cls == "_StoreAction":
            kind, doc = "scalar", "str"
        else:
            raise RuntimeError(f"unsupported action {cls} for {a.dest}")
        m = re.search(r"TOML example:\s*([A-Za-z0-9_-]+)\s*=", a.help or "")
        choices = None if a.choices is None else [norm(c) for c in a.choices]
        facts.append({
            "dest": a.dest, "flags": list(a.option_strings), "kind": kind, "doc_type": doc,
            "default": norm(a.default), "choices": choices, "doc_key": m.group(1) if m else None,
        })
    flag2dest = {}
    for a in cli._actions:
        for s in a.option_strings:
            flag2dest[s] = a.dest
    return facts, flag2dest


def norm(v):
    """Namespace value -> JSON (Path -> str, Enum -> value)."""
    if isinstance(v, enum.Enum):
        return v.value
    if isinstance(v, PurePath):
        return str(v)
    if isinstance(v, (list, tuple)):
        return [norm(x) for x in v]
    return v


# ------------------------------------------------------------------ value vocabularies
WORDS = ["a", "b_.*", "m\\.n", "12", "zed"]


def cli_states(f):
    """States of one option on the command line: (label, [typed value per occurrence], [tokens per occurrence], valid?)."""
    st = [("absent", [], [], True)]
    if f["kind"] == "flag":
        st += [("valid", [True], [[]], True), ("twice", [True, True], [[], []], True)]
    elif f["kind"] == "list":
        st += [("valid", [["a"]], [["a"]], True), ("valid2", [["b_.*"], ["12"]], [["b_.*"], ["12"]], True),
               ("valid-empty-item", [[""]], [[""]], True)]
    elif f["doc_type"] == "int":
        good = [c for c in (f["choices"] or [5, 0, 12, -5]) if c != f["default"]] or [f["default"]]
        st += [("valid", [good[0]], [[str(good[0])]], True),
               ("twice", [good[-1], good[0]], [[str(good[-1])], [str(good[0])]], True),
               ("invalid-type", ["abc"], [["abc"]], False)]
        if f["choices"]:
            st.append(("out-of-choice", [7], [["7"]], False))
        else:
            st.append(("valid-default", [f["default"]], [[str(f["default"])]], True))
            st.append(("valid-neg", [-5], [["-5"]], True))
        if 0 in (f["choices"] or [0]) and f["default"] != 0 and good[0] != 0:
            st.append(("valid-zero", [0], [["0"]], True))
    else:
        good = [c for c in (f["choices"] or ["zed"]) if c != f["default"]]
        st += [("valid", [good[0]], [[good[0]]], True),
               ("twice", [good[-1], good[0]], [[good[-1]], [good[0]]], True),
               ("out-of-choice", ["bogus"], [["bogus"]], False)]
        if f["choices"] and "" not in f["choices"]:
            st.append(("out-of-choice-empty", [""], [[""]], False))
    return st


def toml_states(f):
    """States of one option in the TOML source: (label, python value | ABSENT, acceptable?)."""
    st = [("absent", ABSENT, True)]
    if f["kind"] == "flag":
        st += [("valid", True, True), ("valid-false", False, True),
               ("invalid-type:int", 1, False), ("invalid-type:str", "yes", False), ("invalid-type:list", ["a"], False),
               ("invalid-type:int-zero", 0, False), ("invalid-type:empty-str", "", False), ("invalid-type:empty-list", [], False)]
    elif f["kind"] == "list":
        st += [("valid", ["m\\.n", "zed"], True), ("valid-empty", [], True), ("valid-numeric-text", ["12"], True),
               ("invalid-type:str", "a", False), ("invalid-type:list-int", ["a", 1], False),
               ("invalid-type:bool", True, False), ("invalid-type:table", {"k": 1}, False),
               ("valid-dash", ["-x"], True), ("valid-empty-item", [""], True), ("valid-empty-and-more", ["", "zed"], True),
               # dash-words through argparse's tokeniser (the TOML pass re-tokenises every string):
               ("valid-dash-cluster", ["-Hc"], True), ("valid-dash-negative-decimal", ["-1.5"], True),
               ("valid-dash-with-space", ["-z y"], True), ("valid-dash-option-with-space", ["a", "-x y"], True)]
    elif f["doc_type"] == "int":
        good = [c for c in (f["choices"] or [3, 0, 9]) if c != f["default"]]
        st += [("valid", good[-1], True), ("invalid-type:str", "2", False), ("invalid-type:float", 1.5, False),
               ("invalid-type:bool-false", False, False), ("invalid-type:bool-true", True, False),
               ("invalid-type:list", [1], False)]
        if f["choices"]:
            st += [("out-of-choice", 7, False), ("out-of-choice-neg", -1, False)]
        else:
            st += [("valid-neg", -5, True), ("valid-default", f["default"], True)]
        # falsy but meaningful: 0 where it is a legal, non-default value
        if 0 in (f["choices"] or [0]) and f["default"] != 0:
            st.append(("valid-zero", 0, True))
        st += [("invalid-type:float-zero", 0.0, False), ("invalid-type:empty-str", "", False),
               ("invalid-type:empty-list", [], False)]
    else:
        good = [c for c in (f["choices"] or ["zed"]) if c != f["default"]]
        st += [("valid", good[-1], True), ("out-of-choice", "bogus", False),
               ("invalid-type:int", 3, False), ("invalid-type:bool", True, False), ("invalid-type:list", ["all"], False),
               ("invalid-type:int-zero", 0, False), ("invalid-type:bool-false", False, False),
               ("invalid-type:empty-list", [], False)]
        if f["choices"] and "" not in f["choices"]:
            st.append(("out-of-choice-empty", "", False))   # "" is a str, but not one of the choices
    return st


def near_miss_rows():
    """dest -> [(class, text)] for every choice-restricted option (Tie A's own near-miss table:
    tables/t_c20.near_miss_texts over the live `choices` / enum members of the command-line parser)."""
    cli = P.make_cli_parser(exit_on_error=False)
    out = {}
    for r in t_c20.option_rows(cli):
        nm = t_c20.option_near_misses(r)
        if nm is not None and r["flags"]:
            out[r["dest"]] = nm
    return out


def near_cli_states(f, nm):
    """Command-line states of a choice-restricted option whose value is a NEAR MISS of a choice:
    every one is a mistake (the reference parser must reject it)."""
    st = []
    for cls, text in nm.get(f["dest"], []):
        if text.startswith("-"):
            continue        # `-1`: a tokeniser matter (negative-number-like), covered by the hand-written cases
        st.append((f"near-miss:{cls}", [text], [[text]], False))
    return st


def near_toml_states(f, nm):
    """TOML states whose value is a near miss of an allowed value: right type but not a choice
    (other case, padded, prefix, member name, …), or a value EQUAL to a choice of another type
    (2.0 / "2" / [2] for the int 2; "true" / 1 for a flag).  None is acceptable."""
    st = []
    if f["kind"] == "flag":
        return [("near-miss:bool-text", "true", False), ("near-miss:bool-text-capital", "True", False),
                ("near-miss:bool-text-false", "false", False), ("near-miss:float-one", 1.0, False)]
    if f["kind"] == "list":
        return []
    if f["doc_type"] == "int":
        good = [c for c in (f["choices"] or [3, 0, 9]) if c != f["default"]]
        st += [("near-miss:float-equal-to-valid", float(good[-1]), False),
               ("near-miss:str-of-valid", str(good[-1]), False),
               ("near-miss:list-of-valid", [good[-1]], False)]
        if f["choices"]:
            st += [("near-miss:just-above", max(f["choices"]) + 1, False),
                   ("near-miss:far", max(f["choices"]) * 10 + 10, False)]
        return st
    if not f["choices"]:
        return []
    for cls, text in nm.get(f["dest"], []):
        st.append((f"near-miss:{cls}", text, False))
    st.append(("near-miss:list-of-choice", [f["choices"][0]], False))
    return st


class _Absent:
    def __repr__(self):
        return "ABSENT"


ABSENT = _Absent()

UNKNOWN_KEYS = [("bogus", 1), ("follow_imports", 3), ("cache", "c.json"), ("force-refresh-cache", True), ("x", "y")]
ENVS = [  # (mode, cfile, layout)
    ("dict", "none", "vcs"), ("files", "none", "cwd"), ("files", "exists", "cwd"), ("files", "missing", "cwd"),
    ("files", "none", "parent"), ("files", "exists", "parent"), ("files", "none", "vcs-shadow"),
    ("files", "exists", "vcs-shadow"), ("files", "exists", "vcs"), ("files", "missing", "vcs"),
    ("files", "none", "vcs"), ("dict", "missing", "vcs"),
]


VISIBLE_ENVS = [e for e in ENVS if e[0] == "dict" or e[1] == "exists" or e[2] in ("cwd", "parent")]


# ------------------------------------------------------------------ cases

def make_case(facts, assign, env, rng, *, decoy=None, unknown=(), broken=None, extra_cli=(), eoe=False,
              spell=None, arrange=None, config_flag=None):
    """assign: dest -> (cli state, toml state). Builds argv, the main conf (in the source the spec
    selects) and a decoy conf (in the file the spec does NOT select).
    spell: None (canonical tokens) or callable(parts, rng) -> (argv, labels): re-spelling of the groups;
    arrange: None (random interleaving) or callable(option groups, extra groups, target group) -> parts."""
    mode, cfile, layout = env
    by = {f["dest"]: f for f in facts}
    conf = []
    intent = {}
    slots = []   # one slot per occurrence, owned by a dest; shuffled, then filled per dest in order
    occs = {}
    for dest, (cs, ts) in assign.items():
        f = by[dest]
        occs[dest] = [[rng.choice(f["flags"])] + toks for toks in cs[2]]
        slots += [dest] * len(cs[2])
        if ts[1] is not ABSENT:
            conf.append((f["doc_key"], ts[1]))
        intent[dest] = {"cli_state": cs[0], "cli": cs[1], "cli_valid": cs[3], "toml_state": ts[0],
                        "toml": None if ts[1] is ABSENT else ts[1], "toml_given": ts[1] is not ABSENT,
                        "toml_ok": ts[2]}
    for k, v in unknown:
        conf.append((k, v))
    rng.shuffle(conf)
    rng.shuffle(slots)
    nxt = {d: 0 for d in occs}
    seq = []
    for d in slots:
        seq.append(occs[d][nxt[d]])
        nxt[d] += 1
    target = ["t.py"]
    extra = [list(x) for x in extra_cli]
    if cfile != "none":
        extra.append([config_flag or rng.choice(["-c", "--config"]), "o.toml" if cfile == "exists" else "missing.toml"])
    if arrange is not None:
        parts = arrange(list(seq), extra, target)
    else:
        parts = list(seq)          # per-option occurrence order must survive: only INSERT the rest
        for g in extra + [target]:
            parts.insert(rng.randint(0, len(parts)), g)
    labels = []
    if spell is not None:
        argv, labels = spell(parts, rng)
    else:
        argv = [t for g in parts for t in g]
    case = {"argv": argv, "conf": conf, "decoy": list(decoy or []), "mode": mode, "cfile": cfile,
            "layout": layout, "broken": broken, "intent": intent, "eoe": eoe,
            "unknown": [k for k, _ in unknown], "_parts": parts}
    if spell is not None:
        case["spelled"] = True
        case["spelling"] = labels
        case["canonical_argv"] = [t for g in parts for t in g]
    return case


def respell(case, sp, rng, **kw):
    """The same command line (same groups in the same order), spelled differently."""
    c = dict(case)
    argv, labels = sp.render(case["_parts"], rng, **kw)
    c.update(argv=argv, spelled=True, spelling=labels, canonical_argv=[t for g in case["_parts"] for t in g])
    return c


def source_of(case):
    """Where each conf goes. Returns (override_conf|None, cwd_pyproject|None, parent_pyproject|None,
    spec_source_label, spec_conf) — spec side: the -c file if it exists, else the project's
    pyproject.toml (project root = nearest directory with a VCS marker or a pyproject.toml), else nothing."""
    mode, cfile, layout = case["mode"], case["cfile"], case["layout"]
    if mode == "dict":
        # an explicit non-empty project_toml_conf IS the TOML source [interp]
        return None, None, None, "dict", case["conf"]
    main, decoy = case["conf"], case["decoy"]
    project_visible = layout in ("cwd", "parent")
    if cfile == "exists":
        over = main
        proj = decoy
        label = "override"
    else:
        over = None
        proj = main
        label = "pyproject" if project_visible else None
    cwd_py = proj if layout == "cwd" else None
    par_py = proj if layout in ("parent", "vcs-shadow") else None
    return over, cwd_py, par_py, label, (main if label else [])


# ------------------------------------------------------------------ TOML writer / encoders

def toml_value(v):
    if isinstance(v, bool):
        return "true" if v else "false"
    if isinstance(v, int):
        return str(v)
    if isinstance(v, float):
        return repr(v)
    if isinstance(v, str):
        return json.dumps(v)
    if isinstance(v, list):
        return "[" + ", ".join(toml_value(x) for x in v) + "]"
    if isinstance(v, dict):
        return "{" + ", ".join(f"{k} = {toml_value(x)}" for k, x in v.items()) + "}"
    raise TypeError(v)


def toml_text(conf, broken=None):
    if broken == "syntax":
        return "[tool.rattr\nthreshold = \n"
    if broken == "no-table":
        return "[tool.other]\nthreshold = 3\n"
    if broken == "no-tool":
        return "[project]\nname = \"x\"\n"
    if broken == "empty-file":
        return ""
    lines = ["[project]", 'name = "x"', "", "[tool.rattr]"]
    for k, v in conf:
        lines.append(f"{k} = {toml_value(v)}")
    return "\n".join(lines) + "\n"


def enc_scalar(v):
    if isinstance(v, bool):
        return {"b": v}
    if isinstance(v, int):
        return {"i": v}
    if isinstance(v, str):
        return {"s": v}
    if isinstance(v, list):
        return {"l": []}
    if isinstance(v, dict):
        return {"t": 1}
    return {"o": type(v).__name__}


def enc_tval(v):
    if isinstance(v, list):
        return {"l": [enc_scalar(x) for x in v]}
    if isinstance(v, dict):
        return {"t": 1}
    return enc_scalar(v)


def enc_conf(conf):
    return [[k, enc_tval(v)] for k, v in conf]


def enc_file(conf, broken):
    if conf is None:
        return None
    if broken == "syntax":
        return "decode"
    if broken in ("no-table", "no-tool", "empty-file"):
        return []
    return enc_conf(conf)


_INT_LIKE = re.compile(r"^\s*[-+]?[0-9_\s]+$")
_CANON = re.compile(r"^-?(0|[1-9][0-9]*)$")


def in_fragment(case, flags):
    """Texts that int() accepts must be canonical decimals (the trusted codec).  Canonical command
    lines (not re-spelled) additionally use exact flags only — historical; re-spelled ones are
    judged by the canonical tokens they were made from, hand-written ones are inside the model
    (RattrModel/Argv.lean models argparse's tokeniser).  TOML strings may be any dash-word: the
    TOML pass of the model runs the same tokeniser."""
    argv_texts = [] if case.get("raw_ok") else list(case.get("canonical_argv", case["argv"]))
    conf_texts = []
    for _, v in case["conf"] + case["decoy"]:
        vs = v if isinstance(v, list) else [v]
        conf_texts += [x for x in vs if isinstance(x, str)]
    for t in argv_texts + conf_texts:
        if _INT_LIKE.match(t) and not (_CANON.match(t) and t != "-0"):
            return False
    for t in argv_texts:
        if t.startswith("-") and len(t) > 1 and not _CANON.match(t):
            if t not in flags and t != "--zzz":
                return False
            if "=" in t or " " in t:
                return False
    return True


# ------------------------------------------------------------------ implementation side

TOML_DECODE_RE = re.compile(r"\(at (line \d+, column \d+|end of document)\)\s*$")
ARG_RE = re.compile(r"^argument ([^:]+): (.*)$", re.S)


def classify_exc(e, flag2dest):
    tb = [fr.name for fr in traceback.extract_tb(e.__traceback__)]
    stage = "tomlError" if "_toml_error" in tb else "cliError"
    if isinstance(e, TOMLDecodeError):
        return {"outcome": "tomlError", "err": "decode"}
    if isinstance(e, argparse.ArgumentError):
        msg = str(e)
        m = re.match(r"^'([^']*)' expects type ", msg)
        if m:
            return {"outcome": stage, "err": "type", "key": m.group(1)}
        m = ARG_RE.match(msg)
        if m:
            first = m.group(1).split("/")[0]
            dest = flag2dest.get(first, first)
            rest = m.group(2)
            for key, pat in (("expectedOneArgument", "expected one argument"), ("invalidChoice", "invalid choice"),
                             ("invalidValue", r"invalid \S+ value"), ("notAllowedWith", "not allowed with argument"),
                             ("ignoredExplicitArgument", "ignored explicit argument")):
                if re.search(pat, rest):
                    d = {"outcome": stage, "err": key, "dest": dest}
                    if stage == "tomlError":
                        d["src"] = "argparse"
                    return d
        for key, pat in (("required", "the following arguments are required"), ("unrecognized", "unrecognized arguments"),
                         ("ambiguousOption", "ambiguous option")):
            if pat in msg:
                d = {"outcome": stage, "err": key}
                if stage == "tomlError":
                    d["src"] = "argparse"
                return d
        if msg == "":
            return {"outcome": stage, "err": "versionExit"}
        return {"outcome": stage, "err": "other:" + msg[:80]}
    if isinstance(e, SystemExit):
        return {"outcome": "cliError", "err": "exit", "code": e.code}
    if isinstance(e, TypeError) and "Config.__init__() missing" in str(e) and "_toml_error" in tb:
        return {"outcome": "tomlFatalBeforeConfig", "exc": "TypeError"}
    return {"outcome": "crash", "exc": type(e).__name__, "msg": str(e)[:160], "in_toml_error": "_toml_error" in tb}


class Dirs:
    """One directory tree per layout under a temp base outside /verif and /repo."""

    def __init__(self):
        self.base = Path(tempfile.mkdtemp(prefix="c20-"))
        for anc in [self.base, *self.base.parents]:
            for marker in ("pyproject.toml", ".git", ".hg", ".svn"):
                if (anc / marker).exists():
                    raise RuntimeError(f"temp base has a project-root ancestor: {anc / marker}")
        self.layouts = {}
        for name in ("cwd", "parent", "vcs", "vcs-shadow"):
            par = self.base / name
            cwd = par / "proj"
            cwd.mkdir(parents=True)
            if name in ("vcs", "vcs-shadow"):
                (cwd / ".git").mkdir()
            (cwd / "t.py").write_text("def f(a):\n    return a.b\n\n\ndef g(c):\n    return c.d\n")
            self.layouts[name] = (cwd, par)

    def install(self, case):
        over, cwd_py, par_py, _, _ = source_of(case)
        cwd, par = self.layouts[case["layout"]]
        broken = case["broken"]
        # the `broken` variant applies to the file the spec selects
        sel_over = case["cfile"] == "exists"
        for path, conf, is_sel in ((cwd / "o.toml", over, sel_over), (cwd / "pyproject.toml", cwd_py, not sel_over),
                                   (par / "pyproject.toml", par_py, not sel_over)):
            if conf is None:
                if path.exists():
                    path.unlink()
            else:
                path.write_text(toml_text(conf, broken if is_sel else None))
        return cwd

    def cleanup(self):
        shutil.rmtree(self.base, ignore_errors=True)


def run_impl(case, dirs, flag2dest):
    cwd = dirs.install(case)
    conf = dict(case["conf"]) if case["mode"] == "dict" else None
    saved = ConfigMetaclass._instance
    ConfigMetaclass._instance = None  # as in a fresh `python -m rattr` process: no Config yet
    err = io.StringIO()
    try:
        with impl.in_dir(cwd), contextlib.redirect_stderr(err), contextlib.redirect_stdout(io.StringIO()):
            try:
                a = P.parse_arguments(sys_args=list(case["argv"]), project_toml_conf=conf,
                                      exit_on_error=case["eoe"])
                return {"outcome": "ok", "ns": {k: norm(v) for k, v in sorted(vars(a).items())}}
            except BaseException as e:  # noqa
                if isinstance(e, KeyboardInterrupt):
                    raise
                out = classify_exc(e, flag2dest)
                if out.get("err") == "exit":
                    fm = re.search(r"^fatal: error parsing project toml: (.*)$", err.getvalue(), re.S | re.M)
                    if fm and out.get("code") == 1:
                        # fix f47ae20: `_toml_error` prints the exception and exits 1
                        msg = fm.group(1).strip()
                        if TOML_DECODE_RE.search(msg):
                            return {"outcome": "tomlFatal", "err": "decode"}
                        out2 = classify_exc(argparse.ArgumentError(None, msg), flag2dest)
                        out2["outcome"] = "tomlFatal"
                        if "dest" in out2 or out2.get("err") in ("required", "unrecognized", "ambiguousOption"):
                            out2["src"] = "argparse"
                        return out2
                    # exit_on_error=True: argparse printed "rattr: error: <message>" and exited
                    m = re.search(r"error: (.*)$", err.getvalue(), re.S)
                    if m:
                        fake = argparse.ArgumentError(None, m.group(1).strip())
                        out2 = classify_exc(fake, flag2dest)
                        out2["outcome"] = "cliError"
                        out2.pop("src", None)
                        return out2
                return out
    finally:
        ConfigMetaclass._instance = saved


def model_payload(case, facts):
    over, cwd_py, par_py, label, spec_conf = source_of(case)
    sel_over = case["cfile"] == "exists"
    b = case["broken"]
    world = {
        "override": enc_file(over, b if sel_over else None),
        "cwd": {"vcs": case["layout"] in ("vcs", "vcs-shadow"), "pyproject": enc_file(cwd_py, None if sel_over else b)},
        "parents": [{"vcs": False, "pyproject": enc_file(par_py, None if sel_over else b)}],
    }
    spec = []
    sc = dict(spec_conf) if not (b and label in ("override", "pyproject")) else {}
    said = cli_says(case, facts)
    for f in facts:
        tv = sc.get(f["doc_key"], ABSENT) if f["doc_key"] else ABSENT
        spec.append({"dest": f["dest"], "kind": f["kind"], "default": f["default"], "choices": f["choices"],
                     "doc_type": f["doc_type"], "cli": said[f["dest"]],
                     "toml": None if tv is ABSENT else enc_tval(tv)})
    return {"argv": case["argv"], "world": world,
            "input_conf": enc_conf(case["conf"]) if case["mode"] == "dict" else None,
            "exit_on_error": case["eoe"], "spec": spec,
            "spec_override": "override" if case["cfile"] == "exists" and case["mode"] == "files" else None,
            "spec_pyproject": "pyproject" if case["mode"] == "files" and case["layout"] in ("cwd", "parent") else None}


# ------------------------------------------------------------------ what the command line SAYS (normalised)

def typed_occurrences(ref_result, facts):
    """Reference-normalised occurrences -> dest -> [typed value per occurrence] (spec vocabulary)."""
    by = {f["dest"]: f for f in facts}
    out = {f["dest"]: [] for f in facts}
    for dest, v in ref_result["occ"]:
        f = by.get(dest)
        if f is None:
            continue
        out[dest].append([v] if f["kind"] == "list" else v)
    return out


def cli_says(case, facts):
    """Per option, the values the command line gives, in order.  From the reference normalisation of
    the argv actually passed (any spelling) when that is a valid command line; for a mistaken
    command line (which the property only requires to be diagnosed) from the generator's intent."""
    ref = case.get("ref")
    if ref and ref["ok"]:
        return typed_occurrences(ref, facts)
    return {f["dest"]: case["intent"].get(f["dest"], {}).get("cli", []) for f in facts}


def check_normalisation(case, facts):
    """The generator's intent vs the reference normalisation of the spelled argv. None | message."""
    ref = case["ref"]
    invalid = [d for d, it in case["intent"].items() if not it["cli_valid"]]
    if invalid or case.get("structural"):
        return None if not ref["ok"] else f"reference parser accepts a command line meant to be mistaken: {ref}"
    if not ref["ok"]:
        return f"reference parser rejects a command line meant to be valid: {ref}"
    if not case["intent"] and case.get("raw_ok"):
        return None
    said = typed_occurrences(ref, facts)
    for f in facts:
        want = case["intent"].get(f["dest"], {}).get("cli", [])
        if said[f["dest"]] != want:
            return f"{f['dest']}: the spelled command line says {said[f['dest']]}, the generator meant {want}"
    cvals = [v for d, v in ref["occ"] if d == "pyproject_toml_override"]
    want_c = {"none": None, "exists": "o.toml", "missing": "missing.toml"}[case["cfile"]]
    if (cvals[-1] if cvals else None) != want_c:
        return f"-c: the spelled command line says {cvals}, the generator meant {want_c}"
    if ref["free"].get("target") != "t.py":
        return f"target: {ref['free']}"
    return None


def norm_of_ref(ref_result):
    """Reference occurrences in the vocabulary of the Lean `occurrences`: [dest, text | None]."""
    return [[d, None if v is True else str(v)] for d, v in ref_result["occ"]]


# ------------------------------------------------------------------ independent re-statement of the spec

def py_acceptable(doc_type, choices, v):
    ok = {"bool": type(v) is bool, "int": type(v) is int, "str": type(v) is str,
          "list[str]": type(v) is list and all(type(x) is str for x in v)}[doc_type]
    return ok and (choices is None or type(v) is list or v in choices)


def py_effective(kind, default, toml, cli):
    if kind == "list":
        items = (toml or []) + [x for v in cli for x in v]
        return items if items else default
    if cli:
        return cli[-1]
    return default if toml is None else toml


def py_spec(facts, case, conf):
    out = {}
    conf = dict(conf)
    said = cli_says(case, facts)
    for f in facts:
        tv = conf.get(f["doc_key"], ABSENT) if f["doc_key"] else ABSENT
        acc = None if tv is ABSENT else py_acceptable(f["doc_type"], f["choices"], tv)
        out[f["dest"]] = {"acceptable": acc,
                          "effective": py_effective(f["kind"], f["default"], tv if acc else None, said[f["dest"]])}
    return out


# ------------------------------------------------------------------ the property oracle

TOML_DIAG = ("tomlError", "tomlFatal")   # re-raised (exit_on_error=False) / "fatal: …" + exit 1 (True)


def same_source_mutex(case, conf, facts):
    """strict together with a non-zero threshold in ONE source: documented as mutually exclusive."""
    conf = dict(conf)
    t_strict = conf.get("strict") is True
    t_thr = type(conf.get("threshold")) is int and conf.get("threshold") != 0
    it = case["intent"]
    c_strict = bool(it.get("is_strict", {}).get("cli"))
    c_thr = any(type(v) is int and v != 0 for v in it.get("threshold", {}).get("cli", []))
    return (t_strict and t_thr) or (c_strict and c_thr)


def probe_dead_keys(facts, dirs, flag2dest, rng):
    """Documented TOML keys whose valid, non-default value ALONE has no effect at all."""
    dead = []
    for f in facts:
        if not f["doc_key"]:
            continue
        t = next(s for s in toml_states(f) if s[0] == "valid")
        c = make_case(facts, {f["dest"]: (cli_states(f)[0], t)}, ENVS[1], rng)
        im = run_impl(c, dirs, flag2dest)
        if im["outcome"] == "ok" and im["ns"].get(f["dest"]) == f["default"] and t[1] != f["default"]:
            dead.append(f["doc_key"])
    return dead


def judge(case, im, spec, facts, spec_conf, source_broken, alt_spec, dead=()):
    """None (holds) | ('skip', why) | signature string."""
    by = {f["dest"]: f for f in facts}
    conf = dict(spec_conf)
    dead_hit = None
    for f in facts:
        k = f["doc_key"]
        if k in dead and k in conf:
            # the implementation does not know this documented key at all: judge the rest of the
            # case without it, and report the key (valid value without effect / invalid one undiagnosed)
            v = conf.pop(k)
            s = spec[f["dest"]]
            cli = case["intent"].get(f["dest"], {}).get("cli", [])
            if s["acceptable"] is False or (not cli and v != f["default"]):
                dead_hit = f"documented-toml-key-ignored:{k}"
            spec = dict(spec)
            spec[f["dest"]] = {"acceptable": None, "effective": py_effective(f["kind"], f["default"], None, cli)}
    v = _judge(case, im, spec, facts, conf, source_broken, alt_spec)
    if v is None and dead_hit and im["outcome"] == "ok":
        return dead_hit
    return v


def _judge(case, im, spec, facts, conf, source_broken, alt_spec):
    by = {f["dest"]: f for f in facts}
    cli_invalid = [d for d, it in case["intent"].items() if not it["cli_valid"]]
    structural = case.get("structural")
    if im["outcome"] == "crash":
        if im.get("in_toml_error"):
            return f"toml-diagnostic-path-crashes:{im['exc']}"
        return f"crash:{im['exc']}"
    if im["outcome"] == "tomlFatalBeforeConfig":
        return "toml-diagnostic-path-crashes:TypeError:Config.__init__-before-singleton-exists"
    it_ = case["intent"]
    if bool(it_.get("is_strict", {}).get("cli")) and any(type(v) is int and v != 0 for v in it_.get("threshold", {}).get("cli", [])) \
            and not cli_invalid and not structural:
        return ("skip", "command-line-strict-and-threshold")
    if cli_invalid or structural:
        # command-line mistakes: argparse's own diagnostics
        if im["outcome"] == "ok":
            return "invalid-command-line-accepted:" + (structural or "+".join(sorted(case["intent"][d]["cli_state"] for d in cli_invalid)))
        return None
    bad = []
    for f in facts:
        if f["doc_key"] and f["doc_key"] in conf and spec[f["dest"]]["acceptable"] is False:
            bad.append((f, conf[f["doc_key"]]))
    if source_broken == "syntax":
        if im["outcome"] == "ok":
            return "toml-syntax-error-ignored"
        return None if im["outcome"] in TOML_DIAG else "toml-syntax-error:" + im["outcome"]
    if bad:
        if im["outcome"] == "ok":
            sigs = []
            for f, v in bad:
                got = im["ns"].get(f["dest"])
                tstate = case["intent"].get(f["dest"], {}).get("toml_state", "")
                if tstate.startswith("near-miss:") and case["intent"][f["dest"]].get("toml") == v:
                    # what was GIVEN names the class (never what the implementation answered)
                    sigs.append(f"near-miss-toml-value-accepted:{f['doc_key']}:{tstate.split(':', 1)[1]}")
                elif f["doc_type"] == "int" and v is False:
                    sigs.append("invalid-toml-silently-ignored:bool-false-for-int-option")
                elif got == spec[f["dest"]]["effective"]:
                    sigs.append(f"invalid-toml-silently-ignored:{type(v).__name__}-for-{f['doc_type']}-option")
                else:
                    sigs.append(f"invalid-toml-coerced:{type(v).__name__}-for-{f['doc_type']}-option")
            return sorted(sigs)[0]
        if im["outcome"] not in TOML_DIAG:
            return "invalid-toml:" + im["outcome"] + ":" + str(im.get("err"))
        return None
    # every given value is acceptable
    if same_source_mutex(case, conf, facts):
        return ("skip", "same-source-strict-and-threshold")
    if im["outcome"] != "ok":
        dash = [x for v in conf.values() for x in (v if isinstance(v, list) else [v])
                if isinstance(x, str) and x.startswith("-")]
        if dash and im["outcome"] in TOML_DIAG and im.get("err") == "expectedOneArgument":
            return "valid-toml-string-starting-with-dash-rejected"
        return f"valid-configuration-rejected:{im['outcome']}:{im.get('err')}"
    for f in facts:
        want = spec[f["dest"]]["effective"]
        got = im["ns"].get(f["dest"])
        if got == want:
            continue
        it = case["intent"].get(f["dest"], {})
        key = f["doc_key"]
        toml_v = conf.get(key, ABSENT) if key else ABSENT
        if alt_spec is not None and all(im["ns"].get(g["dest"]) == alt_spec[g["dest"]]["effective"] for g in facts):
            return "wrong-toml-source:" + case["cfile"] + "/" + case["layout"]
        if f["kind"] == "list":
            return f"append:{f['dest']}:" + ("toml-items-lost" if toml_v is not ABSENT and toml_v and not all(x in (got or []) for x in toml_v)
                                              else "cli-items-lost" if not all(x in (got or []) for v in it.get("cli", []) for x in v)
                                              else "wrong-order-or-extra")
        if it.get("cli"):
            return f"precedence:{f['dest']}:command-line-value-not-effective" + (":toml-wins" if toml_v is not ABSENT and got == toml_v else "")
        if toml_v is not ABSENT:
            return f"precedence:{f['dest']}:toml-value-not-effective" + (":default-wins" if got == f["default"] else "")
        return f"precedence:{f['dest']}:default-not-effective"
    return None


# ------------------------------------------------------------------ real CLI sample

def make_reference():
    """The reference argparse parser, from the regenerated option table of the command-line parser."""
    cli = P.make_cli_parser(exit_on_error=False)
    return c20_argv.Reference(t_c20.option_rows(cli), t_c20.help_flags(cli))


def cli_observe(case, dirs):
    """Run the real CLI for this case; observable projection of the effective configuration."""
    cwd = dirs.install(case)
    env = dict(os.environ)
    env.pop("PYTHONHASHSEED", None)
    p = subprocess.run([sys.executable, "-m", "rattr", *case["argv"]], cwd=str(cwd), env=env,
                       capture_output=True, text=True, timeout=120)
    err = p.stderr
    ob = {"exit": p.returncode, "traceback": "Traceback (most recent call last)" in err}
    if ob["traceback"]:
        last = [l for l in err.strip().splitlines() if l.strip()][-1]
        ob["exc"] = last.split(":")[0].strip()
        ob["config_init"] = "Config.__init__() missing" in last
        ob["via_toml_error"] = "_toml_error" in err
        return ob
    ob["usage_error"] = bool(re.search(r"^rattr: error: ", err, re.M))
    ob["toml_fatal_line"] = bool(re.search(r"^fatal: error parsing project toml: \S", err, re.M))
    ob["follow0"] = "follow imports not set" in err
    out = p.stdout.strip()
    if not out:
        ob["stdout"] = "silent"
    else:
        try:
            j = json.loads(out)
            if "target_ir" in j:
                ob["stdout"] = "ir"
            else:
                ob["stdout"] = "results"
                ob["functions"] = sorted(j)
        except Exception:
            ob["stdout"] = "other"
    return ob


def cli_expected(ns):
    """What the real CLI must show if it ran with this namespace (only for the sample's shapes)."""
    exp = {"follow0": ns["_follow_imports_level"] == 0}
    so = ns["stdout"]
    exp["stdout"] = so if so in ("silent", "ir", "results") else None
    if so == "results":
        excl = ns["_excluded_names"] or []
        exp["functions"] = sorted(x for x in ("f", "g") if x not in excl)
    return exp


# ------------------------------------------------------------------ generation

def build_cases(facts, tier, rng, sp=None, flag2dest=None):
    cases = []
    cs = {f["dest"]: cli_states(f) for f in facts}
    ts = {f["dest"]: toml_states(f) for f in facts}
    documented = [f for f in facts if f["doc_key"]]

    def decoy_for(dests):
        # the non-selected file says something different and valid about the same options
        d = []
        for dest in dests:
            f = next(x for x in facts if x["dest"] == dest)
            if not f["doc_key"]:
                continue
            if f["kind"] == "flag":
                d.append((f["doc_key"], True))
            elif f["kind"] == "list":
                d.append((f["doc_key"], ["decoy"]))
            elif f["doc_type"] == "int":
                d.append((f["doc_key"], (f["choices"] or [77])[-2 if f["choices"] else 0]))
            else:
                d.append((f["doc_key"], (f["choices"] or ["decoy"])[0]))
        return d

    # (a) one option, every (command-line state x TOML state), rotating over the environments
    k = 0
    for f in documented:
        for c, t in itertools.product(cs[f["dest"]], ts[f["dest"]]):
            # quick: one environment per combination; a given TOML value always goes somewhere it is READ
            pool = ENVS if t[1] is ABSENT else VISIBLE_ENVS
            envs = ENVS if tier == "thorough" else [pool[k % len(pool)]]
            k += 1
            for env in envs:
                if env[0] == "dict" and t[1] is ABSENT:
                    continue
                cases.append(make_case(facts, {f["dest"]: (c, t)}, env, rng, decoy=decoy_for([f["dest"]])))
    # (b) pairs of options
    red_c = lambda f: [s for s in cs[f["dest"]] if s[0] in ("absent", "valid", "invalid-type", "out-of-choice")]  # noqa: E731
    red_t = lambda f: [s for s in ts[f["dest"]] if s[0] in ("absent", "valid", "valid-false", "valid-zero", "invalid-type:str", "invalid-type:bool-false", "out-of-choice", "out-of-choice-empty")]  # noqa: E731
    for f, g in itertools.combinations(documented, 2):
        combos = list(itertools.product(red_c(f), red_t(f), red_c(g), red_t(g)))
        if tier == "quick":
            combos = rng.sample(combos, 5)
        for a, b, c, d in combos:
            env = rng.choice(ENVS)
            if env[0] == "dict" and b[1] is ABSENT and d[1] is ABSENT:
                env = ("files",) + env[1:]
            cases.append(make_case(facts, {f["dest"]: (a, b), g["dest"]: (c, d)}, env, rng,
                                   decoy=decoy_for([f["dest"], g["dest"]])))
    # (c) triples (thorough): full product over a reduced state set
    if tier == "thorough":
        r3c = lambda f: [s for s in cs[f["dest"]] if s[0] in ("absent", "valid")]  # noqa: E731
        r3t = lambda f: [s for s in ts[f["dest"]] if s[0] in ("absent", "valid", "invalid-type:str")]  # noqa: E731
        for tri in itertools.combinations(documented, 3):
            for states in itertools.product(*[list(itertools.product(r3c(f), r3t(f))) for f in tri]):
                env = rng.choice(ENVS)
                if env[0] == "dict" and all(s[1][1] is ABSENT for s in states):
                    env = ("files",) + env[1:]
                cases.append(make_case(facts, {f["dest"]: s for f, s in zip(tri, states)}, env, rng,
                                       decoy=decoy_for([f["dest"] for f in tri])))
    # (e) source selection: an EXISTING -c file is the source even when it says nothing (empty
    # [tool.rattr], no [tool.rattr], no [tool], empty file) while the project's pyproject.toml sets
    # options; a MISSING -c file / no -c leaves the project's pyproject.toml as the source.
    for f in documented:
        absent = {f["dest"]: (cs[f["dest"]][0], ts[f["dest"]][0])}
        valid_t = next(s for s in ts[f["dest"]] if s[0] == "valid")
        for layout in ("cwd", "parent"):
            for variant in (None, "no-table", "no-tool", "empty-file"):
                cases.append(make_case(facts, absent, ("files", "exists", layout), rng,
                                       decoy=decoy_for([f["dest"]]), broken=variant))
            for cfile in ("missing", "none"):
                cases.append(make_case(facts, {f["dest"]: (cs[f["dest"]][0], valid_t)}, ("files", cfile, layout), rng))
        # a pyproject.toml ABOVE the project root (cwd has a VCS marker) is not the project's
        for cfile in ("missing", "none"):
            cases.append(make_case(facts, {f["dest"]: (cs[f["dest"]][0], valid_t)}, ("files", cfile, "vcs-shadow"), rng))
    for layout in ("cwd", "parent"):
        for variant in (None, "no-table", "no-tool", "empty-file"):
            other = rng.choice(documented)
            cases.append(make_case(facts, {other["dest"]: (cs[other["dest"]][1], ts[other["dest"]][0])},
                                   ("files", "exists", layout), rng,
                                   decoy=decoy_for([f["dest"] for f in documented]), broken=variant))
    # (d) random many-option cases, unknown keys, broken files, structural command-line mistakes
    n_rand = 150 if tier == "quick" else 3000
    for i in range(n_rand):
        n = rng.randint(2, len(documented))
        chosen = rng.sample(documented, n)
        assign = {}
        for f in chosen:
            c = rng.choice(cs[f["dest"]]) if rng.random() < 0.6 else cs[f["dest"]][0]
            tpool = ts[f["dest"]]
            t = rng.choice(tpool) if rng.random() < 0.25 else rng.choice([s for s in tpool if s[2]])
            assign[f["dest"]] = (c, t)
        env = rng.choice(ENVS)
        unknown = rng.sample(UNKNOWN_KEYS, rng.randint(0, 2))
        if env[0] == "dict" and not unknown and all(t[1] is ABSENT for _, t in assign.values()):
            unknown = [UNKNOWN_KEYS[0]]
        broken = None
        if env[0] == "files" and rng.random() < 0.06:
            broken = rng.choice(["syntax", "no-table", "no-tool", "empty-file"])
        case = make_case(facts, assign, env, rng, decoy=decoy_for(list(assign)), unknown=unknown, broken=broken,
                         eoe=rng.random() < 0.15)
        cases.append(case)
    # structural command-line cases
    for extra, why in (([["--zzz"]], "unknown-flag"), ([["u.py"]], "second-positional"), ([["-C", "cache.json"]], None),
                       ([["-C"]], "flag-without-value-at-end")):
        for env in (ENVS[1], ENVS[2]):
            c = make_case(facts, {"threshold": (cs["threshold"][1], ts["threshold"][1])}, env, rng, extra_cli=extra)
            if why == "flag-without-value-at-end":
                c["argv"] = [t for t in c["argv"] if t != "-C"] + ["-C"]
            c["structural"] = why
            cases.append(c)
    c = make_case(facts, {"threshold": (cs["threshold"][1], ts["threshold"][1])}, ENVS[1], rng)
    c["argv"] = [t for t in c["argv"] if t != "t.py"]
    c["structural"] = "missing-target"
    cases.append(c)
    if sp is not None:
        cases += spelled_cases(facts, tier, rng, sp, flag2dest, cases, decoy_for)
    return cases


def near_miss_cases(facts, tier, rng, sp=None):
    """(n) Values that are nearly — but not — an allowed value, for EVERY choice-restricted option
    (and the typed neighbours for int / flag options), from every TOML source (explicit conf,
    pyproject.toml in cwd / parent, -c override) and from the command line (canonical and in every
    single-option spelling), alone and next to a valid value on the other source and next to
    another option's valid values.  Own random stream: the cases of the other parts do not move."""
    nm = near_miss_rows()
    by = {f["dest"]: f for f in facts}
    documented = [f for f in facts if f["doc_key"]]
    cs = {f["dest"]: cli_states(f) for f in facts}
    ts = {f["dest"]: toml_states(f) for f in facts}
    thorough = tier == "thorough"
    out = []
    k = rng.randrange(len(VISIBLE_ENVS))

    def valid_of(table, dest):
        return next(x for x in table[dest] if x[0] == "valid")

    def other_valid(dest):
        """another documented option with a valid value on both sources"""
        g = rng.choice([x for x in documented if x["dest"] != dest and x["dest"] not in ("is_strict", "threshold")])
        return {g["dest"]: (valid_of(cs, g["dest"]), valid_of(ts, g["dest"]))}

    for f in documented:
        d = f["dest"]
        decoy = []
        if f["kind"] == "scalar" and f["doc_key"]:
            decoy = [(f["doc_key"], (f["choices"] or [77 if f["doc_type"] == "int" else "decoy"])[0])]
        # TOML near misses
        for t in near_toml_states(f, nm):
            envs = VISIBLE_ENVS if thorough else [VISIBLE_ENVS[k % len(VISIBLE_ENVS)]]
            k += 1
            for env in envs:
                out.append(make_case(facts, {d: (cs[d][0], t)}, env, rng, decoy=decoy, eoe=rng.random() < 0.1))
            if thorough or rng.random() < 0.2:
                env = VISIBLE_ENVS[k % len(VISIBLE_ENVS)]
                k += 1
                out.append(make_case(facts, {d: (valid_of(cs, d), t)}, env, rng, decoy=decoy))
            if thorough or rng.random() < 0.12:
                env = rng.choice(VISIBLE_ENVS)
                assign = other_valid(d)
                assign[d] = (cs[d][0], t)
                out.append(make_case(facts, assign, env, rng, decoy=decoy))
        # command-line near misses
        forms = None if sp is None else c20_argv.Speller.SINGLE1
        for c in near_cli_states(f, nm):
            env = rng.choice(ENVS)
            if env[0] == "dict":
                env = ("files",) + env[1:]
            out.append(make_case(facts, {d: (c, ts[d][0])}, env, rng, eoe=rng.random() < 0.1))
            if thorough or rng.random() < 0.2:
                out.append(make_case(facts, {d: (c, valid_of(ts, d))}, rng.choice(VISIBLE_ENVS), rng, decoy=decoy))
            if thorough or rng.random() < 0.12:
                assign = other_valid(d)
                assign[d] = (c, ts[d][0])
                out.append(make_case(facts, assign, rng.choice(VISIBLE_ENVS), rng))
            if forms and c[2][0][0].strip() == c[2][0][0] and "=" not in c[2][0][0] and (thorough or rng.random() < 0.4):
                for form in (forms if thorough else [rng.choice(forms)]):
                    spell = lambda parts, r, form=form: sp.render(parts, r, p_cluster=0.0, p_respell=0.0, p_dd=0.1, form=form)  # noqa: E731
                    t_ = rng.choice([ts[d][0], valid_of(ts, d)])
                    env = rng.choice(ENVS if t_[1] is ABSENT else VISIBLE_ENVS)
                    if env[0] == "dict" and t_[1] is ABSENT:
                        env = ("files",) + env[1:]
                    out.append(make_case(facts, {d: (c, t_)}, env, rng, decoy=decoy, spell=spell))
    for c in out:
        c["near"] = True
    return out


def near_miss_sample(facts, tier, rng):
    """The near misses through `python -m rattr`: per choice-restricted option, a few classes from
    the TOML (pyproject.toml / -c override) and from the command line."""
    nm = near_miss_rows()
    cs = {f["dest"]: cli_states(f) for f in facts}
    ts = {f["dest"]: toml_states(f) for f in facts}
    out = []
    for f in facts:
        if not f["doc_key"]:
            continue
        d = f["dest"]
        tn = near_toml_states(f, nm)
        cn = near_cli_states(f, nm)
        if not f["choices"]:
            tn, cn = tn[:1], []
        nt = min(len(tn), 24 if tier == "thorough" else 4)
        nc = min(len(cn), 12 if tier == "thorough" else 2)
        for t in rng.sample(tn, nt):
            out.append(make_case(facts, {d: (cs[d][0], t)}, rng.choice([ENVS[1], ENVS[2], ENVS[4]]), rng))
        for c in rng.sample(cn, nc):
            out.append(make_case(facts, {d: (c, ts[d][0])}, ENVS[1], rng))
    for c in out:
        c["near"] = True
    return out


def spelled_cases(facts, tier, rng, sp, flag2dest, base, decoy_for):
    """Every spelling argparse accepts, for every option (RattrModel/Argv.lean is the model side)."""
    out = []
    cs = {f["dest"]: cli_states(f) for f in facts}
    ts = {f["dest"]: toml_states(f) for f in facts}
    by = {f["dest"]: f for f in facts}
    documented = [f for f in facts if f["doc_key"]]
    valued = [f for f in documented if f["kind"] != "flag"]
    thorough = tier == "thorough"

    def state(table, dest, label):
        return next(x for x in table[dest] if x[0] == label)

    # (s1) twins: the cases generated so far, same groups in the same order, random spellings
    for c in base:
        if c.get("structural") or "_parts" not in c or c["argv"] != [t for g in c["_parts"] for t in g]:
            continue
        if rng.random() < (0.6 if thorough else 0.45):
            out.append(respell(c, sp, rng))

    def block_arrange(order_dests, last_dest):
        """Short zero-argument flags in the given order, then the one-argument option (its LAST
        occurrence; `None` = the -c group), adjacent; everything else before; target before or after."""
        def arrange(seq, extra, target):
            flags = {d: [g for g in seq if flag2dest[g[0]] == d] for d in order_dests}
            used = [flags[d][-1] for d in order_dests]
            lastg = None
            if last_dest is not None:
                lastg = [g for g in seq if flag2dest[g[0]] == last_dest][-1]
            rest = [g for g in seq if not any(g is u for u in used) and g is not lastg]
            ex = list(extra)
            if last_dest is None:
                lastg = ex.pop()           # the -c group is appended last by make_case
            block = used + [lastg]
            parts = rest + ex + block
            parts.insert(rng.choice([0, len(parts)]), target)
            return parts
        return arrange

    orders = sp.all_cluster_orders(3)
    exists_envs = [("files", "exists", "cwd"), ("files", "exists", "parent"), ("files", "exists", "vcs-shadow"),
                   ("files", "exists", "vcs"), ("files", "missing", "cwd"), ("files", "missing", "parent")]
    k = 0
    # (s2) the -c override in every spelling, alone and at the end of every cluster of short flags;
    # the selected file and the decoy say different, valid things about one option
    for form in c20_argv.Speller.SINGLE1:
        for env in exists_envs:
            f = valued[k % len(valued)]
            k += 1
            spell = lambda parts, r, form=form: sp.render(parts, r, p_cluster=0.0, p_respell=0.0, p_dd=0.2, form=form)  # noqa: E731
            # only the -c group is forced into `form`: the other groups are absent here
            out.append(make_case(facts, {f["dest"]: (cs[f["dest"]][0], state(ts, f["dest"], "valid"))}, env, rng,
                                 decoy=decoy_for([f["dest"]]), spell=spell, config_flag="-c"))
    for order in orders:
        dests = [d for d, _ in order]
        for attach in (False, True):
            envs = exists_envs if thorough else [exists_envs[k % 3], exists_envs[3 + k % 3]]
            for env in envs:
                f = valued[k % len(valued)]
                k += 1
                assign = {d: (state(cs, d, "valid"), ts[d][0]) for d in dests}
                assign[f["dest"]] = (cs[f["dest"]][0], state(ts, f["dest"], "valid"))
                spell = lambda parts, r, attach=attach: sp.render(parts, r, p_cluster=1.0, p_respell=0.0, p_dd=0.2, attach=attach)  # noqa: E731
                out.append(make_case(facts, assign, env, rng, decoy=decoy_for([f["dest"]]), spell=spell,
                                     arrange=block_arrange(dests, None), config_flag="-c",
                                     eoe=rng.random() < 0.15))
    # (s3) every documented one-argument option with a short flag at the end of a cluster
    for f in valued:
        if not any(not x.startswith("--") for x in f["flags"]):
            continue
        pool = orders if thorough else rng.sample(orders, 4)
        for order in pool:
            dests = [d for d, _ in order]
            for attach in (False, True):
                cstates = [x for x in cs[f["dest"]] if x[0] != "absent" and (x[0] != "valid-empty-item" or not attach)]
                for c_ in (cstates if thorough else rng.sample(cstates, min(2, len(cstates)))):
                    t_ = rng.choice([x for x in ts[f["dest"]] if x[0] in ("absent", "valid", "valid-zero", "valid-empty")])
                    env = rng.choice(ENVS if t_[1] is ABSENT else VISIBLE_ENVS)
                    if env[0] == "dict" and t_[1] is ABSENT:
                        env = ("files",) + env[1:]
                    assign = {d: (state(cs, d, "valid"), ts[d][0]) for d in dests}
                    assign[f["dest"]] = (c_, t_)
                    spell = lambda parts, r, attach=attach: sp.render(parts, r, p_cluster=1.0, p_respell=0.3, p_dd=0.1, attach=attach)  # noqa: E731
                    out.append(make_case(facts, assign, env, rng, decoy=decoy_for([f["dest"]]), spell=spell,
                                         arrange=block_arrange(dests, f["dest"])))
    # (s3') every option, every single-option form, against a TOML value
    for f in documented:
        forms = c20_argv.Speller.SINGLE0 if f["kind"] == "flag" else c20_argv.Speller.SINGLE1
        for form in forms:
            for c_ in cs[f["dest"]][1:]:
                t_ = rng.choice([x for x in ts[f["dest"]] if x[2]])
                env = rng.choice(ENVS if t_[1] is ABSENT else VISIBLE_ENVS)
                if env[0] == "dict" and t_[1] is ABSENT:
                    env = ("files",) + env[1:]
                spell = lambda parts, r, form=form: sp.render(parts, r, p_cluster=0.0, p_respell=0.0, p_dd=0.15, form=form)  # noqa: E731
                out.append(make_case(facts, {f["dest"]: (c_, t_)}, env, rng, decoy=decoy_for([f["dest"]]), spell=spell))
    # (s4) hand-written spellings: the corners of argparse's tokeniser
    out += handmade_cases(facts, rng, sp)
    return out


def handmade_cases(facts, rng, sp):
    out = []
    cs = {f["dest"]: cli_states(f) for f in facts}
    ts = {f["dest"]: toml_states(f) for f in facts}

    def hand(argv, says, structural=None, toml=("threshold", "valid")):
        """argv (without -c, with its target), what it says per dest (typed values), in two environments."""
        for env in (ENVS[1], ENVS[2], ("files", "exists", "parent")):
            assign = {d: (("hand", list(vs), [], True), ts[d][0]) for d, vs in says.items()}
            if toml and toml[0] not in assign:
                assign[toml[0]] = (cs[toml[0]][0], next(x for x in ts[toml[0]] if x[0] == toml[1]))
            c = make_case(facts, assign, env, rng, decoy=[("threshold", 77)])
            a = list(argv)
            if env[1] == "exists":
                cfg = rng.choice([["-c", "o.toml"], ["--config=o.toml"], ["-co.toml"], ["--conf", "o.toml"]])
                a = cfg + a
            c["argv"] = a
            c["raw_ok"] = True
            c["spelled"] = True
            c["spelling"] = ["hand:" + (structural or "valid")]
            c["structural"] = structural
            out.append(c)

    # valid, but only in this spelling
    hand(["--exclude=-x", "t.py"], {"_excluded_names": [["-x"]]})             # an attached value may look like an option
    hand(["-x-y", "-F=-z", "t.py"], {"_excluded_names": [["-y"]], "_excluded_imports": [["-z"]]})
    hand(["--exclude=", "-x=", "t.py"], {"_excluded_names": [[""], [""]]})
    hand(["--threshold=-5", "t.py"], {"threshold": [-5]}, toml=("_follow_imports_level", "valid"))
    hand(["--thresh", "-5", "t.py"], {"threshold": [-5]}, toml=("_follow_imports_level", "valid"))
    hand(["-H=T", "t.py"], {"collapse_home": [True], "truncate_deep_paths": [True]})   # `-H=T` is the cluster -H -T
    hand(["-H=Tf", "2", "t.py"], {"collapse_home": [True], "truncate_deep_paths": [True], "_follow_imports_level": [2]})
    hand(["-HH", "-TrT", "t.py"], {"collapse_home": [True, True], "truncate_deep_paths": [True, True], "force_refresh_cache": [True]})
    hand(["-f", "0", "-f3", "--follow-imports=2", "--fol", "0", "-Hf2", "t.py"],
         {"_follow_imports_level": [0, 3, 2, 0, 2], "collapse_home": [True]})
    hand(["-xa=b", "--exclude=c=d", "t.py"], {"_excluded_names": [["a=b"], ["c=d"]]})
    hand(["-wall", "-osilent", "t.py"], {"_warning_level": ["all"], "stdout": ["silent"]})
    hand(["-x", "a b", "--exclude=c d", "t.py"], {"_excluded_names": [["a b"], ["c d"]]})
    hand(["--", "t.py"], {})
    hand(["t.py", "--"], {})
    hand(["-H", "--", "t.py"], {"collapse_home": [True]})
    hand(["-x", "a", "t.py", "--"], {"_excluded_names": [["a"]]})
    hand(["--strict", "-rT", "--", "t.py"], {"is_strict": [True], "force_refresh_cache": [True], "truncate_deep_paths": [True]},
         toml=("_follow_imports_level", "valid"))
    # mistakes
    for pre in sp.ref.ambiguous_prefixes():
        if pre.startswith("--h"):
            continue
        hand([pre, "zed", "t.py"], {}, "ambiguous-prefix")
        hand([pre + "=zed", "t.py"], {}, "ambiguous-prefix")
    hand(["--strict=1", "t.py"], {}, "explicit-argument-to-flag")
    hand(["--collapse-home=", "t.py"], {}, "explicit-argument-to-flag")
    hand(["--collapse=x", "t.py"], {}, "explicit-argument-to-flag")
    hand(["-H=", "t.py"], {}, "explicit-argument-to-flag")
    hand(["-Hz", "t.py"], {}, "cluster-with-unknown-letter")
    hand(["-HTz", "t.py"], {}, "cluster-with-unknown-letter")
    hand(["-Hx", "t.py"], {}, "cluster-takes-the-target-as-value")
    hand(["t.py", "-Hf"], {}, "cluster-value-missing")
    hand(["t.py", "-Hf", "-T"], {}, "cluster-value-missing")
    hand(["-zH", "t.py"], {}, "unknown-cluster")
    hand(["--", "-H", "t.py"], {}, "dd-before-option")
    hand(["-x", "--", "a", "t.py"], {}, "dd-between-option-and-value")
    hand(["t.py", "-H", "--"], {}, "dd-after-target-and-option")
    hand(["t.py", "--", "u.py"], {}, "dd-then-second-positional")
    hand(["--"], {}, "dd-alone")
    hand(["-H", "--"], {}, "dd-alone")
    hand(["--follow-imports=abc", "t.py"], {}, "invalid-attached-value")
    hand(["-f7", "t.py"], {}, "invalid-attached-value")
    hand(["-Hwbogus", "t.py"], {}, "invalid-attached-value")
    return out


def cli_sample(facts, rng, tier, sp=None, flag2dest=None):
    """Cases for the real CLI: every invalid-TOML class, TOML syntax error, and observable valid mixes."""
    cs = {f["dest"]: cli_states(f) for f in facts}
    ts = {f["dest"]: toml_states(f) for f in facts}
    by = {f["dest"]: f for f in facts}
    out = []
    for dest in ("threshold", "_follow_imports_level", "_warning_level", "is_strict", "_excluded_names", "stdout"):
        for t in ts[dest]:
            if not t[2] and (tier == "thorough" or t[0] in ("invalid-type:str", "invalid-type:int", "out-of-choice", "out-of-choice-empty", "invalid-type:bool-false", "invalid-type:float")):
                out.append(make_case(facts, {dest: (cs[dest][0], t)}, rng.choice([ENVS[1], ENVS[2]]), rng))
    out.append(make_case(facts, {}, ENVS[1], rng, broken="syntax"))
    out.append(make_case(facts, {}, ENVS[2], rng, broken="syntax"))

    def st(dest, label, table):
        return next(s for s in table[dest] if s[0] == label)

    def tv(dest, value):
        return ("valid", value, True)

    def cv(dest, typed, toks):
        return ("valid", [typed], [toks], True)
    mixes = [
        {"stdout": (cs["stdout"][0], tv("stdout", "silent"))},
        {"stdout": (cv("stdout", "results", ["results"]), tv("stdout", "silent"))},
        {"stdout": (cv("stdout", "ir", ["ir"]), tv("stdout", "results"))},
        {"_excluded_names": (cv("_excluded_names", ["g"], ["g"]), tv("_excluded_names", ["f"]))},
        {"_excluded_names": (cs["_excluded_names"][0], tv("_excluded_names", ["f"]))},
        {"_follow_imports_level": (cs["_follow_imports_level"][0], tv("_follow_imports_level", 0))},
        {"_follow_imports_level": (cv("_follow_imports_level", 1, ["1"]), tv("_follow_imports_level", 0))},
        {"_follow_imports_level": (cv("_follow_imports_level", 0, ["0"]), tv("_follow_imports_level", 2)),
         "_excluded_names": (cv("_excluded_names", ["f"], ["f"]), ts["_excluded_names"][0])},
    ]
    for m in mixes:
        for env in (ENVS[1], ENVS[2], ENVS[3], ENVS[4], ENVS[6]):
            dec = [(by[d]["doc_key"], {"stdout": "ir", "_excluded_names": ["f", "g"], "_follow_imports_level": 3}[d]) for d in m]
            out.append(make_case(facts, m, env, rng, decoy=dec))
        if sp is None:
            continue
        # the same mixes through `python -m rattr` in other spellings: the -c override at the end of
        # a cluster of short flags (attached / detached), and free re-spelling of every group
        dec = [(by[d]["doc_key"], {"stdout": "ir", "_excluded_names": ["f", "g"], "_follow_imports_level": 3}[d]) for d in m]
        orders = sp.all_cluster_orders(2)
        for env in (ENVS[2], ENVS[5], ENVS[3]):
            order = rng.choice(orders)
            dests = [d for d, _ in order if d not in m]
            if not dests:
                continue
            mm = dict(m)
            for d in dests:
                mm[d] = (next(x for x in cs[d] if x[0] == "valid"), ts[d][0])
            attach = rng.random() < 0.5

            def arrange(seq, extra, target, dests=dests):
                used = [next(g for g in seq if flag2dest[g[0]] == d) for d in dests]
                rest = [g for g in seq if not any(g is u for u in used)]
                parts = rest + used + list(extra)
                parts.insert(rng.choice([0, len(parts)]), target)
                return parts
            spell = lambda parts, r, attach=attach: sp.render(parts, r, p_cluster=1.0, p_respell=0.5, p_dd=0.2, attach=attach)  # noqa: E731
            out.append(make_case(facts, mm, env, rng, decoy=dec, spell=spell, arrange=arrange, config_flag="-c"))
        out.append(make_case(facts, m, rng.choice([ENVS[1], ENVS[2], ENVS[4]]), rng, decoy=dec,
                             spell=lambda parts, r: sp.render(parts, r, p_cluster=0.8, p_respell=1.0, p_dd=0.3)))
    return out


# ------------------------------------------------------------------ run

def run(tier, seed, build):
    res = common.Result(PID)
    res.rule = ("every spelling argparse accepts for every option (a twin of ~45% of the cases below re-spelled at random: --opt=value, "
                "unambiguous long prefixes, -oVALUE, -o=VALUE, clusters of short flags ending in a flag or in an option with attached/"
                "detached value, -- around the target; the -c override in every single form and at the end of every cluster order of "
                "the short flags x {existing/missing -c} x {cwd, parent, vcs-shadow, vcs}; every documented short option at the end of "
                "clusters; every option x every single form; hand-written tokeniser corners incl. mistakes: ambiguous prefixes, explicit "
                "argument to a flag, unknown cluster letter, misplaced --) with the spec fed by the reference-argparse normalisation; "
                "every documented TOML-settable option: full product of its command-line states {absent, valid, given twice, "
                "invalid type, out of choice, …} x TOML states {absent, valid, each wrong type incl. bool-for-int, out of choice, …} "
                "rotating over {explicit conf, no -c, existing -c, missing -c} x {pyproject in cwd, in the parent, shadowed by a VCS root, none}; "
                "pairs of options (sampled in quick, full reduced product in thorough), triples (thorough), seeded random many-option cases "
                "with unknown keys / syntax errors / missing [tool.rattr]; a sample through the real CLI; "
                "(n) for every choice-restricted option every NEAR MISS of every allowed value (tables/t_c20.near_miss_texts: other letter "
                "case, surrounding whitespace, prefixes / suffixes / extensions, enum member names / qualified names / reprs, positions, "
                "casefold / NFKC look-alikes; for int choices just outside, float / hex / exponent / bool texts) from the TOML (explicit "
                "conf, pyproject in cwd / parent, -c override) and from the command line (canonical + one single-option spelling), alone, "
                "next to a valid value on the other source and next to another option; typed neighbours for int / flag options "
                "(2.0, \"2\", [2], \"true\"); a sample of them through the real CLI. "
                "non-trivial = distinct case in which at least one option is given on at least one source")
    rng = random.Random(seed)
    facts, flag2dest = option_facts()
    flags = set(flag2dest)
    ref = make_reference()
    sp = c20_argv.Speller(ref)
    dirs = Dirs()
    try:
        dead = probe_dead_keys(facts, dirs, flag2dest, random.Random(0))
        res.extra["documented_toml_keys_without_effect"] = dead
        cases = build_cases(facts, tier, rng, sp, flag2dest)
        sample_all = cli_sample(facts, rng, tier, sp, flag2dest)
        rng_n = random.Random(seed * 7919 + 20)     # own stream: the parts above are unchanged by (n)
        near = near_miss_cases(facts, tier, rng_n, sp)
        sample_all = sample_all + near_miss_sample(facts, tier, rng_n)
        cases = cases + near + sample_all
        kept = []
        for c in cases:
            if not in_fragment(c, flags):
                res.skipped_outside_fragment += 1
                continue
            # what the command line says, by the reference parser (never by rattr's own first pass)
            c["ref"] = ref.normalise(c["argv"])
            bad = check_normalisation(c, facts)
            if bad:
                res.internal_errors.append({"what": "generator intent vs reference normalisation: " + bad,
                                            "argv": c["argv"], "canonical": c.get("canonical_argv")})
                continue
            kept.append(c)
        cases = kept
        kept_ids = {id(k) for k in kept}
        sample_all = [c for c in sample_all if id(c) in kept_ids]
        model = common.Model()
        outs = model.batch([("cli_merge", model_payload(c, facts)) for c in cases])
        res.extra["exhaustive"] = True
        res.extra["exhaustive_scope"] = ("per-option product of source states (part a); pairs/triples per tier; the -c override in every "
                                         "single-option form and after every ordered selection (<=3) of the short flags (part s2)")
        for case, mo in zip(cases, outs):
            res.evaluations += 1
            im = run_impl(case, dirs, flag2dest)
            shown = {k: case[k] for k in ("argv", "conf", "decoy", "mode", "cfile", "layout", "broken", "eoe")}
            shown["conf"] = [[k, v] for k, v in case["conf"]]
            shown["decoy"] = [[k, v] for k, v in case["decoy"]]
            if case.get("spelled"):
                shown["spelling"] = case["spelling"]
                shown["normalised"] = case["ref"]["occ"] if case["ref"]["ok"] else case["ref"]
                res.count("spelled")
                for lab in case["spelling"]:
                    res.count("spell:" + lab.split(":")[0] + (":" + lab.split(":")[1] if lab.startswith("hand:") else ""))
            if any(it["cli"] or it["toml_given"] for it in case["intent"].values()):
                res.nontrivial.add(common.digest(shown))
            res.sample({"case": shown, "impl": im})
            res.count(f"env:{case['mode']}/{case['cfile']}/{case['layout']}")
            for d, it in case["intent"].items():
                res.count(f"cli:{it['cli_state']}")
                res.count(f"toml:{it['toml_state']}")
            res.count("impl:" + im["outcome"] + (":" + str(im.get("err")) if im.get("err") else ""))
            _, _, _, label, spec_conf = source_of(case)
            source_broken = case["broken"] if label in ("override", "pyproject") else None
            if source_broken:
                spec_conf = []
            pys = py_spec(facts, case, spec_conf)
            if "__error__" in mo:
                res.disagreements.append({"case": shown, "impl": im, "model": mo})
                spec = pys
            else:
                spec = mo["spec"]
                if spec != pys:
                    res.internal_errors.append({"what": "Lean Spec.effective/acceptable disagrees with the Python re-statement",
                                                "case": shown, "lean": spec, "python": pys})
                    continue
                want_label = None if case["mode"] == "dict" else label
                if case["mode"] == "files" and mo["spec_source"] != want_label:
                    res.internal_errors.append({"what": "Spec.tomlSource disagrees with the harness", "case": shown,
                                                "lean": mo["spec_source"], "python": want_label})
                    continue
                if case["ref"]["ok"] and mo.get("norm") != norm_of_ref(case["ref"]):
                    res.internal_errors.append({"what": "the model's tokeniser (Argv.occurrences) disagrees with the reference argparse parser",
                                                "case": shown, "lean": mo.get("norm"), "reference": norm_of_ref(case["ref"])})
                    continue
                mm = mo["model"]
                ii = {k: v for k, v in im.items() if k not in ("exc", "msg", "in_toml_error", "code")}
                if mm != ii:
                    res.disagreements.append({"case": shown, "impl": im, "model": mo["model"]})
            # alternative reading for the signature: the decoy file was used
            alt = None
            if case["mode"] == "files" and not case["broken"]:
                other = case["decoy"] if case["cfile"] == "exists" else (case["conf"] if label is None else None)
                if other:
                    alt = py_spec(facts, case, other)
            v = judge(case, im, spec, facts, spec_conf, source_broken, alt, dead)
            if v is None:
                res.count("verdict:holds")
            elif isinstance(v, tuple):
                res.count("verdict:skip:" + v[1])
            else:
                res.count("verdict:" + v.split(":")[0])
                res.violations.append({"signature": v, "case": shown, "impl": im,
                                       "spec": {d: s for d, s in spec.items() if d in case["intent"]}})

        # ---- real CLI sample: invalid TOML must end in a diagnostic; valid mixes must show the effective values
        sample = list(sample_all)
        mouts = model.batch([("cli_merge", model_payload(c, facts)) for c in sample])

        def one(c):
            # each CLI run needs its own tree (parallel): private Dirs per worker call
            d = Dirs()
            try:
                return cli_observe(c, d)
            finally:
                d.cleanup()
        with ThreadPoolExecutor(max_workers=8) as ex:
            obs = list(ex.map(one, sample))
        for case, ob, mo in zip(sample, obs, mouts):
            res.evaluations += 1
            res.count("cli-sample")
            shown = {k: case[k] for k in ("argv", "mode", "cfile", "layout", "broken")}
            shown["conf"] = [[k, v] for k, v in case["conf"]]
            shown["decoy"] = [[k, v] for k, v in case["decoy"]]
            shown["via"] = "python -m rattr"
            res.nontrivial.add(common.digest(shown))
            im = run_impl(case, dirs, flag2dest)  # the in-process worker on the same case
            if ob.get("traceback"):
                res.count("cli:traceback:" + ob.get("exc", "?"))
                if ob.get("config_init") and ob.get("via_toml_error"):
                    sig = "toml-diagnostic-path-crashes:TypeError:Config.__init__-before-singleton-exists"
                else:
                    sig = f"cli-traceback:{ob.get('exc')}"
                # the in-process worker must have seen a TOML error on the same case
                if im["outcome"] not in TOML_DIAG:
                    res.internal_errors.append({"what": "CLI traceback where the in-process worker saw no TOML error",
                                                "case": shown, "cli": ob, "worker": im})
                res.violations.append({"signature": sig, "case": shown, "cli": ob})
                continue
            if im["outcome"] in TOML_DIAG:
                # a diagnostic was due and the CLI gave no traceback: it must have failed cleanly,
                # with the `fatal: error parsing project toml: …` line and a non-zero exit status
                if ob["exit"] == 0:
                    res.violations.append({"signature": "invalid-toml-accepted-by-cli", "case": shown, "cli": ob})
                elif not ob.get("toml_fatal_line"):
                    res.violations.append({"signature": f"invalid-toml-cli-exit-{ob['exit']}-without-fatal-line",
                                           "case": shown, "cli": ob})
                else:
                    res.count("cli:diagnostic")
                continue
            if im["outcome"] == "cliError" and case.get("near"):
                # a near-miss value on the command line: usage error, exit status 2
                if ob["exit"] == 0:
                    res.violations.append({"signature": "invalid-command-line-accepted-by-cli", "case": shown, "cli": ob})
                elif not ob.get("usage_error"):
                    res.violations.append({"signature": f"invalid-command-line-cli-exit-{ob['exit']}-without-usage-error",
                                           "case": shown, "cli": ob})
                else:
                    res.count("cli:usage-error")
                continue
            if im["outcome"] == "ok":
                if ob["exit"] != 0:
                    res.internal_errors.append({"what": "CLI failed where the worker parsed fine", "case": shown, "cli": ob})
                    continue
                exp = cli_expected(im["ns"])
                got = {k: ob.get(k) for k in exp}
                if exp["stdout"] is not None and got != exp:
                    # worker-vs-CLI self-check
                    res.internal_errors.append({"what": "real CLI behaviour differs from the worker's namespace",
                                                "case": shown, "cli": ob, "expected": exp})
                else:
                    res.count("cli:agrees-with-worker")
    finally:
        dirs.cleanup()
    res.assumptions = [
        "argparse's tokeniser (abbreviations, '='-joined values, clusters of short flags, '--', negative-number-like and spaced words) IS modelled "
        "(RattrModel/Argv.lean, CPython 3.12 semantics) and validated per case against a reference stdlib parser built from the regenerated "
        "option table; still trusted: '@file' arguments (none: noFromFile), non-ASCII digits in the negative-number test",
        "what the command line SAYS (the spec's input) is the reference parser's normalisation of the argv actually passed, cross-checked "
        "against the generator's intent; for a mistaken command line the property only asks for a diagnostic",
        "the codec str(int)/int(str) between token text and integers is trusted (texts are canonical decimals or words int() rejects)",
        "[interp] an option given several times on the command line: last occurrence wins; list options accumulate TOML items then command-line items",
        "[interp] an explicit non-empty project_toml_conf is the TOML source (the -c file is then not consulted)",
        "[interp] the project's pyproject.toml is the one in the project root = nearest directory (from cwd upwards) with pyproject.toml or a VCS marker",
        "[interp] the documented TOML spelling of an option is the 'TOML example: key=' of its help text; documented type from the argparse action/type",
        "[interp] strict together with a non-zero threshold in one source is a documented conflict: either outcome accepted",
        "`tool` / `tool.rattr` that are not tables (AttributeError) are outside the fragment (C07 territory)",
    ]
    return res


def replay(path):
    j = json.load(open(path))
    print(json.dumps(j, indent=1))
    case = j.get("case")
    if not case or "argv" not in case or case.get("via"):
        return 0
    facts, flag2dest = option_facts()
    dirs = Dirs()
    try:
        c = {"argv": case["argv"], "conf": [tuple(x) for x in case["conf"]], "decoy": [tuple(x) for x in case.get("decoy", [])],
             "mode": case["mode"], "cfile": case["cfile"], "layout": case["layout"], "broken": case.get("broken"),
             "eoe": case.get("eoe", False), "intent": {}}
        c["ref"] = make_reference().normalise(c["argv"])
        print("reference normalisation of the command line:", json.dumps(c["ref"], default=str))
        print("implementation now:", json.dumps(run_impl(c, dirs, flag2dest), default=str))
        mo = common.Model().batch([("cli_merge", model_payload(c, facts))])[0]
        print("model:", json.dumps(mo.get("model", mo)))
    finally:
        dirs.cleanup()
    return 0

"""C04 — call-site arguments are bound to parameters exactly as Python binds them.

Tie B: the real `construct_call_swaps` vs the Lean model `Swaps.construct` on the same
(signature, call); the Lean spec `Spec.pyBind` vs `inspect.Signature.bind` on a real function with
that signature (self-check of the spec); then the property oracle = spec applied to the
implementation's output.
"""
from __future__ import annotations

import inspect
import itertools
import random
import re

import common
import impl

from rattr.models.symbol import Call, CallArguments, CallInterface, Func
from rattr.config.state import enter_file
from rattr.results import construct_call_swaps

PID = "C04"
NAMES = ["a", "b", "c", "d", "e"]


# ------------------------------------------------------------------ generation

def signatures(max_named):
    """All signatures with <= max_named named (non-variadic) parameters over the 3 named kinds,
    with every legal default pattern, x optional *va x optional **kw."""
    for n in range(max_named + 1):
        for n_po in range(n + 1):
            for n_ar in range(n - n_po + 1):
                n_ko = n - n_po - n_ar
                names = NAMES[:n]
                po, ar, ko = names[:n_po], names[n_po:n_po + n_ar], names[n_po + n_ar:]
                pos = po + ar
                # positional defaults: a suffix of pos has defaults
                for k in range(len(pos) + 1):
                    dpos = [i >= len(pos) - k for i in range(len(pos))]
                    for dko in itertools.product([False, True], repeat=n_ko):
                        for va in (None, "va"):
                            for kw in (None, "kw"):
                                yield {
                                    "posonly": [{"name": x, "default": dpos[i]} for i, x in enumerate(po)],
                                    "args": [{"name": x, "default": dpos[n_po + i]} for i, x in enumerate(ar)],
                                    "vararg": va,
                                    "kwonly": [{"name": x, "default": dko[i]} for i, x in enumerate(ko)],
                                    "kwarg": kw,
                                }


def calls_for(sig, max_pos, max_kw):
    keys = [p["name"] for k in ("posonly", "args", "kwonly") for p in sig[k]]
    keys += [x for x in (sig["vararg"], sig["kwarg"]) if x]
    keys += ["zz", "yy"]
    for npos in range(max_pos + 1):
        args = [f"x{i}" for i in range(npos)]
        for nk in range(max_kw + 1):
            for ks in itertools.permutations(keys, nk):
                # permutations cover both orders; drop symmetric duplicates of the two foreign names
                if "yy" in ks and "zz" not in ks:
                    continue
                yield {"args": args, "kwargs": [[k, f"v_{k}"] for k in ks]}


def random_case(rng):
    n = rng.randint(3, 5)
    names = NAMES[:n]
    cut1 = rng.randint(0, n)
    cut2 = rng.randint(cut1, n)
    po, ar, ko = names[:cut1], names[cut1:cut2], names[cut2:]
    pos = po + ar
    k = rng.randint(0, len(pos))
    dpos = [i >= len(pos) - k for i in range(len(pos))]
    sig = {
        "posonly": [{"name": x, "default": dpos[i]} for i, x in enumerate(po)],
        "args": [{"name": x, "default": dpos[len(po) + i]} for i, x in enumerate(ar)],
        "vararg": rng.choice([None, "va"]),
        "kwonly": [{"name": x, "default": rng.random() < 0.5} for x in ko],
        "kwarg": rng.choice([None, "kw"]),
    }
    keys = names + ["va", "kw", "zz", "yy", "ww"]
    nk = rng.randint(0, 4)
    ks = rng.sample(keys, nk)
    npos = rng.randint(0, n + 2)
    # occasionally a positional spelled like a stand-in (a tuple / dict literal argument)
    args = [rng.choice([f"x{i}", f"x{i}", f"x{i}", "@Tuple", "@Dict", "q.attr"]) for i in range(npos)]
    return sig, {"args": args, "kwargs": [[k, rng.choice([f"v_{k}", "@Dict", "@Constant"])] for k in ks]}


# ------------------------------------------------------------------ implementation side

DIAG_PATTERNS = [
    ("posonlyShort", re.compile(r"expected \d+ posonlyargs but only received")),
    ("tooManyPositional", re.compile(r"received too many positional arguments")),
    ("unexpectedKeywords", re.compile(r"received unexpected keyword arguments: (\[.*\])")),
    ("byPositionAndName", re.compile(r"received the arguments (\[.*\]) by position and name")),
]


def classify_diag(ev):
    msg = ev["message"]
    for kind, pat in DIAG_PATTERNS:
        m = pat.search(msg)
        if m:
            d = {"k": kind}
            if m.groups():
                d["names"] = eval(m.group(1), {"__builtins__": {}})  # list of str literals
            return d
    return {"k": "other", "message": msg, "level": ev["level"]}


def run_impl(sig, call):
    iface = CallInterface(
        posonlyargs=[p["name"] for p in sig["posonly"]],
        args=[p["name"] for p in sig["args"]],
        vararg=sig["vararg"],
        kwonlyargs=[p["name"] for p in sig["kwonly"]],
        kwarg=sig["kwarg"],
    )
    with enter_file(impl.Path("target.py")):
        func = Func(name="callee", interface=iface)
        c = Call(name="callee", args=CallArguments(args=call["args"], kwargs=dict(map(tuple, call["kwargs"]))))
    with impl.Tap() as tap:
        out = impl.outcome_of(construct_call_swaps, func, c)
    if out[0] != "ok":
        return {"outcome": list(out[:2]) + [str(out[2]) if len(out) > 2 else ""]}
    diags = [classify_diag(e) for e in tap.events]
    levels = sorted({e["level"] for e in tap.events})
    return {"swaps": sorted([k, v] for k, v in out[1].items()), "diags": diags, "levels": levels}


def py_source(sig):
    parts = []
    for p in sig["posonly"]:
        parts.append(p["name"] + ("=0" if p["default"] else ""))
    if sig["posonly"]:
        parts.append("/")
    for p in sig["args"]:
        parts.append(p["name"] + ("=0" if p["default"] else ""))
    if sig["vararg"]:
        parts.append("*" + sig["vararg"])
    elif sig["kwonly"]:
        parts.append("*")
    for p in sig["kwonly"]:
        parts.append(p["name"] + ("=0" if p["default"] else ""))
    if sig["kwarg"]:
        parts.append("**" + sig["kwarg"])
    return f"def callee({', '.join(parts)}): pass"


_SIGCACHE = {}
_DEFAULT = "<default>"


def _compile(sig, all_default=False):
    """A real function with this signature that reports how CPython bound its parameters."""
    parts, named = [], []

    def item(p):
        named.append(p["name"])
        return p["name"] + ("=_D" if (p["default"] or all_default) else "")

    for p in sig["posonly"]:
        parts.append(item(p))
    if sig["posonly"]:
        parts.append("/")
    for p in sig["args"]:
        parts.append(item(p))
    if sig["vararg"]:
        parts.append("*" + sig["vararg"])
    elif sig["kwonly"]:
        parts.append("*")
    for p in sig["kwonly"]:
        parts.append(item(p))
    if sig["kwarg"]:
        parts.append("**" + sig["kwarg"])
    ret = "[" + ", ".join(f"({n!r}, {n})" for n in named) + "]"
    va = sig["vararg"] or "()"
    kw = sig["kwarg"] or "{}"
    src = f"def callee({', '.join(parts)}): return {ret}, list({va}), dict({kw})"
    ns = {"_D": _DEFAULT}
    exec(src, ns)
    return ns["callee"]


def python_bind(sig, call):
    """Ground truth from CPython's own call machinery (a real call of a real function):
    ('ok', explicit pairs, varargGot, kwargGot) | ('err', 'missingRequired' | 'arity')."""
    key = py_source(sig)
    fs = _SIGCACHE.get(key)
    if fs is None:
        fs = _SIGCACHE[key] = (_compile(sig), _compile(sig, all_default=True))
    kwargs = {k: v for k, v in call["kwargs"]}
    try:
        named, va, kw = fs[0](*call["args"], **kwargs)
    except TypeError:
        # "rejected only because a required argument is missing" <=> the same call is accepted once
        # every parameter has a default.
        try:
            fs[1](*call["args"], **kwargs)
            return ("err", "missingRequired")
        except TypeError:
            return ("err", "arity")
    explicit = [[n, v] for n, v in named if v is not _DEFAULT]
    return ("ok", explicit, va, [[k, v] for k, v in kw.items()])


# ------------------------------------------------------------------ oracle

def sig_names(sig):
    clash = [p["name"] for p in sig["posonly"]] + [x for x in (sig["vararg"], sig["kwarg"]) if x]
    return clash


def judge(sig, call, im, spec):
    """Property oracle on the implementation's output. Returns None (holds), ('interp', why) or a
    violation signature string."""
    if "outcome" in im:
        return f"crash:{im['outcome'][1]}"
    diag_kinds = [d["k"] for d in im["diags"]]
    if "ok" in spec:
        exp = sorted(spec["ok"]["expected"])
        len_ = sorted(spec["ok"]["expectedLenient"])
        kw_keys = [k for k, _ in call["kwargs"]]
        if diag_kinds:
            # accepted by Python but diagnosed
            if diag_kinds == ["byPositionAndName"] and sig["kwarg"] and im["swaps"] in (exp, len_):
                names = im["diags"][0].get("names", [])
                if names and all(n in sig_names(sig) and n in kw_keys for n in names):
                    return "accepted-call-diagnosed:keyword-equals-posonly-or-variadic-name-with-kwargs"
            if diag_kinds == ["posonlyShort"] and im["swaps"] == []:
                npos = len(call["args"])
                omitted = sig["posonly"][npos:]
                if omitted and all(p["default"] for p in omitted):
                    return "accepted-call-diagnosed:omitted-posonly-parameter-with-default"
            return "accepted-call-diagnosed:other:" + "+".join(diag_kinds)
        if im["swaps"] == exp:
            return None
        if im["swaps"] == len_:
            return "kwargs-parameter-receiving-nothing-left-unmapped"
        return "accepted-call-misbound"
    else:
        err = spec["err"]
        if err == "missingRequired":
            # [interp] not decidable from rattr's data model (no defaults); claimed reading:
            # no mis-binding. Not counted as a violation.
            return ("interp", "missing-required-silent" if not diag_kinds else "missing-required-diagnosed")
        if not diag_kinds:
            return "rejected-call-silent:" + err
        if "error" not in im["levels"]:
            return "rejected-call-not-error-level:" + err
        return None


# ------------------------------------------------------------------ run

def run(tier, seed, build):
    res = common.Result(PID)
    res.rule = ("exhaustive: all signatures with <= N named parameters (3 named kinds, every legal default "
                "pattern) x {*va} x {**kw} x calls with <= P positionals x ordered keyword tuples of size <= K "
                "over parameter names, variadic names and two foreign names; plus seeded random larger cases. "
                "non-trivial = distinct (signature, call) with >= 1 parameter or argument")
    impl.reset_config()
    rng = random.Random(seed)
    if tier == "quick":
        N, P, K, R = 3, 3, 2, 1500
    else:
        N, P, K, R = 4, 4, 2, 20000
    cases = []
    for sig in signatures(N):
        named = sum(len(sig[k]) for k in ("posonly", "args", "kwonly"))
        for call in calls_for(sig, min(P, named + 1), K):
            cases.append((sig, call))
    n_exh = len(cases)
    for _ in range(R):
        cases.append(random_case(rng))
    res.extra["exhaustive"] = True
    res.extra["exhaustive_cases"] = n_exh
    res.extra["random_cases"] = R

    model = common.Model()
    outs = model.batch([("swaps", {"sig": s, "call": c}) for s, c in cases])

    for (sig, call), mo in zip(cases, outs):
        res.evaluations += 1
        case = {"sig": py_source(sig), "call": call}
        im = run_impl(sig, call)
        if sum(len(sig[k]) for k in ("posonly", "args", "kwonly")) + len(call["args"]) + len(call["kwargs"]) > 0:
            res.nontrivial.add(common.digest(case))
        res.sample({"case": case, "impl": im})
        pb = python_bind(sig, call)
        if "__error__" in mo:
            res.disagreements.append({"case": case, "impl": im, "model": mo})
            spec = None
        else:
            # self-check: Lean spec vs CPython
            sp = mo["spec"]
            if pb[0] == "ok":
                ok = "ok" in sp and sorted(sp["ok"]["explicit"]) == sorted(pb[1]) and sp["ok"]["varargGot"] == pb[2] \
                    and sorted(sp["ok"]["kwargGot"]) == sorted(pb[3])
            else:
                ok = "err" in sp and (sp["err"] == "missingRequired") == (pb[1] == "missingRequired")
            if not ok:
                res.internal_errors.append({"what": "Spec.pyBind disagrees with inspect.Signature.bind",
                                            "case": case, "python": pb, "spec": sp})
                continue
            spec = sp
            # correspondence: model vs implementation
            mm = {"swaps": sorted(mo["swaps"]), "diags": mo["diags"]}
            ii = {"swaps": im.get("swaps"), "diags": im.get("diags")}
            if mm != ii:
                res.disagreements.append({"case": case, "impl": im, "model": mm})
        if spec is None:
            # fall back on CPython itself as the oracle when the model is unavailable
            if pb[0] == "ok":
                exp = pb[1] + ([[sig["vararg"], "@Tuple"]] if sig["vararg"] else [])
                spec = {"ok": {"expected": exp + ([[sig["kwarg"], "@Dict"]] if sig["kwarg"] else []),
                               "expectedLenient": exp + ([[sig["kwarg"], "@Dict"]] if sig["kwarg"] and pb[3] else [])}}
            else:
                spec = {"err": pb[1]}
        v = judge(sig, call, im, spec)
        res.count("python:" + (pb[0] if pb[0] == "ok" else pb[1]))
        if v is None:
            res.count("verdict:holds")
        elif isinstance(v, tuple):
            res.count("verdict:interp:" + v[1])
        else:
            res.count("verdict:" + v.split(":")[0])
            res.violations.append({"signature": v, "case": case, "impl": im, "spec": spec})
    end_to_end(res, rng, 120 if tier == "quick" else 1500)
    # ---- what the property says about the USE of the swaps (outside construct_call_swaps): the substitution
    # applied when inlining (simultaneous, the implicit `self` of an initialiser) and the arity diagnostic
    # reaching the user for every resolved call (callees with an empty IR included), through the real pipeline
    from props import c04e2e
    c04e2e.unbind_stage(res, random.Random(seed + 404), 600 if tier == "quick" else 6000, model)
    c04e2e.module_stage(res, random.Random(seed + 4040), 36 if tier == "quick" else 600, model,
                        cli_sample=4 if tier == "quick" else 30)
    res.rule += ("; substitution stage: (signature, accepted call whose arguments are the callee's own parameter names "
                 "permuted / overlapping, callee IR rooted at the parameters) through construct_call_swaps ; "
                 "unbind_ir_with_call_swaps vs Lean Swaps.construct ; Results.unbindIr vs CPython's binding; module stage: "
                 "generated modules (permuted arguments into def / async / lambda / static-method callees, recursive and "
                 "two-hop permutations, class initialisers stored into names / attributes / subscripts / annotated targets / "
                 "self.member / returned / not stored, callees with an EMPTY IR called legally and illegally) in the target "
                 "file (also vs the Lean pipeline model) and in a followed import, in-process and through the CLI")
    res.assumptions = [
        "a real call of a real function with that signature is Python's binding rule",
        "[interp] a call Python rejects only for a missing required argument need not be diagnosed (rattr's CallInterface has no defaults)",
        "[interp] *args/**kwargs parameters are expected to be mapped to their stand-ins whenever the parameter exists",
        "module stage: the spelled name of an assignment target / argument follows the README naming rules (`t[0]` is `t[]`); "
        "a diagnostic is attributed to a call by its line; static-method callees only where the call is resolved "
        "(class defined before the caller; not through `from m import K`)",
        "[interp] the one-step unrolling of a recursive call is demanded, the rest of its orbit is allowed (C03's subject)",
    ]
    return res


def end_to_end(res, rng, n):
    """The same property through the whole pipeline: a generated callee reads `<param>.mark_<param>` for
    every parameter; a caller makes TWO accepted calls to it (same callee, often the same positionals and
    keyword names but different values); after result generation the caller must report
    `<argument>.mark_<param>` for every explicitly bound parameter of BOTH calls."""
    from props import resultslib as rl

    done = 0
    while done < n:
        sig, call1 = random_case(rng)
        if python_bind(sig, call1)[0] != "ok":
            continue
        names = [p["name"] for k in ("posonly", "args", "kwonly") for p in sig[k]]
        # second call: same shape, different argument identifiers
        call2 = {"args": [f"y{i}" for i in range(len(call1["args"]))], "kwargs": [[k, f"w_{k}"] for k, _ in call1["kwargs"]]}
        call1 = {"args": [f"x{i}" for i in range(len(call1["args"]))], "kwargs": [[k, f"v_{k}"] for k, _ in call1["kwargs"]]}
        if rng.random() < 0.5:
            call2["args"] = list(call1["args"])       # identical positionals, only keyword VALUES differ
        skip = False
        for c in (call1, call2):
            kw_keys = [k for k, _ in c["kwargs"]]
            clash = [p["name"] for p in sig["posonly"]] + [x for x in (sig["vararg"], sig["kwarg"]) if x]
            if (sig["kwarg"] and any(k in clash for k in kw_keys)) or len(c["args"]) < len(sig["posonly"]):
                skip = True         # known finding classes E1 / E2: judged by the direct check above
        if skip:
            continue
        done += 1
        res.evaluations += 1
        idents = sorted({a for c in (call1, call2) for a in c["args"]} | {v for c in (call1, call2) for _, v in c["kwargs"]})
        body = "\n".join(f"    {n}.mark_{n}" for n in names) or "    pass"
        hdr = py_source(sig).replace(": pass", ":")

        def spell(c):
            return ", ".join(list(c["args"]) + [f"{k}={v}" for k, v in c["kwargs"]])

        src = f"{hdr}\n{body}\n\ndef caller({', '.join(idents) or ''}):\n    callee({spell(call1)})\n    callee({spell(call2)})\n"
        out = impl.outcome_of(rl.analyse_source, src)
        if out[0] != "ok":
            res.internal_errors.append({"what": "end-to-end program failed to analyse", "source": src})
            continue
        im = rl.run_impl(out[1])
        if im["outcome"] != "ok":
            res.violations.append({"signature": "end-to-end:result-generation-crash", "case": {"source": src}})
            continue
        snap = rl.snapshot(out[1])
        caller_key = next(k for k, f in enumerate(snap["fns"]) if f["name"] == "caller")
        gets = set(im["rounds"][0]["results"][caller_key]["gets"])
        missing = []
        for c in (call1, call2):
            pb = python_bind(sig, c)
            for param, arg in pb[1]:
                if f"{arg}.mark_{param}" not in gets:
                    missing.append(f"{arg}.mark_{param}")
        if missing:
            res.count("verdict:end-to-end:explicit-argument-not-bound")
            res.violations.append({"signature": "end-to-end:explicit-argument-not-bound-in-caller-results",
                                   "case": {"source": src}, "missing": missing, "caller_gets": sorted(gets)})
        else:
            res.count("end-to-end:holds")


def replay(path):
    import json
    j = json.load(open(path))
    if isinstance(j.get("case"), dict) and j["case"].get("stage") == "module":
        from props import c04e2e
        return c04e2e.replay_case(j)
    print(json.dumps(j, indent=1))
    return 0

"""C04 — call-site arguments are bound to parameters exactly as Python binds them.

Tie B: the real `construct_call_swaps` vs the Lean model `Swaps.construct` on the same
(signature, call); the Lean spec `Spec.pyBind` vs `inspect.Signature.bind` on a real function with
that signature (self-check of the spec); then the property oracle = spec applied to the
implementation's output.
"""
from __future__ import annotations

import inspect
import itertools
import random
import re

import common
import impl

from rattr.models.symbol import Call, CallArguments, CallInterface, Func
from rattr.config.state import enter_file
from rattr.results import construct_call_swaps

PID = "C04"
NAMES = ["a", "b", "c", "d", "e"]


# ------------------------------------------------------------------ generation

def signatures(max_named):
    """All signatures with <= max_named named (non-variadic) parameters over the 3 named kinds,
    with every legal default pattern, x optional *va x optional **kw."""
    for n in range(max_named + 1):
        for n_po in range(n + 1):
            for n_ar in range(n - n_po + 1):
                n_ko = n - n_po - n_ar
                names = NAMES[:n]
                po, ar, ko = names[:n_po], names[n_po:n_po + n_ar], names[n_po + n_ar:]
                pos = po + ar
                # positional defaults: a suffix of pos has defaults
                for k in range(len(pos) + 1):
                    dpos = [i >= len(pos) - k for i in range(len(pos))]
                    for dko in itertools.product([False, True], repeat=n_ko):
                        for va in (None, "va"):
                            for kw in (None, "kw"):
                                yield {
                                    "posonly": [{"name": x, "default": dpos[i]} for i, x in enumerate(po)],
                                    "args": [{"name": x, "default": dpos[n_po + i]} for i, x in enumerate(ar)],
                                    "vararg": va,
                                    "kwonly": [{"name": x, "default": dko[i]} for i, x in enumerate(ko)],
                                    "kwarg": kw,
                                }


def calls_for(sig, max_pos, max_kw):
    keys = [p["name"] for k in ("posonly", "args", "kwonly") for p in sig[k]]
    keys += [x for x in (sig["vararg"], sig["kwarg"]) if x]
    keys += ["zz", "yy"]
    for npos in range(max_pos + 1):
        args = [f"x{i}" for i in range(npos)]
        for nk in range(max_kw + 1):
            for ks in itertools.permutations(keys, nk):
                # permutations cover both orders; drop symmetric duplicates of the two foreign names
                if "yy" in ks and "zz" not in ks:
                    continue
                yield {"args": args, "kwargs": [[k, f"v_{k}"] for k in ks]}


def random_case(rng):
    n = rng.randint(3, 5)
    names = NAMES[:n]
    cut1 = rng.randint(0, n)
    cut2 = rng.randint(cut1, n)
    po, ar, ko = names[:cut1], names[cut1:cut2], names[cut2:]
    pos = po + ar
    k = rng.randint(0, len(pos))
    dpos = [i >= len(pos) - k for i in range(len(pos))]
    sig = {
        "posonly": [{"name": x, "default": dpos[i]} for i, x in enumerate(po)],
        "args": [{"name": x, "default": dpos[len(po) + i]} for i, x in enumerate(ar)],
        "vararg": rng.choice([None, "va"]),
        "kwonly": [{"name": x, "default": rng.random() < 0.5} for x in ko],
        "kwarg": rng.choice([None, "kw"]),
    }
    keys = names + ["va", "kw", "zz", "yy", "ww"]
    nk = rng.randint(0, 4)
    ks = rng.sample(keys, nk)
    npos = rng.randint(0, n + 2)
    # occasionally a positional spelled like a stand-in (a tuple / dict literal argument)
    args = [rng.choice([f"x{i}", f"x{i}", f"x{i}", "@Tuple", "@Dict", "q.attr"]) for i in range(npos)]
    return sig, {"args": args, "kwargs": [[k, rng.choice([f"v_{k}", "@Dict", "@Constant"])] for k in ks]}


# ------------------------------------------------------------------ implementation side

DIAG_PATTERNS = [
    ("posonlyShort", re.compile(r"expected \d+ posonlyargs but only received")),
    ("tooManyPositional", re.compile(r"received too many positional arguments")),
    ("unexpectedKeywords", re.compile(r"received unexpected keyword arguments: (\[.*\])")),
    ("byPositionAndName", re.compile(r"received the arguments (\[.*\]) by position and name")),
]


def classify_diag(ev):
    msg = ev["message"]
    for kind, pat in DIAG_PATTERNS:
        m = pat.search(msg)
        if m:
            d = {"k": kind}
            if m.groups():
                d["names"] = eval(m.group(1), {"__builtins__": {}})  # list of str literals
            return d
    return {"k": "other", "message": msg, "level": ev["level"]}


def run_impl(sig, call):
    iface = CallInterface(
        posonlyargs=[p["name"] for p in sig["posonly"]],
        args=[p["name"] for p in sig["args"]],
        vararg=sig["vararg"],
        kwonlyargs=[p["name"] for p in sig["kwonly"]],
        kwarg=sig["kwarg"],
    )
    with enter_file(impl.Path("target.py")):
        func = Func(name="callee", interface=iface)
        c = Call(name="callee", args=CallArguments(args=call["args"], kwargs=dict(map(tuple, call["kwargs"]))))
    with impl.Tap() as tap:
        out = impl.outcome_of(construct_call_swaps, func, c)
    if out[0] != "ok":
        return {"outcome": list(out[:2]) + [str(out[2]) if len(out) > 2 else ""]}
    diags = [classify_diag(e) for e in tap.events]
    levels = sorted({e["level"] for e in tap.events})
    return {"swaps": sorted([k, v] for k, v in out[1].items()), "diags": diags, "levels": levels}


def py_source(sig):
    parts = []
    for p in sig["posonly"]:
        parts.append(p["name"] + ("=0" if p["default"] else ""))
    if sig["posonly"]:
        parts.append("/")
    for p in sig["args"]:
        parts.append(p["name"] + ("=0" if p["default"] else ""))
    if sig["vararg"]:
        parts.append("*" + sig["vararg"])
    elif sig["kwonly"]:
        parts.append("*")
    for p in sig["kwonly"]:
        parts.append(p["name"] + ("=0" if p["default"] else ""))
    if sig["kwarg"]:
        parts.append("**" + sig["kwarg"])
    return f"def callee({', '.join(parts)}): pass"


_SIGCACHE = {}
_DEFAULT = "<default>"


def _compile(sig, all_default=False):
    """A real function with this signature that reports how CPython bound its parameters."""
    parts, named = [], []

    def item(p):
        named.append(p["name"])
        return p["name"] + ("=_D" if (p["default"] or all_default) else "")

    for p in sig["posonly"]:
        parts.append(item(p))
    if sig["posonly"]:
        parts.append("/")
    for p in sig["args"]:
        parts.append(item(p))
    if sig["vararg"]:
        parts.append("*" + sig["vararg"])
    elif sig["kwonly"]:
        parts.append("*")
    for p in sig["kwonly"]:
        parts.append(item(p))
    if sig["kwarg"]:
        parts.append("**" + sig["kwarg"])
    ret = "[" + ", ".join(f"({n!r}, {n})" for n in named) + "]"
    va = sig["vararg"] or "()"
    kw = sig["kwarg"] or "{}"
    src = f"def callee({', '.join(parts)}): return {ret}, list({va}), dict({kw})"
    ns = {"_D": _DEFAULT}
    exec(src, ns)
    return ns["callee"]


def python_bind(sig, call):
    """Ground truth from CPython's own call machinery (a real call of a real function):
    ('ok', explicit pairs, varargGot, kwargGot) | ('err', 'missingRequired' | 'arity')."""
    key = py_source(sig)
    fs = _SIGCACHE.get(key)
    if fs is None:
        fs = _SIGCACHE[key] = (_compile(sig), _compile(sig, all_default=True))
    kwargs = {k: v for k, v in call["kwargs"]}
    try:
        named, va, kw = fs[0](*call["args"], **kwargs)
    except TypeError:
        # "rejected only because a required argument is missing" <=> the same call is accepted once
        # every parameter has a default.
        try:
            fs[1](*call["args"], **kwargs)
            return ("err", "missingRequired")
        except TypeError:
            return ("err", "arity")
    explicit = [[n, v] for n, v in named if v is not _DEFAULT]
    return ("ok", explicit, va, [[k, v] for k, v in kw.items()])


# ------------------------------------------------------------------ oracle

def sig_names(sig):
    clash = [p["name"] for p in sig["posonly"]] + [x for x in (sig["vararg"], sig["kwarg"]) if x]
    return clash


def judge(sig, call, im, spec):
    """Property oracle on the implementation's output. Returns None (holds), ('interp', why) or a
    violation signature string."""
    if "outcome" in im:
        return f"crash:{im['outcome'][1]}"
    diag_kinds = [d["k"] for d in im["diags"]]
    if "ok" in spec:
        exp = sorted(spec["ok"]["expected"])
        len_ = sorted(spec["ok"]["expectedLenient"])
        kw_keys = [k for k, _ in call["kwargs"]]
        if diag_kinds:
            # accepted by Python but diagnosed
            if diag_kinds == ["byPositionAndName"] and sig["kwarg"] and im["swaps"] in (exp, len_):
                names = im["diags"][0].get("names", [])
                if names and all(n in sig_names(sig) and n in kw_keys for n in names):
                    return "accepted-call-diagnosed:keyword-equals-posonly-or-variadic-name-with-kwargs"
            if diag_kinds == ["posonlyShort"] and im["swaps"] == []:
                npos = len(call["args"])
                omitted = sig["posonly"][npos:]
                if omitted and all(p["default"] for p in omitted):
                    return "accepted-call-diagnosed:omitted-posonly-parameter-with-default"
            return "accepted-call-diagnosed:other:" + "+".join(diag_kinds)
        if im["swaps"] == exp:
            return None
        if im["swaps"] == len_:
            return "kwargs-parameter-receiving-nothing-left-unmapped"
        return "accepted-call-misbound"
    else:
        err = spec["err"]
        if err == "missingRequired":
            # [interp] not decidable from rattr's data model (no defaults); claimed reading:
            # no mis-binding. Not counted as a violation.
            return ("interp", "missing-required-silent" if not diag_kinds else "missing-required-diagnosed")
        if not diag_kinds:
            return "rejected-call-silent:" + err
        if "error" not in im["levels"]:
            return "rejected-call-not-error-level:" + err
        return None


# ------------------------------------------------------------------ run

def run(tier, seed, build):
    res = common.Result(PID)
    res.rule = ("exhaustive: all signatures with <= N named parameters (3 named kinds, every legal default "
                "pattern) x {*va} x {**kw} x calls with <= P positionals x ordered keyword tuples of size <= K "
                "over parameter names, variadic names and two foreign names; plus seeded random larger cases. "
                "non-trivial = distinct (signature, call) with >= 1 parameter or argument")
    impl.reset_config()
    rng = random.Random(seed)
    if tier == "quick":
        N, P, K, R = 3, 3, 2, 1500
    else:
        N, P, K, R = 4, 4, 2, 20000
    cases = []
    for sig in signatures(N):
        named = sum(len(sig[k]) for k in ("posonly", "args", "kwonly"))
        for call in calls_for(sig, min(P, named + 1), K):
            cases.append((sig, call))
    n_exh = len(cases)
    for _ in range(R):
        cases.append(random_case(rng))
    res.extra["exhaustive"] = True
    res.extra["exhaustive_cases"] = n_exh
    res.extra["random_cases"] = R

    model = common.Model()
    outs = model.batch([("swaps", {"sig": s, "call": c}) for s, c in cases])

    for (sig, call), mo in zip(cases, outs):
        res.evaluations += 1
        case = {"sig": py_source(sig), "call": call}
        im = run_impl(sig, call)
        if sum(len(sig[k]) for k in ("posonly", "args", "kwonly")) + len(call["args"]) + len(call["kwargs"]) > 0:
            res.nontrivial.add(common.digest(case))
        res.sample({"case": case, "impl": im})
        pb = python_bind(sig, call)
        if "__error__" in mo:
            res.disagreements.append({"case": case, "impl": im, "model": mo})
            spec = None
        else:
            # self-check: Lean spec vs CPython
            sp = mo["spec"]
            if pb[0] == "ok":
                ok = "ok" in sp and sorted(sp["ok"]["explicit"]) == sorted(pb[1]) and sp["ok"]["varargGot"] == pb[2] \
                    and sorted(sp["ok"]["kwargGot"]) == sorted(pb[3])
            else:
                ok = "err" in sp and (sp["err"] == "missingRequired") == (pb[1] == "missingRequired")
            if not ok:
                res.internal_errors.append({"what": "Spec.pyBind disagrees with inspect.Signature.bind",
                                            "case": case, "python": pb, "spec": sp})
                continue
            spec = sp
            # correspondence: model vs implementation
            mm = {"swaps": sorted(mo["swaps"]), "diags": mo["diags"]}
            ii = {"swaps": im.get("swaps"), "diags": im.get("diags")}
            if mm != ii:
                res.disagreements.append({"case": case, "impl": im, "model": mm})
        if spec is None:
            # fall back on CPython itself as the oracle when the model is unavailable
            if pb[0] == "ok":
                exp = pb[1] + ([[sig["vararg"], "@Tuple"]] if sig["vararg"] else [])
                spec = {"ok": {"expected": exp + ([[sig["kwarg"], "@Dict"]] if sig["kwarg"] else []),
                               "expectedLenient": exp + ([[sig["kwarg"], "@Dict"]] if sig["kwarg"] and pb[3] else [])}}
            else:
                spec = {"err": pb[1]}
        v = judge(sig, call, im, spec)
        res.count("python:" + (pb[0] if pb[0] == "ok" else pb[1]))
        if v is None:
            res.count("verdict:holds")
        elif isinstance(v, tuple):
            res.count("verdict:interp:" + v[1])
        else:
            res.count("verdict:" + v.split(":")[0])
            res.violations.append({"signature": v, "case": case, "impl": im, "spec": spec})
    end_to_end(res, rng, 120 if tier == "quick" else 1500)
    source_stage(res, random.Random(seed + 40404), 900 if tier == "quick" else 9000, model)
    # ---- what the property says about the USE of the swaps (outside construct_call_swaps): the substitution
    # applied when inlining (simultaneous, the implicit `self` of an initialiser) and the arity diagnostic
    # reaching the user for every resolved call (callees with an empty IR included), through the real pipeline
    from props import c04e2e
    c04e2e.unbind_stage(res, random.Random(seed + 404), 600 if tier == "quick" else 6000, model)
    c04e2e.module_stage(res, random.Random(seed + 4040), 36 if tier == "quick" else 600, model,
                        cli_sample=8 if tier == "quick" else 40)
    res.rule += ("; substitution stage: (signature, accepted call whose arguments are the callee's own parameter names "
                 "permuted / overlapping, callee IR rooted at the parameters) through construct_call_swaps ; "
                 "unbind_ir_with_call_swaps vs Lean Swaps.construct ; Results.unbindIr vs CPython's binding; module stage: "
                 "generated modules (permuted arguments into def / async / lambda / static-method callees, recursive and "
                 "two-hop permutations, class initialisers stored into names / attributes / subscripts / annotated targets / "
                 "self.member / returned / not stored, callees with an EMPTY IR called legally and illegally) in the target "
                 "file (also vs the Lean pipeline model) and in a followed import, in-process and through the CLI")
    res.rule += ("; source stage: (signature, call AS WRITTEN: explicit part as above with source-expressible values, `**mapping` "
                 "entries before / between / after the explicit keywords (one or two), `*iterable` among the positionals, optional "
                 "implicit self) x (-w all/default/local/none, --strict) through the real CallArguments.from_call ; "
                 "construct_call_swaps ; error.error vs Lean SrcCall.toArgs ; Swaps.construct ; SrcCall.arityShown; module stage "
                 "also: every (variant, warning level) pair, unpackings in the generated calls, the diagnostics judged on what "
                 "stderr SHOWS")
    res.assumptions = [
        "a real call of a real function with that signature is Python's binding rule",
        "[interp] a call Python rejects only for a missing required argument need not be diagnosed (rattr's CallInterface has no defaults)",
        "[interp] *args/**kwargs parameters are expected to be mapped to their stand-ins whenever the parameter exists",
        "module stage: the spelled name of an assignment target / argument follows the README naming rules (`t[0]` is `t[]`); "
        "a diagnostic is attributed to a call by its line; static-method callees only where the call is resolved "
        "(class defined before the caller; not through `from m import K`)",
        "[interp] the one-step unrolling of a recursive call is demanded, the rest of its orbit is allowed (C03's subject)",
        "[interp] a call with `**mapping` / `*iterable` entries is judged on the instance in which every unpacked object is empty "
        "(its explicit part): CPython accepts that instance iff it accepts the explicit part, an arity rejection of the explicit part "
        "is a rejection of every instance; parameters the explicit part leaves open may stay unmapped",
        "[interp] `*iterable`: rattr announces it does not support the call (one error per unpacking, demanded, shown at every "
        "warning level); only the parameters CPython binds in EVERY instance are demanded (positionals written before the first "
        "unpacking, keyword-only parameters); no demand on further arity diagnostics of such a call",
        "errors are shown at every warning level (rattr -h: 'errors and fatal errors are always shown'); under --strict the first "
        "error is a fatal line",
    ]
    return res


def end_to_end(res, rng, n):
    """The same property through the whole pipeline: a generated callee reads `<param>.mark_<param>` for
    every parameter; a caller makes TWO accepted calls to it (same callee, often the same positionals and
    keyword names but different values); after result generation the caller must report
    `<argument>.mark_<param>` for every explicitly bound parameter of BOTH calls."""
    from props import resultslib as rl

    done = 0
    while done < n:
        sig, call1 = random_case(rng)
        if python_bind(sig, call1)[0] != "ok":
            continue
        names = [p["name"] for k in ("posonly", "args", "kwonly") for p in sig[k]]
        # second call: same shape, different argument identifiers
        call2 = {"args": [f"y{i}" for i in range(len(call1["args"]))], "kwargs": [[k, f"w_{k}"] for k, _ in call1["kwargs"]]}
        call1 = {"args": [f"x{i}" for i in range(len(call1["args"]))], "kwargs": [[k, f"v_{k}"] for k, _ in call1["kwargs"]]}
        if rng.random() < 0.5:
            call2["args"] = list(call1["args"])       # identical positionals, only keyword VALUES differ
        skip = False
        for c in (call1, call2):
            kw_keys = [k for k, _ in c["kwargs"]]
            clash = [p["name"] for p in sig["posonly"]] + [x for x in (sig["vararg"], sig["kwarg"]) if x]
            if (sig["kwarg"] and any(k in clash for k in kw_keys)) or len(c["args"]) < len(sig["posonly"]):
                skip = True         # known finding classes E1 / E2: judged by the direct check above
        if skip:
            continue
        done += 1
        res.evaluations += 1
        idents = sorted({a for c in (call1, call2) for a in c["args"]} | {v for c in (call1, call2) for _, v in c["kwargs"]})
        body = "\n".join(f"    {n}.mark_{n}" for n in names) or "    pass"
        hdr = py_source(sig).replace(": pass", ":")

        def spell(c):
            return ", ".join(list(c["args"]) + [f"{k}={v}" for k, v in c["kwargs"]])

        src = f"{hdr}\n{body}\n\ndef caller({', '.join(idents) or ''}):\n    callee({spell(call1)})\n    callee({spell(call2)})\n"
        out = impl.outcome_of(rl.analyse_source, src)
        if out[0] != "ok":
            res.internal_errors.append({"what": "end-to-end program failed to analyse", "source": src})
            continue
        im = rl.run_impl(out[1])
        if im["outcome"] != "ok":
            res.violations.append({"signature": "end-to-end:result-generation-crash", "case": {"source": src}})
            continue
        snap = rl.snapshot(out[1])
        caller_key = next(k for k, f in enumerate(snap["fns"]) if f["name"] == "caller")
        gets = set(im["rounds"][0]["results"][caller_key]["gets"])
        missing = []
        for c in (call1, call2):
            pb = python_bind(sig, c)
            for param, arg in pb[1]:
                if f"{arg}.mark_{param}" not in gets:
                    missing.append(f"{arg}.mark_{param}")
        if missing:
            res.count("verdict:end-to-end:explicit-argument-not-bound")
            res.violations.append({"signature": "end-to-end:explicit-argument-not-bound-in-caller-results",
                                   "case": {"source": src}, "missing": missing, "caller_gets": sorted(gets)})
        else:
            res.count("end-to-end:holds")


# ------------------------------------------------------------------ the call AS WRITTEN, the diagnostic AS SHOWN

SRC_CONFIGS = [("all", False), ("default", False), ("local", False), ("none", False), ("none", True), ("default", True)]


def _src_case(rng):
    """(signature, call as written): the explicit part from `random_case` with source-expressible values,
    `**mapping` unpackings at any position among the keywords, `*iterable` among the positionals, an optional
    implicit `self` (the initialiser form of `from_call`)."""
    from props import c04e2e as e2

    sig, call = random_case(rng)
    vals = ["x%d", "x%d", "q.attr%d", "t[%d].f", "o.p.q%d"]
    call = {"args": [rng.choice(vals) % i for i in range(len(call["args"]))],
            "kwargs": [[k, rng.choice(["v_" + k, "w." + k, "d['" + k + "']"])] for k, _ in call["kwargs"]]}
    call = e2.decorate(rng, call, 0.65, 0.2)
    self_ = rng.choice([None, None, None, "inst", "o.field"])
    return sig, call, self_


def _run_src(sig, call, self_, strict):
    """the real `CallArguments.from_call` on the parsed text, then the real `construct_call_swaps`"""
    import ast
    from props import c04e2e as e2

    text = f"callee({e2.call_text(call)})"
    node = ast.parse(text).body[0].value
    s = with_self_sig(sig) if self_ else sig
    iface = CallInterface(posonlyargs=[p["name"] for p in s["posonly"]], args=[p["name"] for p in s["args"]],
                          vararg=s["vararg"], kwonlyargs=[p["name"] for p in s["kwonly"]], kwarg=s["kwarg"])
    with enter_file(impl.Path("target.py")):
        func = Func(name="callee", interface=iface)
        with impl.Tap() as tap0:
            # the recording happens in the file the call is written in; under --strict its own error is fatal
            rec_out = impl.outcome_of(CallArguments.from_call, node, self=self_)
    if rec_out[0] != "ok":
        return {"text": text, "recording": list(rec_out[:2]), "recording_events": tap0.events,
                "recording_printed": [e["level"] for e in tap0.printed]}
    with enter_file(impl.Path("target.py")):
        c = Call(name="callee", args=rec_out[1])
    with impl.Tap() as tap:
        out = impl.outcome_of(construct_call_swaps, func, c)
    r = {"text": text, "recorded": {"args": list(rec_out[1].args), "kwargs": [list(kv) for kv in rec_out[1].kwargs.items()]},
         "recording_events": tap0.events, "recording_printed": [e["level"] for e in tap0.printed],
         "diags": [classify_diag(e) for e in tap.events], "levels": sorted({e["level"] for e in tap.events}),
         "printed": [e["level"] for e in tap.printed if "call to" in e["message"]],
         "exited": out[0] == "fatal"}
    if out[0] == "ok":
        r["swaps"] = sorted([k, v] for k, v in out[1].items())
    elif out[0] != "fatal" or not strict:
        r["outcome"] = list(out[:2]) + [str(out[2]) if len(out) > 2 else ""]
    return r


def with_self_sig(sig):
    from props import c04e2e as e2
    return e2.with_self(sig, "self")


def source_stage(res, rng, n, model):
    """`CallArguments.from_call` (the call as written -> the recorded call) ; `construct_call_swaps` ; `error.error`
    (the diagnostic -> stderr) under every warning level and --strict: real code vs the Lean model
    (`SrcCall.toArgs`, `Swaps.construct`, `SrcCall.arityShown`), and the oracles: the recorded call is the explicit
    part of the written one; CPython's binding of the explicit part; an error line is PRINTED for a rejected call."""
    from props import c04e2e as e2

    cases = [_src_case(rng) for _ in range(n)]
    # a fixed family first: one signature, `**m` before / between / after the explicit keywords, twice, and `*it`
    fam_sig = {"posonly": [{"name": "a", "default": False}], "args": [{"name": "b", "default": True}], "vararg": None,
               "kwonly": [{"name": "c", "default": True}, {"name": "d", "default": True}], "kwarg": "kw"}
    fam = []
    for kws in ([], [["c", "v_c"]], [["c", "v_c"], ["d", "v_d"]], [["d", "v_d"], ["zz", "v_zz"], ["c", "v_c"]]):
        for idxs in [[i] for i in range(len(kws) + 1)] + [[0, len(kws)]]:
            fam.append((fam_sig, {"args": ["x0"], "kwargs": kws, "dstar": [[i, e] for i, e in zip(idxs, ["opts", "o.extra"])]}, None))
    for i in (0, 1, 2):
        fam.append((fam_sig, {"args": ["x0", "x1"], "kwargs": [["c", "v_c"]], "star": [[i, "xs"]]}, None))
    # rejected calls (too many positionals / unexpected keyword / twice bound) with an unpacking next to the culprit
    nokw = dict(fam_sig, kwarg=None)
    fam += [(nokw, {"args": ["x0", "x1", "x2"], "kwargs": [], "dstar": [[0, "opts"]]}, None),
            (nokw, {"args": ["x0"], "kwargs": [["zz", "v"]], "dstar": [[0, "opts"]]}, None),
            (nokw, {"args": ["x0", "x1"], "kwargs": [["b", "v"]], "dstar": [[1, "opts"]]}, "inst")]
    cases = fam + cases
    reqs, meta = [], []
    for k, (sig, call, self_) in enumerate(cases):
        warn, strict = SRC_CONFIGS[k % len(SRC_CONFIGS)]
        star = call.get("star") or []
        pos = []
        for i, a in enumerate(list(call["args"]) + [None]):
            pos += [[True, "*" + e2.spelled(e)] for j, e in star if j == i]
            if a is not None:
                pos.append([False, e2.spelled(a)])
        kws = []
        for i, kv in enumerate(list(call["kwargs"]) + [None]):
            kws += [[None, e2.spelled(e)] for j, e in (call.get("dstar") or []) if j == i]
            if kv is not None:
                kws.append([kv[0], e2.spelled(kv[1])])
        s = with_self_sig(sig) if self_ else sig
        explicit = {"args": ([self_] if self_ else []) + [e2.spelled(a) for a in call["args"]],
                    "kwargs": [[k_, e2.spelled(v)] for k_, v in call["kwargs"]]}
        reqs.append(("swaps", {"sig": s, "src": {"pos": pos, "kws": kws, "self": self_}, "cfg": {"warn": warn, "strict": strict}}))
        reqs.append(("swaps", {"sig": s, "call": explicit}))
        meta.append((s, explicit, pos, warn, strict))
    outs = model.batch(reqs)
    by_cfg = {}
    for k in range(len(cases)):
        by_cfg.setdefault(SRC_CONFIGS[k % len(SRC_CONFIGS)], []).append(k)
    ims = {}
    for (warn, strict), ks in by_cfg.items():
        impl.reset_config(_warning_level=warn, is_strict=strict)
        for k in ks:
            sig, call, self_ = cases[k]
            ims[k] = _run_src(sig, call, self_, strict)
    impl.reset_config()
    for k, (sig, call, self_) in enumerate(cases):
        s, explicit, pos, warn, strict = meta[k]
        mo, me = outs[2 * k], outs[2 * k + 1]
        im = ims[k]
        res.evaluations += 1
        case = {"stage": "source", "sig": py_source(s), "call_as_written": im["text"], "implicit_self": self_,
                "warning_level": warn, "strict": strict}
        res.nontrivial.add(common.digest(case))
        for u in e2.unpack_features(call) or ["no-unpacking"]:
            res.count("source:" + u)
        res.count(f"source:config:-w {warn}" + (" --strict" if strict else ""))
        starred = bool(call.get("star"))
        pb = python_bind(s, explicit)
        if "__error__" in mo or "__error__" in me:
            res.disagreements.append({"case": case, "impl": im, "model": mo if "__error__" in mo else me})
            continue
        sp = me["spec"]
        if pb[0] == "ok":
            ok = "ok" in sp and sorted(sp["ok"]["explicit"]) == sorted(pb[1]) and sp["ok"]["varargGot"] == pb[2] \
                and sorted(sp["ok"]["kwargGot"]) == sorted(pb[3])
        else:
            ok = "err" in sp and (sp["err"] == "missingRequired") == (pb[1] == "missingRequired")
        if not ok:
            res.internal_errors.append({"what": "Spec.pyBind disagrees with CPython (source stage)", "case": case, "python": pb, "spec": sp})
            continue
        if "recording" in im:
            # --strict and `*iterable`: the recording's own error is fatal — shown, nothing is bound
            if not (strict and starred and im["recording"][0] == "fatal" and "fatal" in im["recording_printed"]):
                res.violations.append({"signature": "source-call:recording-failed:" + str(im["recording"][1]), "case": case, "impl": im})
            else:
                res.count("source:verdict:strict-starred-fatal-shown")
            continue
        # ---- correspondence: recorded call, swaps, diagnostics, what is printed
        mm = {"recorded": mo["recorded"], "starredErrors": mo["starredErrors"], "diags": mo["diags"], "printed": mo["printed"], "exited": mo["exited"]}
        ii = {"recorded": im["recorded"], "starredErrors": len([e for e in im["recording_events"] if e["level"] == "error"]),
              "diags": im["diags"][:1] if (strict and im["exited"]) else im["diags"], "printed": im["printed"], "exited": im["exited"]}
        if strict and mo["exited"]:
            mm["diags"] = mm["diags"][:1]           # the first error is fatal under --strict
        if not im["exited"]:
            mm["swaps"], ii["swaps"] = sorted(mo["swaps"]), im.get("swaps")
        if mm != ii:
            res.disagreements.append({"case": case, "impl": ii, "model": mm})
        if "outcome" in im:
            res.violations.append({"signature": f"source-call:crash:{im['outcome'][1]}", "case": case, "impl": im})
            continue
        # ---- oracle 1: the recorded call IS the written call (unpackings looked through, nothing else dropped)
        want_rec = {"args": ([self_] if self_ else []) + [x for _, x in pos], "kwargs": explicit["kwargs"]}
        if im["recorded"] != want_rec:
            lost = [k_ for k_, _ in explicit["kwargs"] if k_ not in dict(map(tuple, im["recorded"]["kwargs"]))]
            d_idx = [j for j, _ in call.get("dstar") or []]
            after = [k_ for i, (k_, _) in enumerate(explicit["kwargs"]) if k_ in lost and d_idx and min(d_idx) <= i]
            what = ("explicit-keyword-written-after-a-dict-unpacking-lost" if lost and after == lost else
                    "explicit-keyword-lost" if lost else
                    "positional-arguments-differ" if im["recorded"]["args"] != want_rec["args"] else "keywords-differ")
            res.count("source:verdict:recorded-call-differs")
            res.violations.append({"signature": "source-call:recorded-call-differs-from-written-call:" + what, "case": case,
                                   "expected": want_rec, "recorded": im["recorded"]})
            continue
        if starred:
            # [interp] `*iterable`: rattr announces the call as unsupported (an error per unpacking, checked by the
            # correspondence above and demanded here); CPython fixes only the positionals before the unpacking
            if ii["starredErrors"] < 1 or "error" not in im["recording_printed"]:
                res.violations.append({"signature": f"source-call:iterable-unpacking-not-announced:warning-level-{warn}", "case": case, "impl": im})
            elif not im["exited"] and pb[0] == "ok":
                first = min(j for j, _ in call["star"]) + (1 if self_ else 0)
                names = [p["name"] for p in s["posonly"] + s["args"]][:first]
                sw = dict(map(tuple, im["swaps"]))
                bad = [n_ for n_, a in zip(names, explicit["args"]) if im["swaps"] and sw.get(n_) != a]
                if bad and im["diags"] and im["diags"][0]["k"] == "posonlyShort":
                    bad = []
                if bad:
                    res.violations.append({"signature": "source-call:positional-before-iterable-unpacking-misbound", "case": case, "impl": im})
                else:
                    res.count("source:verdict:starred-holds")
            continue
        # ---- oracle 2: CPython's binding of the explicit part, on the real swaps (only when not cut short by --strict)
        if not im["exited"]:
            v = judge(s, explicit, {"swaps": im["swaps"], "diags": im["diags"], "levels": im["levels"]}, sp)
            if isinstance(v, str):
                res.count("source:verdict:" + v.split(":")[0])
                res.violations.append({"signature": v, "case": case, "impl": im, "spec": sp,
                                       "unpackings": e2.unpack_features(call)})
                continue
        # ---- oracle 3: a rejected call puts an error (fatal under --strict) line on stderr at EVERY warning level
        if pb[0] == "err" and pb[1] == "arity":
            if not [l for l in im["printed"] if l in ("error", "fatal")]:
                res.count("source:verdict:rejected-call-diagnostic-not-shown")
                res.violations.append({"signature": f"rejected-call-diagnostic-raised-but-not-shown:warning-level-{warn}" + (":strict" if strict else ""),
                                       "case": case, "impl": im})
                continue
        res.count("source:verdict:holds")


def sig_from_source(src):
    """the signature dict of `def callee(...): pass` (inverse of `py_source`)"""
    import ast
    a = ast.parse(src).body[0].args
    pos = a.posonlyargs + a.args
    dpos = [i >= len(pos) - len(a.defaults) for i in range(len(pos))]
    return {"posonly": [{"name": x.arg, "default": dpos[i]} for i, x in enumerate(a.posonlyargs)],
            "args": [{"name": x.arg, "default": dpos[len(a.posonlyargs) + i]} for i, x in enumerate(a.args)],
            "vararg": a.vararg.arg if a.vararg else None,
            "kwonly": [{"name": x.arg, "default": d is not None} for x, d in zip(a.kwonlyargs, a.kw_defaults)],
            "kwarg": a.kwarg.arg if a.kwarg else None}


def replay_source(j):
    """re-run a stored source-stage input against the current tree"""
    import ast
    import json
    case = j["case"]
    sig = sig_from_source(case["sig"])
    node = ast.parse(case["call_as_written"]).body[0].value
    impl.reset_config(_warning_level=case["warning_level"], is_strict=case["strict"])
    iface = CallInterface(posonlyargs=[p["name"] for p in sig["posonly"]], args=[p["name"] for p in sig["args"]],
                          vararg=sig["vararg"], kwonlyargs=[p["name"] for p in sig["kwonly"]], kwarg=sig["kwarg"])
    print("signature:", j["signature"])
    print(case["sig"], " <- ", case["call_as_written"], "| implicit self:", case["implicit_self"],
          "| -w", case["warning_level"], "--strict" if case["strict"] else "")
    with enter_file(impl.Path("target.py")):
        func = Func(name="callee", interface=iface)
        with impl.Tap() as t0:
            rec_out = impl.outcome_of(CallArguments.from_call, node, self=case["implicit_self"])
    if rec_out[0] != "ok":
        print(" recording:", rec_out[:2], [e["level"] for e in t0.printed])
        return 0
    print(" recorded call now: args", list(rec_out[1].args), "kwargs", dict(rec_out[1].kwargs))
    if "expected" in j:
        print(" expected         : args", j["expected"]["args"], "kwargs", dict(map(tuple, j["expected"]["kwargs"])))
    with enter_file(impl.Path("target.py")):
        c = Call(name="callee", args=rec_out[1])
    with impl.Tap() as tap:
        out = impl.outcome_of(construct_call_swaps, func, c)
    print(" construct_call_swaps now:", out[:2])
    print(" diagnostics raised now  :", [(e["level"], e["message"]) for e in tap.events])
    print(" lines on stderr now     :", [(e["level"], e["message"]) for e in tap.printed])
    explicit = {"args": list(rec_out[1].args), "kwargs": [list(kv) for kv in rec_out[1].kwargs.items()]}
    print(" CPython on the recorded call:", json.dumps(python_bind(sig, explicit)))
    impl.reset_config()
    return 0


def replay(path):
    import json
    j = json.load(open(path))
    if isinstance(j.get("case"), dict) and j["case"].get("stage") == "source":
        return replay_source(j)
    if isinstance(j.get("case"), dict) and j["case"].get("stage") == "module":
        from props import c04e2e
        return c04e2e.replay_case(j)
    print(json.dumps(j, indent=1))
    return 0

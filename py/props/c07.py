"""C07 — rattr ends with results or its own diagnostic, never a traceback or hang.

Oracle (applied to the REAL command line tool, one subprocess per case): the outcome class must be
`exit0` (well-formed output) or `exit1+diagnostic`; `traceback(<ExcType>, <innermost rattr function>)`
and `timeout` are violations with signature `unhandled:<ExcType>:<function>` / `timeout`.

Correspondence (Tie B): every generated FUNCTION is analysed in-process by the real
`FunctionAnalyser` and by the Lean model (outcome class incl. exception class), and the Lean predicate
`NoCrashShapeFn` (driver op `no_crash_shape`) must be false on every body whose real analysis raised.
"""
from __future__ import annotations

import ast
import json
import os
import random
import re
import shutil
import signal
import subprocess
import sys
import tempfile
import threading
import time
import warnings
from concurrent.futures import ThreadPoolExecutor
from pathlib import Path

import common
from props import c07blocks, c07enc, c07gen, c07shapes

PID = "C07"
TABLES = ["C07", "C17", "RC"]
TIMEOUT_S = 30
WORKERS = 16
ANSI = re.compile(r"\x1b\[[0-9;]*m")
FRAME = re.compile(r'^\s*File "([^"]*?)", line (\d+), in (.+)$')


# ------------------------------------------------------------------------------------ CLI runner

def materialise(root: Path, case):
    """Project on disk. A file's content is a str, {"latin1": ..} / {"hex": ..} (raw bytes), {"symlink": <link text>}
    (file or directory link, created after the regular files, never resolved here) or {"hardlink": <path relative to the
    entry's directory>} (a second directory entry for the same inode)."""
    d = Path(tempfile.mkdtemp(prefix="p", dir=root))
    later = []
    for rel, content in case["files"].items():
        p = d / rel
        if isinstance(content, dict) and ("symlink" in content or "hardlink" in content):
            later.append((p, content))
            continue
        p.parent.mkdir(parents=True, exist_ok=True)
        if isinstance(content, dict) and "latin1" in content:
            p.write_bytes(content["latin1"].encode("latin-1"))
        elif isinstance(content, dict) and "hex" in content:
            p.write_bytes(bytes.fromhex(content["hex"]))
        else:
            p.write_bytes(content.encode("utf-8"))          # bytes: "\r" must reach the file as written
    for p, content in later:
        p.parent.mkdir(parents=True, exist_ok=True)
        if "symlink" in content:
            os.symlink(content["symlink"], p)
        else:
            os.link(p.parent / content["hardlink"], p)
    return d


def run_cli(root: Path, case):
    """One judged run of the real command line. Optional case keys (round 3): `cwd` (directory below the project root to
    run in; the module search path starts there), `pre_runs` (the same command is run that many times first: a cache
    file written by run 1 is found by run 2), `{ABS}` in the target / an option value (absolute path of the project root).
    Round 4: `env` (variables set for the child; value None = unset), `stdout_encoding` (stdout must DECODE in it: an
    undecodable stdout is not well-formed output), `cache_check` (path of the cache file: after an exit-0 run it must be JSON)."""
    d = materialise(root, case)
    env = dict(os.environ, PYTHONHASHSEED="0", HOME=str(d / ".home"), XDG_CACHE_HOME=str(d / ".home" / ".cache"))
    env.pop("PYTHONPATH", None)
    if os.environ.get("PYTHONPATH"):
        env["PYTHONPATH"] = os.environ["PYTHONPATH"]
    for k, v in (case.get("env") or {}).items():
        if v is None:
            env.pop(k, None)
        else:
            env[k] = v
    (d / ".home").mkdir(exist_ok=True)
    sub = lambda x: x.replace("{ABS}", str(d))  # noqa: E731
    opts, target = [sub(o) for o in case["opts"]], sub(case["target"])
    cmd = [sys.executable, "-m", "rattr", *opts, target]
    if case.get("culprit_wrapper"):
        cmd = [sys.executable, "-c", CULPRIT_WRAPPER, *opts, target]
    if case.get("fatal_wrapper"):
        cmd = [sys.executable, "-c", FATAL_WRAPPER, *opts, target]
    if case.get("crash_wrapper"):
        cmd = [sys.executable, "-c", c07shapes.CRASH_WRAPPER, *opts, target]
    cwd = str(d / case["cwd"]) if case.get("cwd") else str(d)
    t0 = time.time()
    for _ in range(int(case.get("pre_runs") or 0)):
        try:
            subprocess.run([sys.executable, "-m", "rattr", *opts, target], cwd=cwd, stdout=subprocess.DEVNULL, stderr=subprocess.DEVNULL,
                           env=env, timeout=TIMEOUT_S)
        except subprocess.TimeoutExpired:
            pass
    p = subprocess.Popen(cmd, cwd=cwd, stdout=subprocess.PIPE, stderr=subprocess.PIPE, env=env)
    try:
        o, e = p.communicate(timeout=TIMEOUT_S)
        rc, to = p.returncode, False
    except subprocess.TimeoutExpired:
        # ask the interpreter where it is stuck (KeyboardInterrupt traceback), then make sure it is gone
        to, rc = True, None
        p.send_signal(signal.SIGINT)
        try:
            o, e = p.communicate(timeout=5)
        except subprocess.TimeoutExpired:
            p.kill()
            o, e = p.communicate()
    out, err = o.decode("utf-8", "replace"), e.decode("utf-8", "replace")
    if case.get("stdout_encoding"):
        try:
            out = o.decode(case["stdout_encoding"], "strict")
        except UnicodeDecodeError as ex:
            err += f"\nC07-STDOUT-UNDECODABLE {case['stdout_encoding']}: {ex}\n"
    if case.get("cache_check") and rc == 0:
        cf = Path(cwd) / case["cache_check"]
        try:
            json.loads(cf.read_bytes())
        except FileNotFoundError:
            pass                                    # (a cache hit / `-o` mode that writes none: nothing to check)
        except Exception as ex:  # noqa: BLE001
            err += f"\nC07-CACHE-MALFORMED {type(ex).__name__}: {str(ex)[:120]}\n"
    dt = time.time() - t0
    shutil.rmtree(d, ignore_errors=True)
    return rc, out, err, to, dt


CONFIRM_WALL_S = 240
CONFIRM_CPU_S = 60
MAX_CONFIRMED_TIMEOUTS = 2


def _cpu_seconds(pid):
    try:
        f = Path(f"/proc/{pid}/stat").read_text().rsplit(")", 1)[1].split()
        return (int(f[11]) + int(f[12])) / os.sysconf("SC_CLK_TCK")        # utime + stime
    except Exception:
        return None


def confirm_timeout(root: Path, case):
    """A first-pass timeout is only a suspicion (the machine may be loaded). Re-run the case ALONE and call it a
    hang only if the child burnt >= CONFIRM_CPU_S seconds of its own CPU time, or >= CONFIRM_WALL_S seconds of
    wall time passed, without finishing. -> ("finished", rc, out, err) | ("confirmed", cpu_s, wall_s, err)"""
    d = materialise(root, case)
    env = dict(os.environ, PYTHONHASHSEED="0", HOME=str(d / ".home"), XDG_CACHE_HOME=str(d / ".home" / ".cache"))
    (d / ".home").mkdir(exist_ok=True)
    sub = lambda x: x.replace("{ABS}", str(d))  # noqa: E731
    p = subprocess.Popen([sys.executable, "-m", "rattr", *[sub(o) for o in case["opts"]], sub(case["target"])],
                         cwd=str(d / case["cwd"]) if case.get("cwd") else str(d), stdout=subprocess.PIPE, stderr=subprocess.PIPE, env=env)
    t0 = time.time()
    cpu = 0.0
    try:
        while True:
            try:
                o, e = p.communicate(timeout=0.5)
                return ("finished", p.returncode, o.decode("utf-8", "replace"), e.decode("utf-8", "replace"))
            except subprocess.TimeoutExpired:
                pass
            cpu = _cpu_seconds(p.pid) or cpu
            wall = time.time() - t0
            if cpu >= CONFIRM_CPU_S or wall >= CONFIRM_WALL_S:
                p.send_signal(signal.SIGINT)
                try:
                    o, e = p.communicate(timeout=10)
                except subprocess.TimeoutExpired:
                    p.kill()
                    o, e = p.communicate()
                return ("confirmed", round(cpu, 1), round(wall, 1), e.decode("utf-8", "replace"))
    finally:
        if p.poll() is None:
            p.kill()
        shutil.rmtree(d, ignore_errors=True)


# Second, diagnostic run for one signature family only (the `assert module_name == confirmed_module_name`
# of the root context builder): the same command line through runpy with an excepthook that prints the
# locals of the failing frame, so the signature can say WHICH relative import tripped the assert.
CULPRIT_WRAPPER = r"""
import sys, json, runpy
def hook(t, e, tb):
    last = tb
    while last.tb_next:
        last = last.tb_next
    loc = last.tb_frame.f_locals
    node = loc.get("node")
    info = {"module_name": loc.get("module_name"), "confirmed": loc.get("confirmed_module_name"),
            "level": getattr(node, "level", None), "module": getattr(node, "module", None)}
    try:
        from rattr.config import Config
        info["file"] = str(Config().state.current_file)
    except Exception:
        info["file"] = None
    sys.stderr.write("C07-CULPRIT " + json.dumps(info) + "\n")
    sys.__excepthook__(t, e, tb)
sys.excepthook = hook
sys.argv = ["rattr"] + sys.argv[1:]
runpy.run_module("rattr", run_name="__main__", alter_sys=True)
"""

ASSERT_SIGS = ("unhandled:AssertionError:RootContextBuilder.visit_relative_import",
               "unhandled:AssertionError:RootContextBuilder.visit_starred_relative_import")


def relative_import_class(root: Path, case):
    """Class of the relative import that tripped the assert, judged by Python's own rule
    (importlib.util.resolve_name on the importing file's package):
      escapes-top-level : Python itself refuses it ("beyond top-level package" / no parent package)
      module-missing    : rattr derived the name Python would, the module just does not exist
      derived-wrongly   : rattr derived another name than Python
      outside-project   : the importing file is not part of the project (site-packages / stdlib)"""
    import importlib.util

    rc, out, err, to, dt = run_cli(root, dict(case, culprit_wrapper=True))
    m = re.search(r"^C07-CULPRIT (\{.*\})$", err, re.M)
    if not m:
        return "unclassified"
    info = json.loads(m.group(1))
    f = info.get("file") or ""
    rel = Path(f)
    if rel.is_absolute():
        # the diagnostic run used its own temp dir: keep the part below it
        parts = rel.parts
        idx = [i for i, x in enumerate(parts) if x.startswith("p") and (Path(*parts[: i + 1]).parent == root)]
        if not idx:
            return "outside-project"
        rel = Path(*parts[idx[0] + 1:])
    if "site-packages" in rel.parts or rel.parts[:1] in (("usr",), ("root",)):
        return "outside-project"
    package = ".".join(rel.parts[:-1])
    name = "." * int(info.get("level") or 0) + (info.get("module") or "")
    try:
        resolved = importlib.util.resolve_name(name, package)
    except (ImportError, ValueError):
        return "escapes-top-level"
    return "module-missing" if resolved == info.get("module_name") else "derived-wrongly"


_QUAL_CACHE = {}


def qualname_at(path: str, line: int, fallback: str) -> str:
    """Qualified name of the innermost def/class enclosing `line` of the rattr source file `path`."""
    try:
        if path not in _QUAL_CACHE:
            tree = ast.parse(Path(path).read_text())
            spans = []

            def walk(node, qual):
                for ch in ast.iter_child_nodes(node):
                    if isinstance(ch, (ast.FunctionDef, ast.AsyncFunctionDef, ast.ClassDef)):
                        q = qual + [ch.name]
                        start = min([ch.lineno] + [d.lineno for d in ch.decorator_list])
                        spans.append((start, ch.end_lineno, ".".join(q)))
                        walk(ch, q)
                    else:
                        walk(ch, qual)

            walk(tree, [])
            _QUAL_CACHE[path] = spans
        best = None
        for a, b, q in _QUAL_CACHE[path]:
            if a <= line <= b and (best is None or (b - a) < best[0]):
                best = (b - a, q)
        if best:
            return best[1]
    except Exception:
        pass
    return fallback


def parse_traceback(err: str):
    """(exception class name, innermost rattr function qualname) of the LAST traceback in stderr."""
    lines = err.splitlines()
    if any("Exception Group Traceback" in l for l in lines):
        # outermost exception group (cattrs): its own frames and exception line, prefix "  | " removed
        i0 = next(i for i, l in enumerate(lines) if "Exception Group Traceback" in l)
        grp = []
        for l in lines[i0:]:
            if "+-+--" in l:
                break
            grp.append(re.sub(r"^\s*[|+]\s?", "", l))
        lines = ["Traceback (most recent call last):"] + grp[1:]
    starts = [i for i, l in enumerate(lines) if l.startswith("Traceback (most recent call last)")]
    block = lines[starts[-1]:] if starts else lines
    frames = []
    for l in block:
        m = FRAME.match(l)
        if m and "/rattr/" in m.group(1) and "site-packages" not in m.group(1).split("/rattr/")[0][-20:]:
            frames.append((m.group(1), int(m.group(2)), m.group(3).strip()))
    exc = "?"
    for l in reversed(block):
        m = re.match(r"^([A-Za-z_][\w.]*)(?::|$)", l)
        if m and not l.startswith(" "):
            exc = m.group(1).split(".")[-1]
            break
    if not frames:
        return exc, "<no-rattr-frame>"
    quals = [qualname_at(*f) for f in frames]
    if exc == "RecursionError":
        # the innermost frame is wherever the stack happened to overflow: name the function that recurses
        counts = {}
        for q in quals:
            counts[q] = counts.get(q, 0) + 1
        return exc, sorted(counts.items(), key=lambda kv: (-kv[1], kv[0]))[0][0]
    inner = quals[-1]
    if inner in NAMING_SITES:
        exc = "Unnameable"      # one raise statement, the class only says which node kind was met
        # who asked for the name: first caller outside the naming machinery
        via = next((q for q in reversed(quals) if q.split(".")[-1] not in NAMING_MACHINERY), None)
        if via is not None and not via.split(".")[-1].startswith("visit_"):
            inner = f"{inner}<{via}"
    # anchor: the innermost visitor / plugin hook on the stack, else the pipeline stage called from main
    anchor = None
    for q in reversed(quals):
        last = q.split(".")[-1]
        if last.startswith("visit_") or last in ("on_call", "on_def", "assert_holds"):
            anchor = q
            break
    if anchor is None:
        stage = [q for q in quals if q.split(".")[-1] not in ("<module>", "entry_point", "main", "_init_rattr_config")]
        anchor = stage[0] if stage else quals[0]
    return exc, inner if anchor == inner else f"{inner}@{anchor}"


NAMING_SITES = {"names_of", "get_basename_fullname_pair"}
NAMING_MACHINERY = {"names_of", "__ast_compound_name", "__ast_call_name", "basename_of", "fullname_of", "get_basename_fullname_pair",
                    "get_basename", "get_fullname", "<genexpr>", "<listcomp>", "<lambda>"}


def stdout_ok(out: str, opts):
    """Is stdout what the selected output kind promises?"""
    kind = "results"
    for i, o in enumerate(opts):
        if o in ("-o", "--stdout") and i + 1 < len(opts):
            kind = opts[i + 1]
    if kind == "silent":
        return out.strip() == "", "silent"
    if kind == "stats":
        return ("Time (Seconds)" in out and "Total badness" in out), "stats"
    try:
        json.loads(out)
        return True, kind
    except Exception:
        return False, kind


def classify(rc, out, err, timed_out, opts):
    """-> (class, signature or None, detail)"""
    clean = ANSI.sub("", err)
    if timed_out:
        # SIGINT was sent at the deadline: the KeyboardInterrupt traceback says where rattr was spinning
        if "Traceback (most recent call last)" in clean:
            _, fn = parse_traceback(clean)
            return "timeout", f"timeout:{fn}", clean[-1500:]
        return "timeout", "timeout", clean[-600:]
    if "Traceback (most recent call last)" in clean:
        exc, fn = parse_traceback(clean)
        if exc == "UnicodeEncodeError":
            # which character the stream refused (one character: named; several: their count is input-dependent)
            m = re.search(r"can't encode character '([^']+)' in position", clean)
            fn += f"[{m.group(1)}]" if m else "[several-characters]"
        return "traceback", f"unhandled:{exc}:{fn}", clean[-1500:]
    nonempty = [l for l in clean.splitlines() if l.strip()]
    if rc == 0 and "C07-STDOUT-UNDECODABLE" in clean:
        return "other", "other:exit0-stdout-not-in-the-stream-encoding", clean[-400:]
    if rc == 0 and "C07-CACHE-MALFORMED" in clean:
        return "other", "other:exit0-cache-file-not-json", clean[-400:]
    if rc == 0:
        ok, kind = stdout_ok(out, opts)
        if ok:
            return "exit0:" + kind, None, ""
        if out.strip() == "" and "-C" in opts and any("cache is up-to-date" in l for l in nonempty):
            return "exit0:cache-hit", None, ""
        if out.strip() == "" and "-C" in opts and "-r" not in opts:
            return "exit0:cache-hit", None, ""     # the info line is filtered at lower warning levels
        return "other", f"other:exit0-malformed-{kind}-output", out[-400:]
    if rc == 1:
        # (a diagnostic raised while parsing `rattr_results` is re-printed on stdout by rattr itself)
        both = nonempty + [l for l in ANSI.sub("", out).splitlines() if l.strip()]
        diag = [l for l in both if l.startswith("fatal:") or l.startswith("error:")]
        if diag:
            return "exit1:diagnostic", None, diag[-1][:200]
        return "other", "other:exit1-without-diagnostic", clean[-400:]
    return "other", f"other:exit{rc}", clean[-400:]


# ------------------------------------------------------------------------------------ curated corpus

F1 = "def f(a):\n    return a.x\n"
ANN = "from rattr.analyser.annotations import rattr_results, rattr_ignore\n"


def corpus():
    """Every DESIGN §7 K-row witness (+ rows found by this check), each a minimal project."""
    C = []

    def add(row, files, opts=(), target="target.py"):
        C.append({"row": row, "files": files, "opts": list(opts), "target": target})

    sub = {"a/__init__.py": "", "a/b.py": "def f(x):\n    return x.y\n"}
    add("K1", {"target.py": "from a.b import *\n", **sub})
    add("K2-subscript", {"target.py": "d = [1]\n@d[0]\ndef f(a):\n    return a.x\n"})
    add("K2-binop", {"target.py": "p = q = 1\n@(p + q)\ndef f(a):\n    return a.x\n"})
    add("K2-class", {"target.py": "d = [1]\n@d[0]\nclass C:\n    pass\n"})
    add("K2-method", {"target.py": "d = [1]\nclass C:\n    @d[0]\n    def m(self):\n        pass\n"})
    add("K3", {"target.py": "def f(xs):\n    return sorted(xs, key=lambda a, b=1: a.k)\n"})
    add("K4-store", {"target.py": "def f(a, b):\n    (a + b).c = 1\n"})
    add("K4-del", {"target.py": "def f(a, b):\n    del (a + b).c\n"})
    add("K4-for", {"target.py": "def f(a, b):\n    for (a + 1).x in b:\n        pass\n"})
    add("K4-with", {"target.py": "def f(a, b, x):\n    with x as (a + b).c:\n        pass\n"})
    add("K4-class-body", {"target.py": "p = q = 1\nclass C:\n    (p + q).c = 1\n"})
    add("K4-module", {"target.py": "p = q = 1\n(p + q).c = 1\n"})
    add("K5", {"target.py": "def f(a, b):\n    return getattr(a + b, 'c')\n"})
    add("K7", {"target.py": ANN + "@rattr_results(calls=[('f', (['a'], ['b']))])\ndef g(a):\n    pass\n"})
    add("K8-f2-isort", {"target.py": "import isort\n"}, ["-f", "2"])
    add("K8-f3-json", {"target.py": "import json\n"}, ["-f", "3"])
    add("K9", {"target.py": "import pkg\ndef g(a):\n    pkg.sub.f(a)\n", "pkg/__init__.py": "", "pkg/sub.py": "def f(x):\n    return x.y\n"})
    add("K10", {"target.py": "from nonexistent import f\ndef g(a):\n    f(a)\n"}, ["-F", "nonexistent.*"])
    add("K20", {"target.py": {"latin1": "# -*- coding: latin-1 -*-\ndef f(a):\n    return a.x  # \xe9\n"}})
    add("reexport-cycle", {"target.py": "from a import f\ndef g(x):\n    return f(x)\n", "a.py": "from b import f\n", "b.py": "from a import f\n"})
    add("toml-invalid-value", {"target.py": F1, "pyproject.toml": "[tool.rattr]\nthreshold = 'x'\n"})
    add("toml-syntax-error", {"target.py": F1, "pyproject.toml": "[tool.rattr\n"})
    add("toml-bool-for-int", {"target.py": F1, "pyproject.toml": "[tool.rattr]\nthreshold = false\n"})
    add("toml-bool-for-follow", {"target.py": F1, "pyproject.toml": "[tool.rattr]\nfollow-imports = false\n"})
    add("cache-not-utf8", {"target.py": F1, "c.json": {"hex": "fffe00"}}, ["-C", "c.json"])
    add("cache-null", {"target.py": F1, "c.json": "null"}, ["-C", "c.json"])
    add("cache-wrong-shape", {"target.py": F1, "c.json": '{"imports": [{"filepath": 1}]}'}, ["-C", "c.json"])
    add("cache-not-json", {"target.py": F1, "c.json": "{not json"}, ["-C", "c.json"])
    add("cache-number", {"target.py": F1, "c.json": "1"}, ["-C", "c.json"])
    add("exclude-invalid-regex", {"target.py": F1}, ["-x", "("])
    add("exclude-import-invalid-regex", {"target.py": "import os\n" + F1}, ["-F", "[a-"])
    # round 5 (seeded C07-m14): class bases that WRAP an un-nameable expression (the initialiser heuristics name every base)
    pre = "import enum\nfrom typing import NamedTuple\nRed = Blue = 1\nglob = [1]\ndef mk(a):\n    return a\n"
    for i, b in enumerate(["[Red, Blue][0]", "(Red, Blue)[0].inner", "[Red][0], enum.Enum", "mk(Red + Blue).attr", "(Red or Blue).x, NamedTuple",
                           "{1: Red}[1]", "*[Red][0:1]", "(lambda: Red)().base", "f'{Red}'.join", "(Red if glob else Blue).q[0]", "(yield_ := Red).w",
                           "-Red.real", "[r for r in glob][0]", "mk(a=[Red])"]):
        add(f"class-base-wraps-unnameable:{i}", {"target.py": pre + f"class Colour({b}):\n    RED = 1\n    x = glob\n\ndef use(c):\n    return Colour(c).RED\n"})
        add(f"class-base-wraps-unnameable:{i}:with-init", {"target.py": pre + f"class Colour({b}):\n    def __init__(self, v):\n        self.v = v.w\n"})
    add("K7-class", {"target.py": ANN + "@rattr_results(calls=[('f', (['a'], ['b']))])\nclass C:\n    def __init__(self, a):\n        pass\n"})
    add("exclude-invalid-regex-class-first", {"target.py": "class C:\n    pass\n"}, ["-x", "("])
    add("class-after-function-of-same-name", {"target.py": "def C(a):\n    return a.x\nclass C:\n    def __init__(self, q):\n        self.q = q\n"})
    add("relative-import-of-missing-module", {"pkg/__init__.py": "", "pkg/t.py": "from .nope import thing\n"}, target="pkg/t.py")
    add("starred-relative-import-of-missing-module", {"pkg/__init__.py": "", "pkg/t.py": "from .nope import *\n"}, target="pkg/t.py")
    add("bom", {"target.py": {"hex": "efbbbf" + F1.encode().hex()}})
    # K22 (found while proving the names invariant of NoCrashShapeFn): unbind_name's ValueError("never") is reachable
    add("K22-sorted", {"target.py": "def f(xs, q):\n    return sorted(xs, key=lambda getattr: getattr(q, 'x').m)\n"})
    add("K22-results", {"target.py": "def f(getattr, q):\n    return getattr(q, 'x').m\ndef g(b, c):\n    return f(b, c)\n"})
    add("K22-results-hasattr", {"target.py": "def f(hasattr, q):\n    return hasattr(q, 'x').m\ndef g(b, c):\n    return f(b, c)\n"})
    # control for the K22 class split: the SAME odd name (`getattr(obj, 'meta').title`: basename `getattr`, full name
    # `obj.meta.title`) folded into a caller, in one file and across a followed import, WITHOUT any parameter named like an
    # attribute builtin — must end normally (the swap is the identity and unbind_name returns before its sanity check)
    add("control-K22-no-such-parameter", {"target.py": "def title_of(obj):\n    return getattr(obj, 'meta').title\ndef first(obj):\n    return getattr(obj, 'items')[0]\n"
                                                       "def main(o):\n    return title_of(o) + first(o)\n"})
    add("control-K22-no-such-parameter-followed", {"helpers.py": "def title_of(obj):\n    return getattr(obj, 'meta').title\n",
                                                   "target.py": "from helpers import title_of\nimport helpers\ndef main(o):\n    return title_of(o) + helpers.title_of(o)\n"})
    # sanctioned outcomes, as controls
    add("control-ok", {"target.py": F1})
    add("control-fatal", {"target.py": "def f(a):\n    global x\n"})
    add("control-strict", {"target.py": "def f(a):\n    def g():\n        pass\n"}, ["--strict"])
    add("control-threshold", {"target.py": "def f(a):\n    def g():\n        pass\n"}, ["--threshold", "1"])
    add("control-missing-target", {"other.py": F1})
    C.extend(cross_corpus())
    C.extend(long_name_corpus())
    C.extend(escaping_import_corpus())
    C.extend(module_class_import_corpus())
    return C


def module_class_import_corpus():
    """Every import form x every class of module Python can import (source module, source package, frozen stdlib,
    builtin, C extension, pip-installed), in the target, in a followed local import and in a package __init__.
    Found via a reviewer's note: `from math import *` (an ordinary statement) crashed in expand_starred_imports
    (fixed upstream in 6f46129); no row had a star import of a module without Python source."""
    mods = [("math", "sqrt"), ("sys", "argv"), ("os", "getcwd"), ("json", "dumps"), ("time", "sleep"), ("zlib", "crc32"),
            ("itertools", "chain"), ("_thread", "allocate_lock"), ("array", "array"), ("attrs", "define"),
            ("collections", "OrderedDict"), ("builtins", "len"), ("posix", "getcwd"), ("unicodedata", "name")]
    forms = ["import {m}", "import {m} as z", "from {m} import {n}", "from {m} import {n} as q", "from {m} import *"]
    out = []
    for m, n in mods:
        for fi, form in enumerate(forms):
            stmt = form.format(m=m, n=n)
            body = stmt + f"\ndef use(p):\n    return {n}(p.x)\n"
            out.append({"row": f"modclass:{m}:{fi}:target", "files": {"target.py": body}, "opts": [], "target": "target.py"})
            out.append({"row": f"modclass:{m}:{fi}:followed", "files": {"lib.py": body, "target.py": "from lib import use\ndef main(r):\n    return use(r)\n"},
                        "opts": [], "target": "target.py"})
            if fi == 4:
                out.append({"row": f"modclass:{m}:{fi}:init", "files": {"pkg/__init__.py": body, "target.py": "from pkg import use\ndef main(r):\n    return use(r)\n"},
                            "opts": [], "target": "target.py"})
                out.append({"row": f"modclass:{m}:{fi}:f3", "files": {"target.py": body}, "opts": ["-f", "3"], "target": "target.py"})
    return out


def long_name_corpus():
    """Termination of the `rattr_results` name validator: long dotted / bracketed names, valid and invalid only
    near their end, in every slot of the annotation (a backtracking validator spins on the invalid ones)."""
    comps = ["request", "session", "current_user_profile", "notification_preferences", "delivery_channels", "fallback_address"]
    dotted = ".".join(comps * 5)                                   # 30 components
    bracketed = ".".join(f"{c}[]" if i % 2 else f"{c}()" for i, c in enumerate(comps * 4))
    flat = "a_very_long_identifier_without_any_dots_" * 3
    names = {"dotted": dotted, "bracketed": bracketed, "flat": flat, "starred": "*" + dotted, "literal": "@" + flat}
    tails = {"valid": "", "space": " ", "hyphen": "-x", "quote": "'", "bang": ".ok!", "dotspace": ". "}
    out = []
    for nk, n in names.items():
        for tk, t in tails.items():
            if nk in ("starred", "literal") and tk not in ("valid", "space"):
                continue
            name = repr(n + t)
            slots = {
                "gets": f"@rattr_results(gets={{{name}}})",
                "sets": f"@rattr_results(sets={{'a.ok', {name}}})",
                "dels": f"@rattr_results(dels={{{name}}})",
                "call-target": f"@rattr_results(calls=[({name}, (['a'], {{}}))])",
                "call-arg": f"@rattr_results(calls=[('helper', ([{name}], {{}}))])",
                "call-kwarg-key": f"@rattr_results(calls=[('helper', ([], {{{name}: 'a'}}))])",
                "call-kwarg-value": f"@rattr_results(calls=[('helper', ([], {{'w': {name}}}))])",
            }
            for sk, dec in slots.items():
                if nk not in ("dotted", "bracketed") and sk not in ("gets", "call-arg"):
                    continue
                if tk not in ("valid", "space") and sk not in ("gets", "call-target"):
                    continue        # every slot sees a valid and an invalid-at-the-end name; the other tails go to two slots
                src = ANN + "def helper(z, w=0):\n    return z.s\n" + dec + "\ndef touch(a):\n    return a.x\ndef caller(q):\n    return touch(q)\n"
                out.append({"row": f"longname:{nk}:{tk}:{sk}", "files": {"target.py": src}, "opts": [], "target": "target.py"})
    # the same on a class and in a followed import
    dec = f"@rattr_results(gets={{{(dotted + ' ')!r}}})"
    out.append({"row": "longname:class", "files": {"target.py": ANN + dec + "\nclass K:\n    def __init__(self, a):\n        self.x = a\n"},
                "opts": [], "target": "target.py"})
    out.append({"row": "longname:import", "files": {"target.py": "from lib import touch\ndef caller(q):\n    return touch(q)\n",
                                                      "lib.py": ANN + dec + "\ndef touch(a):\n    return a.x\n"}, "opts": [], "target": "target.py"})
    return out


def escaping_import_corpus():
    """Relative imports whose dots climb to / past the top-level package (Python: "attempted relative import
    beyond top-level package"), levels 1..4, from a script / a module / an __init__, with and without a module of
    that name higher up; each file analysed as the target and as a followed import."""
    base = {
        "app/__init__.py": "", "app/mod.py": "def m(z):\n    return z.m\n", "app/common.py": "def inner_common(z):\n    return z.ic\n",
        "app/handlers/__init__.py": "", "app/handlers/users.py": "def u(z):\n    return z.u\n",
        "common/__init__.py": "", "common/auth.py": "def check(token):\n    return token.valid\n", "sib.py": "def f(z):\n    return z.sib\n",
    }
    places = [("target.py", None), ("script2.py", "import script2"), ("app/mod.py", "import app.mod"),
              ("app/handlers/users.py", "from app.handlers.users import create"),
              ("app/__init__.py", "import app"), ("app/handlers/__init__.py", "import app.handlers")]
    forms = ["from {d}common.auth import check", "from {d} import common", "from {d}sib import f", "from {d}common import *",
             "from {d}app import mod", "from {d}nowhere import thing"]
    out = []
    for path, importer in places:
        for level in (1, 2, 3, 4):
            for fi, form in enumerate(forms):
                stmt = form.format(d="." * level)
                body = stmt + "\ndef create(request):\n    return request.user\n"
                for with_higher in (True, False):
                    if not with_higher and fi not in (0, 2):
                        continue
                    if level == 4 and fi not in (0, 1, 2):
                        continue
                    files = dict(base)
                    if not with_higher:
                        files = {k: v for k, v in files.items() if not k.startswith("common/") and k != "sib.py"}
                    files[path] = body
                    tag = f"escape:{path}:L{level}:{fi}:{'with' if with_higher else 'without'}-higher"
                    if path != "target.py":
                        out.append({"row": tag + ":as-target", "files": files, "opts": [], "target": path})
                    if importer is not None and (fi in (0, 2) or (level == 1 and fi == 3)):
                        f2 = dict(files)
                        f2["target.py"] = importer + "\ndef main(request):\n    return request.x\n"
                        out.append({"row": tag + ":followed", "files": f2, "opts": [], "target": "target.py"})
                    elif importer is None:
                        out.append({"row": tag + ":as-target", "files": files, "opts": [], "target": "target.py"})
    return out


UNNAMEABLES = ["(a + b)", "(a if b else x)"]
FN_POSITIONS = [
    "{U}.c = 1", "{U}.c += 1", "{U}.c: int = 1", "{U}.c: int", "del {U}.c", "for {U}.c in x:\n        pass",
    "with x as {U}.c:\n        pass", "[1 for {U}.c in x]", "{{1 for {U}.c in x}}", "{{1: 2 for {U}.c in x}}", "list(1 for {U}.c in x)",
    "{U}.c = lambda: 0", "{U}.c = namedtuple('P', 'x')", "{U}.c = Cls(a)", "x, {U}.c = b", "{U}.c, x = b", "[x, *{U}.c] = b", "x = {U}.c = b",
    "getattr({U}, 'c')", "setattr({U}, 'c', 1)", "hasattr({U}, 'c')", "delattr({U}, 'c')", "helper(getattr({U}, 'c'))",
    "helper(w=getattr({U}, 'c'))", "return getattr({U}, 'c')", "z = getattr({U}, 'c')", "getattr({U}, 'c').d", "getattr({U}, 'c')()",
    "getattr({U}, 'c')[0]", "getattr(getattr({U}, 'c'), 'd')", "getattr(x, getattr({U}, 'c'))", "defaultdict({U}.c)", "sorted(getattr({U}, 'c'))",
    "sorted(x, key=lambda q: getattr({U}, 'c'))", "sorted(x, key=getattr({U}, 'c'))", "lambda: getattr({U}, 'c')",
    "def inner():\n        {U}.c = 1", "return Cls(getattr({U}, 'c'))", "return [getattr({U}, 'c')]", "z = Cls(getattr({U}, 'c'))",
    "z = [getattr({U}, 'c'), Cls(a)]", "z: int = getattr({U}, 'c')", "z += getattr({U}, 'c')", "(z := getattr({U}, 'c'))",
    "for z in getattr({U}, 'c'):\n        pass", "with getattr({U}, 'c') as z:\n        pass", "del getattr({U}, 'c').d",
    "getattr({U}, 'c').d = 1", "*getattr({U}, 'c'), z = b", "helper(*getattr({U}, 'c'))", "getattr({U}, 'c').m()", "getattr({U}, 'c')(1)(2)",
    "sorted(x, key=lambda p, q: p)", "sorted(x, key=lambda: 0)", "sorted(key=lambda p, q: p)", "sorted(getattr({U}, 'c'), key=lambda q: q.k)",
    "match x:\n        case Cls(c=1):\n            {U}.c = 1", "try:\n        pass\n    except getattr({U}, 'c'):\n        pass",
    "while getattr({U}, 'c'):\n        pass", "if getattr({U}, 'c'):\n        pass", "assert getattr({U}, 'c')", "raise getattr({U}, 'c')",
    "f'{{getattr({U}, \"c\")}}'", "x[getattr({U}, 'c')]", "x[getattr({U}, 'c')] = 1", "{{getattr({U}, 'c'): 1}}", "-getattr({U}, 'c')",
    "defaultdict(lambda: getattr({U}, 'c'))", "defaultdict(getattr({U}, 'c'))", "collections.defaultdict({U}.c.d)",
]
FN_POSITIONS += [p.replace("getattr({U}, 'c')", "getattr({U}.c, 'd')") for p in FN_POSITIONS if "getattr({U}, 'c')" in p]
FN_POSITIONS += [p.replace("getattr({U}, 'c')", "getattr(x, {U})") for p in FN_POSITIONS[:60:5] if "getattr({U}, 'c')" in p]
CLASS_POSITIONS = ["{U}.c = 1", "{U}.c += 1", "{U}.c: int = 1", "{U}.c: int", "x, {U}.c = b", "del {U}.c", "for {U}.c in x:\n        pass",
                   "with x as {U}.c:\n        pass", "z = getattr({U}, 'c')", "getattr({U}, 'c')", "z = [1 for {U}.c in x]", "(z := getattr({U}, 'c'))",
                   "z = lambda: getattr({U}, 'c')", "{{x}}.c = 1" if False else "x.c = 1"]
MODULE_POSITIONS = ["{U}.c = 1", "{U}.c += 1", "{U}.c: int = 1", "{U}.c: int", "x, {U}.c = b", "del {U}.c", "for {U}.c in x:\n    pass",
                    "with x as {U}.c:\n    pass", "z = getattr({U}, 'c')", "getattr({U}, 'c')", "z = [1 for {U}.c in x]", "(z := {U}.c)",
                    "{U}.c = lambda: 0", "{U}.c = namedtuple('P', 'x')", "z = lambda: getattr({U}, 'c')", "z = lambda: sorted(x, key=lambda p, q: p)",
                    "if x:\n    {U}.c = 1", "try:\n    {U}.c = 1\nexcept Exception:\n    pass", "for z in x:\n    {U}.c = 1", "with x:\n    del {U}.c",
                    "z = ({U}.c := 1)" if False else "z = (y := {U}.c)"]


def cross_corpus():
    """Cross product of crash-prone positions x unnameable kinds x levels (function / method / class / module)."""
    from props.bodygen import PREAMBLE
    out = []
    pre = ("import collections\nfrom collections import defaultdict, namedtuple\nclass Cls:\n    def __init__(self, a):\n        self.x = a\n"
           "def helper(z, w=0):\n    return z.s\na = b = x = glob = 1\n")
    for ui, U in enumerate(UNNAMEABLES):
        for pi, pos in enumerate(FN_POSITIONS):
            if ui > 0 and pi % 3:
                continue        # the exception class is normalised: the second kind is a sample
            body = pos.format(U=U)
            for lvl, src in (("fn", f"def f(a, b, x):\n    {body}\n"),
                             ("init", "class K:\n    def __init__(self, a, b, x):\n" + "\n".join("        " + l for l in body.replace("\n    ", "\n").split("\n")) + "\n"),
                             ("async", f"async def f(a, b, x):\n    {body}\n".replace("    for ", "    async for ").replace("    with ", "    async with ")),
                             ("static", "class K:\n    @staticmethod\n    def sm(a, b, x):\n" + "\n".join("        " + l for l in body.replace("\n    ", "\n").split("\n")) + "\n")):
                if lvl == "async" and not ("for " in body or "with " in body):
                    continue
                if lvl in ("init", "static") and (pi % 4 or ui):
                    continue
                if "return" in body and lvl == "init":
                    pass
                out.append({"row": f"cross:{lvl}:{pi}:{ui}", "files": {"target.py": pre + src}, "opts": [], "target": "target.py"})
        for pi, pos in enumerate(CLASS_POSITIONS):
            body = pos.format(U=U)
            src = "class K:\n" + "\n".join("    " + l for l in body.replace("\n    ", "\n").split("\n")) + "\n"
            out.append({"row": f"cross:class:{pi}:{ui}", "files": {"target.py": pre + src}, "opts": [], "target": "target.py"})
        for pi, pos in enumerate(MODULE_POSITIONS):
            out.append({"row": f"cross:module:{pi}:{ui}", "files": {"target.py": pre + pos.format(U=U) + "\n"}, "opts": [], "target": "target.py"})
    good = []
    for c in out:
        try:
            compile(c["files"]["target.py"], "<cross>", "exec", dont_inherit=True)
        except SyntaxError:
            continue
        good.append(c)
    return good



# ------------------------------------------------------------------------------------ sanctioned fatal sites

# Diagnostic run for the fatal-site corpus: the same command line through runpy, with `error.fatal` wrapped
# to report its CALLER (file:line) on the real stderr (even under rattr's own redirect_stderr) and the
# final SystemExit attributed to the frame that raised it.
FATAL_WRAPPER = r"""
import sys, os, runpy
import rattr.error
_pkg = sys.modules["rattr.error"]; _mod = sys.modules["rattr.error.error"]
_root = os.path.dirname(os.path.dirname(os.path.dirname(os.path.abspath(_pkg.__file__))))
_orig = _mod.__dict__["fatal"]
def _rel(p):
    p = os.path.abspath(p)
    return os.path.relpath(p, _root) if p.startswith(_root) else p
def fatal(*a, **k):
    f = sys._getframe(1)
    sys.__stderr__.write("C07-FATAL-CALL %s:%d\n" % (_rel(f.f_code.co_filename), f.f_lineno))
    return _orig(*a, **k)
_mod.__dict__["fatal"] = fatal
_pkg.fatal = fatal
sys.argv = ["rattr"] + sys.argv[1:]
try:
    runpy.run_module("rattr", run_name="__main__", alter_sys=True)
except SystemExit as e:
    tb = e.__traceback__
    frames = []
    while tb is not None:
        frames.append((tb.tb_frame.f_code.co_filename, tb.tb_lineno, tb.tb_frame.f_code.co_name))
        tb = tb.tb_next
    frames = [f for f in frames if "/rattr/" in f[0] and f[2] != "fatal"]
    if frames:
        sys.__stderr__.write("C07-EXIT %s:%d\n" % (_rel(frames[-1][0]), frames[-1][1]))
    raise
"""


def scan_fatal_sites():
    """Tie-A style: every place in the rattr package that ends the process on purpose — calls of
    `error.fatal` / `fatal` / `sys.exit` / `exit`, and functions holding a reference to `error.fatal`
    (indirect call) — by ast scan of the tree under test. -> list of dict(id, file, fn, kind, lo, hi, msg)."""
    import rattr

    root = Path(os.path.dirname(rattr.__file__))
    sites = []
    for f in sorted(root.rglob("*.py")):
        rel = f.relative_to(root.parent).as_posix()
        tree = ast.parse(f.read_text())

        def msg_of(call):
            if not call.args:
                return ""
            a = call.args[0]
            if isinstance(a, ast.Constant) and isinstance(a.value, str):
                return a.value[:50]
            if isinstance(a, ast.JoinedStr):
                return "".join(v.value if isinstance(v, ast.Constant) else "{}" for v in a.values)[:50]
            return "<" + ast.unparse(a)[:40] + ">"

        def walk(node, qual, fnspan):
            for ch in ast.iter_child_nodes(node):
                if isinstance(ch, (ast.FunctionDef, ast.AsyncFunctionDef, ast.ClassDef)):
                    walk(ch, qual + [ch.name], (ch.lineno, ch.end_lineno))
                    continue
                if isinstance(ch, ast.Call):
                    fn = ast.unparse(ch.func)
                    if fn in ("error.fatal", "fatal", "sys.exit", "_sys.exit", "exit"):
                        if not (rel.endswith("error/error.py") and ".".join(qual) == "fatal"):      # the sink itself
                            sites.append({"file": rel, "fn": ".".join(qual) or "<module>", "kind": fn, "lo": ch.lineno,
                                          "hi": ch.end_lineno, "msg": msg_of(ch)})
                        for sub in list(ch.args) + [k.value for k in ch.keywords]:
                            walk(sub, qual, fnspan)
                        continue
                if isinstance(ch, ast.Attribute) and ast.unparse(ch) == "error.fatal":
                    sites.append({"file": rel, "fn": ".".join(qual) or "<module>", "kind": "ref:error.fatal", "lo": fnspan[0],
                                  "hi": fnspan[1], "msg": "<indirect>"})
                    continue
                walk(ch, qual, fnspan)

        walk(tree, [], (1, 10 ** 9))
    for s in sites:
        s["id"] = f"{s['file']}::{s['fn']}::{s['kind']}::{s['msg']}"
    # make ids unique (same message twice in one function)
    seen = {}
    for s in sites:
        n = seen.get(s["id"], 0)
        seen[s["id"]] = n + 1
        if n:
            s["id"] += f"#{n + 1}"
    return sites


# sites no CLI input reaches, with the reason (anything unreached and not listed here is reported as
# "no corpus row reaches it": that is how a NEW fatal site shows up)
UNREACHABLE_FATAL = [
    ("rattr/cli/_validate.py", "", "unused duplicate of rattr/config/_util.py validate_arguments (no importer)"),
    ("rattr/config/util.py", "find_xdg_cache_dir", "dead code (no callers)"),
    ("rattr/models/context/_root_context.py", "node has no module", "an absolute ImportFrom always has a module name (ast invariant)"),
    ("rattr/analyser/util.py", "get_namedtuple_attrs_from_call", "dead code (no callers)"),
    ("rattr/analyser/function.py", "unable to find lambda in rhs", "marked never: has_lambda_in_rhs on a one-to-one assignment implies the value is a lambda"),
    ("rattr/analyser/base.py", "Assertor.failed", "no assertor plugin is registered by default (plugins.assertors == [])"),
    ("rattr/models/symbol/_util.py", "kwarg_name", "CallArguments.from_call skips `**kw` keywords before naming them"),
]


def fatal_site_corpus():
    """One row (at least) per reachable sanctioned-fatal site; `importable` rows also get a followed-import twin."""
    rows = []
    pre = ("import collections\nfrom collections import defaultdict, namedtuple\n" + ANN +
           "class Cls:\n    def __init__(self, a):\n        self.x = a\ndef helper(z, w=0):\n    return z.s\nglob = 1\n")

    def add(name, body, opts=(), importable=True, files=None):
        rows.append({"row": f"fatal:{name}", "files": dict(files or {}, **{"target.py": pre + body}), "opts": list(opts), "target": "target.py"})
        if importable:
            rows.append({"row": f"fatal:{name}:followed", "opts": list(opts), "target": "target.py",
                         "files": dict(files or {}, **{"lib.py": pre + body, "target.py": "import lib\nfrom lib import helper\ndef main(q):\n    return helper(q)\n"})})

    fn = lambda stmt: f"def f(a, b):\n    {stmt}\n"  # noqa: E731
    # --- annotations (analyser/util.py)
    two = "@rattr_results(gets={'a.x'})\n@rattr_results(sets={'a.y'})\n"
    add("annotation-duplicated-function", two + "def f(a):\n    return a.x\n")
    add("annotation-duplicated-class", two + "class K:\n    def __init__(self, a):\n        self.x = a\n")
    add("annotation-duplicated-async", two + "async def f(a):\n    return a.x\n")
    add("annotation-duplicated-three", two + "@rattr_results()\ndef f(a):\n    return a.x\n")
    add("annotation-duplicated-dotted", "import rattr.analyser.annotations as ann\n@ann.rattr_results(gets={'a'})\n@rattr_results()\ndef f(a):\n    return a.x\n")
    add("annotation-missing-comma", "@rattr_results(calls=[('helper' (['a'], {}))])\ndef f(a):\n    return a.x\n")
    add("annotation-unevaluable", "@rattr_results(gets={glob})\ndef f(a):\n    return a.x\n")
    add("annotation-dict-unpacking", "@rattr_results(calls=[('helper', (['a'], {**glob}))])\ndef f(a):\n    return a.x\n")
    add("annotation-positional", "@rattr_results({'a'})\ndef f(a):\n    return a.x\n")
    add("annotation-unexpected-keyword", "@rattr_results(gets={'a'}, reads={'b'})\ndef f(a):\n    return a.x\n")
    add("annotation-gets-not-a-set", "@rattr_results(gets=['a'])\ndef f(a):\n    return a.x\n")
    add("annotation-gets-none", "@rattr_results(gets=None)\ndef f(a):\n    return a.x\n")
    add("annotation-name-invalid", "@rattr_results(sets={'not a name'})\ndef f(a):\n    return a.x\n")
    add("annotation-calls-bad-shape", "@rattr_results(calls=[('helper',)])\ndef f(a):\n    return a.x\n")
    add("annotation-calls-not-a-list", "@rattr_results(calls=('helper', ([], {})))\ndef f(a):\n    return a.x\n")
    add("annotation-on-class-bad", "@rattr_results(gets=1)\nclass K:\n    def __init__(self, a):\n        self.x = a\n")
    # --- function analyser
    add("fn-global", fn("global g"))
    add("fn-nonlocal", "def f(a):\n    v = 1\n    def inner():\n        nonlocal v\n        v = 2\n    return a\n")
    add("fn-import", fn("import json"))
    add("fn-import-from", fn("from os import sep"))
    add("fn-lambda-not-one-to-one", fn("x, y = lambda: 1, lambda: 2"))
    add("fn-namedtuple-not-one-to-one", fn("x, y = namedtuple('X', 'a'), namedtuple('Y', 'b')"))
    add("fn-class-not-one-to-one", fn("x = y = Cls(a)"))
    add("fn-getattr-too-few", fn("getattr(a)"))
    add("fn-getattr-too-few-assigned", fn("x = getattr(a)"))
    add("fn-getattr-too-few-argument", fn("helper(getattr(a))"))
    add("fn-getattr-too-few-attr", fn("return getattr(a).b"))
    add("fn-getattr-nested-other-call", fn("getattr(helper(a), 'x')"))
    add("fn-getattr-nested-other-call-assigned", fn("x = getattr(helper(a), 'x')"))
    add("fn-getattr-nested-other-call-argument", fn("helper(getattr(helper(a), 'x'))"))
    add("fn-getattr-nested-other-call-attr", fn("return getattr(helper(a), 'x').y"))
    add("fn-hasattr-in-setattr", fn("setattr(hasattr(a, 'x'), 'y', 1)"))
    add("fn-in-init", "class K:\n    def __init__(self, a):\n        global g\n")
    add("fn-in-static", "class K:\n    @staticmethod\n    def sm(a):\n        import json\n")
    add("fn-in-module-lambda", "lam = lambda a: getattr(a)\n")
    # --- file / class / root context
    add("file-lambda-not-one-to-one", "l1, l2 = lambda: 1, lambda: 2\n")
    add("file-namedtuple-not-one-to-one", "n1, n2 = namedtuple('A', 'a'), namedtuple('B', 'b')\n")
    add("file-anonymous-lambda", "(lambda q: q.x)\n")
    add("file-anonymous-lambda-call", "helper(lambda q: q.x)\n")
    add("class-async-init", "class K:\n    async def __init__(self, a):\n        self.x = a\n")
    add("root-module-not-found", "import nonexistent_module_xyz\n")
    add("root-module-not-found-from", "from nonexistent_module_xyz import thing\n")
    add("root-module-not-found-relative", "from .nonexistent_sibling import thing\n")
    # --- config / cli / main
    F = "def f(a):\n    return a.x\n"
    E = "def f(a):\n    def inner():\n        pass\n    return undefined_name.q\n"
    add("cli-missing-target", F, importable=False)
    rows[-1]["target"] = "no_such_file.py"
    add("cli-negative-threshold", F, ["--threshold=-1"], importable=False)
    add("cli-strict-promotes-error", E, ["--strict"])
    add("main-threshold-exceeded", E, ["--threshold", "1"], importable=False)
    add("toml-invalid-value", F, importable=False, files={"pyproject.toml": "[tool.rattr]\nthreshold = 'x'\n"})
    add("toml-syntax-error", F, importable=False, files={"pyproject.toml": "[tool.rattr\n"})
    add("toml-bool-for-int", F, importable=False, files={"pyproject.toml": "[tool.rattr]\nthreshold = false\n"})
    add("toml-strict-promotes", E, importable=False, files={"pyproject.toml": "[tool.rattr]\nstrict = true\n"})
    # the three sites of fixes c5833ef / bcdf6de (K23, K25)
    relsrc = "from .x import y\ndef f(a):\n    return y(a)\n"
    rows.append({"row": "fatal:relative-import-without-base", "opts": [], "target": "../other/t.py", "cwd": "proj",
                 "files": {"proj/x.txt": "", "other/t.py": relsrc, "other/x.py": "def y(q):\n    return q.z\n"}})
    rows.append({"row": "fatal:starred-relative-import-without-base", "opts": [], "target": "a.b/t.py",
                 "files": {"a.b/t.py": relsrc.replace("import y", "import *"), "a.b/x.py": "def y(q):\n    return q.z\n"}})
    rows.append({"row": "fatal:cache-not-writable", "opts": ["-C", "c.json"], "target": "target.py", "files": {"target.py": F, "c.json/keep": ""}})
    # normal / argparse exits (not fatal: exit 0 / usage), for site coverage only
    add("exit-normal", F, importable=False)
    rows[-1]["not_fatal"] = True
    for name, o in (("usage-unknown-option", ["--no-such-option"]), ("usage-bad-choice", ["-f", "9"]), ("usage-help", ["--help"]),
                    ("usage-strict-and-threshold", ["--strict", "--threshold", "3"])):
        add(name, F, o, importable=False)
        rows[-1]["usage"] = True
    return rows


# ------------------------------------------------------------------------------------ function-level tie

def function_tie(rng, n_modules, res, model):
    """In-process FunctionAnalyser vs Lean model vs the Lean predicate NoCrashShapeFn."""
    from props import visitlib as vl
    from props.bodygen import PREAMBLE

    witnesses = PREAMBLE + '''
def k3_two(xs):
    return sorted(xs, key=lambda p, q: p.k)
def k3_zero(xs):
    return sorted(xs, key=lambda: 0)
def k3_default(xs):
    return sorted(xs, key=lambda p, q=1: p.k)
def k4_store(a, b):
    (a + b).c = 1
def k4_del(a, b):
    del (a + b).c
def k4_for(a, b):
    for (a + 1).x in b:
        pass
def k4_with(a, b, x):
    with x as (a + b).c:
        pass
def k4_comp(a, b):
    return [1 for (a + b).c in b]
def k4_aug(a, b):
    (a + b).c += 1
def k4_ann(a, b):
    (a + b).c: int = 1
def k4_deep(a, b):
    (a + b).c.d[0] = 1
def k4_tuple(a, b):
    x, (a + b).c = b
def k5_getattr(a, b):
    return getattr(a + b, 'c')
def k5_hasattr(a, b):
    return hasattr(-a, 'c')
def k5_setattr(a, b):
    setattr((a, b), 'c', 1)
def k5_nested(a, b):
    return getattr(getattr(a + b, 'c'), 'd')
def k5_const(a):
    return getattr('s', 'c')
def k5_arg(a, b):
    return helper(getattr(a + b, 'c'))
def k5_name_arg(a, b):
    return getattr(a, getattr(a + b, 'c'))
def dd_attr(a, b):
    return defaultdict((a + b).c)
def lam_assign(a, b):
    (a + b).c = lambda: 0
def nt_assign(a, b):
    (a + b).c = namedtuple('P', 'x')
def cls_assign(a, b):
    (a + b).c = Cls(a)
def safe_ok(a, b):
    (a + b).c
    return (a + b).c.d, -a.x, [a, b][0].y
def safe_call(a, b):
    return (a + b).m(a), 'sep'.join(b)
'''
    wit_names = [l.split("(")[0][4:] for l in witnesses.splitlines() if l.startswith("def ") and not l.startswith("def helper")
                 and l.split("(")[0][4:] not in ("helper",)]
    wit_names = [n for n in wit_names if n not in ("helper", "ahelper")]
    cases = vl.run_batch(rng, n_modules, model, hostile=0.1, extra_sources=[(witnesses, wit_names)])
    # the root context each function was analysed in (the module's real root context): `SaneCtx` is a hypothesis of
    # C07_fn_no_crash_partial, evaluated by the driver on the same snapshot the model was given
    roots = {}
    reqs = []
    for c in cases:
        if c.module_src not in roots:
            roots[c.module_src] = vl.root_snapshot(vl.prepare(c.module_src)[1])
        reqs.append(("no_crash_shape", {"body": [vl.enc(s) for s in c.fn.body], "root": roots[c.module_src]}))
    preds = model.batch(reqs)
    n_pred_true = n_crash = n_over = n_round1 = n_over_round1 = n_insane = 0
    over_rows = {}
    for c, p in zip(cases, preds):
        res.evaluations += 1
        case = {"function": c.fn_src}
        res.count("fn-outcome:" + c.im["outcome"] + (":" + c.im["exc"] if c.im["outcome"] == "crash" else ""))
        if c.diff is not None:
            res.disagreements.append({"case": case, "diff": "model vs FunctionAnalyser: " + c.diff[:1500]})
        if isinstance(p, dict) and "__error__" in p:
            res.disagreements.append({"case": case, "diff": "no_crash_shape: " + str(p["__error__"])[:300]})
            continue
        ok, ok1, sane = bool(p["ok"]), bool(p.get("ok_anyctx")), bool(p.get("sane", True))
        crashed = c.im["outcome"] == "crash"
        n_pred_true += ok
        n_round1 += ok1
        n_crash += crashed
        n_insane += not sane
        if ok and sane and crashed:
            res.disagreements.append({"case": case, "diff": f"NoCrashShapeFn = true (root context sane) but the real FunctionAnalyser raised {c.im['exc']}"})
        if ok1 and crashed:
            res.disagreements.append({"case": case, "diff": f"NoCrashShapeFnAnyCtx = true but the real FunctionAnalyser raised {c.im['exc']}"})
        if ok1 and not ok:
            res.internal_errors.append({"what": "the wider predicate rejects a body the round-1 predicate accepts", "case": case})
        if not ok and not crashed:
            n_over += 1
            for r in p.get("rows", []):
                over_rows[r] = over_rows.get(r, 0) + 1
        if not ok1 and not crashed:
            n_over_round1 += 1
        if crashed:
            res.nontrivial.add(common.digest(c.fn_src))
            res.count("fn-crash-row:" + "+".join(r.split(":")[0] for r in p.get("rows", [])[:3]))
    res.extra["fn_predicate"] = {"functions": len(cases), "predicate_true": n_pred_true, "real_crashes": n_crash,
                                 "predicate_false_without_crash": n_over,
                                 "predicate_false_without_crash_by_clause": dict(sorted(over_rows.items())),
                                 "round1_predicate_true": n_round1, "round1_predicate_false_without_crash": n_over_round1,
                                 "root_context_not_sane": n_insane}
    return cases


# ------------------------------------------------------------------------------------ module-level tie

# witnesses of the crash classes of the single-file pipeline model (each has a C07_cex_file_* theorem) + benign controls
FILE_WITNESSES = [
    ("K1-dotted-star", "target.py", "from lp.sub import *\ndef f(a):\n    return a.x\n"),
    ("K4-module-store", "target.py", "p = q = 1\n(p + q).c = 1\ndef f(a):\n    return a.x\n"),
    ("K4-module-del", "target.py", "p = q = 1\ndel (p + q).c\n"),
    ("K4-module-lambda", "target.py", "p = q = 1\n(p + q).c = lambda z: z.w\n"),
    ("K4-class-body", "target.py", "p = q = 1\nclass C:\n    (p + q).c = 1\n    def __init__(self, a):\n        self.a = a\n"),
    ("K2-decorator", "target.py", "d = [1]\n@d[0]\ndef f(a):\n    return a.x\n"),
    ("K2-method-decorator", "target.py", "d = [1]\nclass C:\n    @d[0]\n    def m(self):\n        pass\n"),
    ("K7-call-spec", "target.py", "from rattr.analyser.annotations import rattr_results\n@rattr_results(calls=[('f', (['a'], ['b']))])\ndef g(a):\n    pass\n"),
    ("K11-def-then-class", "target.py", "def C(a):\n    return a.x\nclass C:\n    def __init__(self, q):\n        self.q = q\n"),
    ("K11-builtin-name", "target.py", "class list:\n    def __init__(self, q):\n        self.q = q\n"),
    ("K3-in-function", "target.py", "def f(xs):\n    return sorted(xs, key=lambda a, b: a.k)\n"),
    ("K22-sorted", "target.py", "def f(xs, q):\n    return sorted(xs, key=lambda getattr: getattr(q, 'x').m)\n"),
    ("K22-results", "target.py", "def f(getattr, q):\n    return getattr(q, 'x').m\ndef g(b, c):\n    return f(b, c)\n"),
    ("K10-results", "target.py", "from ghost_mod import g\ndef f(a):\n    return g(a)\n"),     # -F ghost_.*: blacklisted, module not found
    ("control-plain", "target.py", "import os\nfrom lp.sub import f as ff\nclass K:\n    def __init__(self, v):\n        self.v = v.kv\n    @staticmethod\n    def sm(w):\n        return w.s\n"
                                   "lam2 = lambda p: p.q\ndef top(a, b):\n    return sorted(a.xs, key=lambda w: w.k) + [K(b).v, K.sm(a), ff(b), lam2(a), (a + b).m(1, b)]\n"),
    ("control-fatal", "target.py", "def f(a):\n    import json\n    (a + 1).c = 2\n"),
    ("control-class-no-init", "target.py", "def C(a):\n    return a.x\nclass C:\n    z = 1\n"),
    # K11m / K11t, fixed in /repo 6e8e4cc (visit_Match, visit_TryStar): now controls — the class gets its symbol
    ("control-K11m-class-in-match", "target.py", "v = 1\nmatch v:\n    case 1:\n        class M:\n            def __init__(self, q):\n                self.q = q\n"
                                                  "def use(a):\n    return M(a)\n"),
    ("control-K11t-class-in-try-except-star", "target.py", "try:\n    class T:\n        def __init__(self, q):\n            self.q = q\nexcept* ValueError:\n"
                                                            "    class U:\n        def __init__(self, q):\n            self.q = q\ndef use(a):\n    return T(a), U(a)\n"),
]


def file_tie(rng, n_modules, res, model):
    """The Lean predicates NoCrashShapeFile / NoCrashShapePipeline on whole modules vs the REAL stages:
    NoCrashShapeFile ⇒ the real root-context builder and the real FileAnalyser do not raise, and the real
    `rattr.__main__.main` (-f 0) raises at most one of the exceptions of result generation the theorem names;
    NoCrashShapePipeline ⇒ the real main does not raise at all. A failure of an implication is a MODEL error."""
    import ast as _ast
    import impl
    from props import filegen, filelib, pipeline

    work = [(n, t, src) for n, t, src in FILE_WITNESSES]
    work += [(None, t, src) for t, src in filegen.CURATED + filegen.PIPELINE_CURATED]
    # round 4: definitions of every kind at every module-level block position (the builder must register what the
    # FileAnalyser reaches: `for … else`, `while … else`, `try … finally`, `with`, `match` cases, `except*`, … — K11m / K11t were fixed in /repo 6e8e4cc)
    work += c07blocks.tie_modules(rng, "quick")
    for i in range(n_modules):
        gen = filegen.gen_pipeline_module if i % 2 == 0 else filegen.gen_file_module
        src, target = gen(rng, hostile=0.1 if i % 4 < 2 else 0.02)
        work.append((None, target, src))
    cases, projects, case_projects = [], [], []
    try:
        for name, target, src in work:
            try:
                _ast.parse(src)
            except SyntaxError:
                continue
            project = filelib.make_project()
            projects.append(project)
            fc = filelib.run_case(project, target, src, excluded=pipeline.EXCLUDE, excluded_imports=pipeline.EXCLUDE_IMPORTS)
            if fc.skipped is not None:
                res.skipped_outside_fragment += 1
                res.count("file-tie:skipped:" + fc.skipped[:40])
                continue
            im = pipeline.real_pipeline(project, target)
            cases.append((name, target, src, fc, im))
            case_projects.append(project)
        preds = model.batch([("no_crash_shape_file", fc.payload) for _, _, _, fc, _ in cases])
        # the pipeline predicate needs the facts result generation asks for: pass 1 of op `pipeline` says which
        # (as props/pipeline.py does), the real locator answers while the project still exists
        from rattr.analyser.util import is_excluded_name
        need = model.batch([("pipeline", fc.payload) for _, _, _, fc, _ in cases])
        payloads2 = []
        for (name, target, src, fc, im), mo, project in zip(cases, need, case_projects):
            pl = fc.payload
            if isinstance(mo, dict) and "__error__" not in mo:
                with impl.in_dir(str(project)):
                    impl.reset_config(target=Path(target), _excluded_names=list(pipeline.EXCLUDE), _follow_imports_level=0,
                                      _excluded_imports=list(pipeline.EXCLUDE_IMPORTS))
                    ex = set(pl["facts"]["excluded"]) | {x for x in mo.get("callTargets", []) if is_excluded_name(x)}
                    pl = {**pl, "facts": {**pl["facts"], "excluded": sorted(ex)},
                          "imports": [[q, pipeline.import_fact(q)] for q in mo.get("needImports", [])]}
            payloads2.append(pl)
        ppreds = model.batch([("no_crash_shape_pipeline", pl) for pl in payloads2])
    finally:
        for pr in projects:
            filelib.drop_project(pr)
    n_true = n_front_crash = n_over = n_results_crash = n_ptrue = n_any_crash = n_pover = 0
    over_parts, pover_parts = {}, {}
    allowed = {"ValueError", "ImportError"}
    for (name, target, src, fc, im), p, pp in zip(cases, preds, ppreds):
        res.evaluations += 1
        case = {"stage": "file-tie", "target": target, "module": src, "witness": name}
        if isinstance(p, dict) and "__error__" in p:
            res.disagreements.append({"case": case, "diff": "no_crash_shape_file: " + str(p["__error__"])[:300]})
            continue
        if isinstance(pp, dict) and "__error__" in pp:
            res.disagreements.append({"case": case, "diff": "no_crash_shape_pipeline: " + str(pp["__error__"])[:300]})
            continue
        # ---- the pipeline predicate: NoCrashShapePipeline => rattr.__main__.main does not raise at all
        pok = bool(pp["ok"])
        any_crash = im["outcome"] == "crash" or fc.root_im["outcome"] == "crash" or (fc.file_im is not None and fc.file_im["outcome"] == "crash")
        n_ptrue += pok
        n_any_crash += any_crash
        if pok and any_crash:
            res.disagreements.append({"case": case, "diff": f"NoCrashShapePipeline = true but the real run raised {im.get('exc')}"})
        if pok and not bool(p["ok"]):
            res.internal_errors.append({"what": "NoCrashShapePipeline holds where NoCrashShapeFile does not", "case": case})
        if not pok and not any_crash:
            n_pover += 1
            for part in (pp.get("resultsUnsafe") or []) if pp.get("file") else ["NoCrashShapeFile"]:
                pover_parts[part] = pover_parts.get(part, 0) + 1
        ok = bool(p["ok"])
        root_crash = fc.root_im["outcome"] == "crash"
        file_crash = fc.file_im is not None and fc.file_im["outcome"] == "crash"
        front_crash = root_crash or file_crash
        main_crash = im["outcome"] == "crash"
        n_true += ok
        n_front_crash += front_crash
        res.count("file-tie:real:" + ("root-crash:" + fc.root_im["exc"] if root_crash else
                                      "file-crash:" + fc.file_im["exc"] if file_crash else
                                      "main-crash:" + im["exc"] if main_crash else im["outcome"]))
        if main_crash and not front_crash:
            n_results_crash += 1
        if ok and front_crash:
            res.disagreements.append({"case": case, "diff": "NoCrashShapeFile = true but the real "
                                      + ("root-context builder raised " + fc.root_im["exc"] if root_crash else "FileAnalyser raised " + fc.file_im["exc"])})
        elif ok and main_crash and im["exc"] not in allowed:
            res.disagreements.append({"case": case, "diff": f"NoCrashShapeFile = true but rattr.__main__.main raised {im['exc']} "
                                      "(not one of the result-generation exceptions the theorem leaves open)"})
        if front_crash or main_crash:
            res.nontrivial.add(common.digest(src))
        if not ok and not front_crash:
            n_over += 1
            for r in p.get("rows", []):
                for part in r["parts"]:
                    k = r["stmt"].split(":")[0] + ":" + part
                    over_parts[k] = over_parts.get(k, 0) + 1
            if not p.get("noCustomOnDef", True):
                over_parts["noCustomOnDef"] = over_parts.get("noCustomOnDef", 0) + 1
        if name is not None:
            res.sample({"witness": name, "predicate": ok, "real": {"root": fc.root_im["outcome"], "file": fc.file_im["outcome"] if fc.file_im else None,
                                                                   "main": im["outcome"], "exc": im.get("exc")}}, cap=60)
            expect_reject = not name.startswith("control") and not name.endswith("-results")
            if expect_reject and ok:
                res.internal_errors.append({"what": "a crash witness satisfies NoCrashShapeFile", "witness": name})
            if not name.startswith("control") and pok:
                res.internal_errors.append({"what": "a crash witness satisfies NoCrashShapePipeline", "witness": name})
            if name.startswith("control") and not pok:
                res.internal_errors.append({"what": "a control module is rejected by NoCrashShapePipeline", "witness": name, "parts": pp.get("resultsUnsafe")})
            if name.startswith("control") and not ok:
                res.internal_errors.append({"what": "a control module is rejected by NoCrashShapeFile", "witness": name, "rows": p.get("rows")})
    res.extra["file_predicate"] = {"modules": len(cases), "predicate_true": n_true, "real_front_stage_crashes": n_front_crash,
                                   "real_result_generation_crashes": n_results_crash,
                                   "predicate_false_without_front_crash": n_over,
                                   "predicate_false_without_front_crash_by_part": dict(sorted(over_parts.items())),
                                   "pipeline_predicate_true": n_ptrue, "real_crashes_any_stage": n_any_crash,
                                   "pipeline_predicate_false_without_crash": n_pover,
                                   "pipeline_predicate_false_without_crash_by_part": dict(sorted(pover_parts.items()))}
    return cases


# ------------------------------------------------------------------------------------ run

def run(tier, seed, build):
    warnings.simplefilter("ignore")
    res = common.Result(PID)
    res.rule = ("(i) generated projects: target module = bodygen preamble + imports of every form (local package with relative / "
                "starred / dotted / aliased imports, an import cycle, stdlib, pip, rattr itself, nonexistent) + functions from the "
                "grammar-wide body generator (hostile rate 0.1) + classes (decorators, every base shape, enum / NamedTuple, static "
                "methods, async / double __init__, control flow and odd targets in the body) + module-level statements of every "
                "kind (lambdas, namedtuples, walrus, TYPE_CHECKING / try imports, del, match, type aliases, async defs, generics) + "
                "decorators of every expression shape incl. rattr_results / rattr_ignore with odd arguments, target at top level or "
                "inside the package; x a random valid option combination; each run through the real CLI in a subprocess (cwd = temp "
                "project, PYTHONHASHSEED=0, 30 s timeout). (ii) curated corpus: every K-row witness. (iii) option sweep over a fixed "
                "project. Oracle: exit 0 + well-formed output, or exit 1 + fatal:/error: line; anything else is a violation "
                "`unhandled:<ExcType>:<innermost rattr function>`. (iv) function tie: real FunctionAnalyser vs Lean model vs Lean "
                "predicate NoCrashShapeFn on every generated function. non-trivial = distinct project whose run was not a plain exit 0, "
                "or function whose real analysis raised. (vi, round 3) every --stdout mode / -C / second run on an existing cache x "
                "degenerate module texts (empty, whitespace / comment / docstring only, single pass, only imports, zero functions, no final "
                "newline, CRLF ...) as target, followed import (plain / from / star), package __init__, __init__ as target, behind an "
                "imports-only module; file-system shapes: module files / directories / __init__ / target that are symlinks (to another "
                "imported module, outside the project, dangling, loops, chains), hard links, two names for one file, target spellings, "
                "targets outside the module search path, the cache file as directory / link — calls made through every name. (vii) whole-run "
                "tie: real parse_and_analyse_file + resolve_import + show_* in-process vs Lean (op c07_run): import_irs keys, RattrStats "
                "integers, output-stage outcome, resolve_import verdict per import statement; read() line count and show_stats on a grid. "
                "(viii, round 4) module-level definitions (def / async def / class without and with __init__ / Enum / IntEnum / NamedTuple / dataclass / "
                "static-only / nested class, lambda, namedtuple(), imports of every form, star import, assignment, walrus) at EVERY block position "
                "of a module (if / elif / else, for / else, while / else, try body / handlers / else / finally, except*, with, match cases; nestings "
                "to depth 3) as the target, a followed import (from / import / star) and a package __init__ (props/c07blocks.py), and in file_tie "
                "against NoCrashShapeFile. (ix, round 4) the OUTPUT side: every document (-o results | ir | cacheable | stats | silent, -C cache, a "
                "second run on the cache) x names that stress the encoder (lone surrogates, unpaired pairs, astral, NUL / ESC / U+2028 / DEL / BOM "
                "in getattr-family literal names, subscripts, keywords, namedtuple fields, rattr_results names; non-ASCII identifiers in every "
                "role; non-ASCII file / module / package names) x environment (PYTHONIOENCODING ascii / ascii:strict / utf-8 / latin-1 / cp1252, "
                "LANG=C, a real ASCII locale) (props/c07enc.py): stdout must decode in the stream's encoding and parse, a written cache file must "
                "be JSON; encode tie: Lean OutEnc.dumpStr / writable vs CPython json + codecs vs the real serialise()")
    rng = random.Random(seed)
    n_projects = 400 if tier == "quick" else 2400
    n_sweep = 60 if tier == "quick" else 400
    n_fn_modules = 70 if tier == "quick" else 500
    n_file_modules = 36 if tier == "quick" else 400
    model = common.Model()
    t_run0 = time.time()
    tmp = Path(tempfile.mkdtemp(prefix="rattr-c07-"))
    tie_thread = None
    try:
        cases = []
        for c in corpus():
            cases.append(dict(c, kind="corpus"))
        fatal_rows = fatal_site_corpus()
        for c in fatal_rows:
            cases.append(dict(c, kind="fatalsite", expect=None, tags=[]))      # before the random part: deterministic replays
        # round 3: every output mode x degenerate module texts at every place; file-system shapes (own generator state,
        # so the random projects below are the same as before for a given seed)
        rng3 = random.Random(seed * 7919 + 3)
        for c in c07shapes.degenerate_corpus(rng3, tier) + c07shapes.fs_shape_corpus(rng3, tier):
            cases.append(dict(c, expect=None))
        # round 4: definitions at every module-level block position x place; the output side (documents x text x environment)
        rng4 = random.Random(seed * 7919 + 4)
        for c in c07blocks.block_corpus(rng4, tier) + c07enc.encoding_corpus(rng4, tier):
            cases.append(dict(c, expect=None))
        for i in range(n_projects):
            p = c07gen.gen_project(rng, hostile=0.1)
            cases.append(dict(p, kind="generated", row=None))
        # option sweep on a fixed, benign project (every option value at least once, then random combinations)
        sweep_files = dict(c07gen.PACKAGE)
        sweep_files["target.py"] = ("import mod\nfrom pkg.sub import f_sub, SubCls\nimport os\nfrom os import path\n"
                                    "def top(a, b):\n    x = SubCls(a)\n    return mod.mod_fn(b).r + f_sub(a).s\n"
                                    "def warn(a):\n    def inner():\n        pass\n    return undefined_name.q + a.w\n"
                                    "class K:\n    def __init__(self, v):\n        self.v = v.kv\n")
        singles = [["-f", "0"], ["-f", "1"], ["--strict"], ["--threshold", "0"], ["--threshold", "3"], ["--threshold", "1000"]]
        singles += [["-o", k] for k in ("stats", "ir", "results", "cacheable", "silent")]
        singles += [["-w", k] for k in ("none", "local", "default", "all")]
        singles += [["-H"], ["-T"], ["-H", "-T"], ["-x", "top"], ["-x", "K"], ["-F", "mod"], ["-F", "pkg.*"], ["-C", "c.json"], ["-C", "c.json", "-r"],
                    ["-C", "sub/dir/c.json", "-o", "cacheable"], ["-f", "0", "-o", "ir", "-w", "all", "--strict"]]
        for o in singles:
            cases.append({"kind": "sweep", "row": None, "expect": None, "files": sweep_files, "target": "target.py", "opts": o, "tags": []})
        for i in range(max(0, n_sweep - len(singles))):
            cases.append({"kind": "sweep", "row": None, "expect": None, "files": sweep_files, "target": "target.py",
                          "opts": c07gen.gen_options(rng), "tags": []})
        # follow levels 2 / 3: a small sample only (site-packages / stdlib contents crash: K8)
        for lv, imp in (("2", "import attrs\n"), ("3", "import keyword\n"), ("2", "import os\n")):
            cases.append({"kind": "follow23", "row": None, "expect": None, "files": {"target.py": imp + F1}, "target": "target.py",
                          "opts": ["-f", lv], "tags": []})

        # the in-process ties (model vs real stages; one core, no subprocess of rattr) run in a thread of their own while
        # the CLI cases run in WORKERS subprocesses: every random draw of the CLI part has been made above, `rng` belongs to
        # the ties from here on; the ties fill their own Result (merged below), chdir only inside impl.in_dir (the CLI
        # runner uses absolute paths and an explicit cwd for every child)
        tie_res = common.Result(PID)
        tie_failure = []
        phases = {}

        def run_ties():
            try:
                for name, fn in (("function_tie", lambda: function_tie(rng, n_fn_modules, tie_res, model)),
                                 ("file_tie", lambda: file_tie(rng, n_file_modules, tie_res, model)),
                                 ("round3_tie", lambda: c07shapes.tie(random.Random(seed * 7919 + 5), tier, tie_res, model, tie_tmp, materialise)),
                                 ("encode_tie", lambda: c07enc.encode_tie(random.Random(seed * 7919 + 6), tier, tie_res, model))):
                    w0 = time.time()
                    fn()
                    phases[name] = {"wall_s": round(time.time() - w0, 1)}
            except BaseException as e:  # noqa: BLE001 — re-raised in the main thread
                tie_failure.append(e)

        tie_tmp = Path(tempfile.mkdtemp(prefix="ties-", dir=tmp))
        tie_thread = threading.Thread(target=run_ties, name="c07-ties")
        tie_thread.start()
        with ThreadPoolExecutor(max_workers=WORKERS) as ex:
            outs = list(ex.map(lambda c: run_cli(tmp, c), cases))
            attributions = list(ex.map(lambda c: run_cli(tmp, dict(c, fatal_wrapper=True)), fatal_rows))

        slowest = 0.0
        # ---- wall-clock timeouts are suspicions: confirm each alone (CPU-time based), at most MAX_CONFIRMED_TIMEOUTS long waits
        confirmed_sigs, unconfirmed = {}, []
        for i, (c, o) in enumerate(zip(cases, outs)):
            if not o[3]:
                continue
            first_sig = classify(*o[:4], c["opts"])[1]
            if len(confirmed_sigs) >= MAX_CONFIRMED_TIMEOUTS and first_sig not in confirmed_sigs:
                unconfirmed.append((i, first_sig))
                continue
            if first_sig in confirmed_sigs:
                unconfirmed.append((i, first_sig))         # same place as a confirmed hang: reported under it, no second long wait
                continue
            r = confirm_timeout(tmp, c)
            if r[0] == "finished":
                outs[i] = (r[1], r[2], r[3], False, o[4])  # it was only slow: judge the finished run
                res.count("timeout:first-pass-only(finished-when-run-alone)")
            else:
                outs[i] = (None, o[1], r[3], True, o[4])
                sig = classify(None, o[1], r[3], True, c["opts"])[1]
                confirmed_sigs[sig] = {"cpu_s": r[1], "wall_s": r[2], "row": c.get("row")}
                if sig != first_sig:
                    confirmed_sigs.setdefault(first_sig, confirmed_sigs[sig])
        res.extra["confirmed_timeouts"] = confirmed_sigs
        res.extra["unconfirmed_timeouts"] = [{"row": cases[i].get("row"), "first_pass_signature": sg, "opts": cases[i]["opts"]} for i, sg in unconfirmed][:40]
        unconfirmed_idx = {i for i, _ in unconfirmed}
        verdicts = [classify(rc, out, err, to, c["opts"]) for c, (rc, out, err, to, dt) in zip(cases, outs)]
        for i in unconfirmed_idx:
            # never a violation by itself; listed in evidence (and, when a confirmed hang exists, they are its further witnesses)
            verdicts[i] = ("unconfirmed-timeout", None, "")
        # the two `assert module_name == confirmed_module_name` sites: say which relative import it was
        need = [i for i, v in enumerate(verdicts) if v[1] in ASSERT_SIGS]
        with ThreadPoolExecutor(max_workers=WORKERS) as ex:
            classes = list(ex.map(lambda i: relative_import_class(tmp, cases[i]), need))
        for i, k in zip(need, classes):
            verdicts[i] = (verdicts[i][0], f"{verdicts[i][1]}[{k}]", verdicts[i][2])
            res.count("relative-import-class:" + k)
        # the two families whose cause is not in the traceback (ImportError of resolve_import, ValueError of the relative-
        # import visitors): a diagnostic run says which module / file it was, independent facts say which class
        need = [i for i, v in enumerate(verdicts) if v[1] in c07shapes.REFINED]
        with ThreadPoolExecutor(max_workers=WORKERS) as ex:
            refined = list(ex.map(lambda i: c07shapes.refine(run_cli, tmp, cases[i], verdicts[i][1]), need))
        for i, sg in zip(need, refined):
            verdicts[i] = (verdicts[i][0], sg, verdicts[i][2])
            res.count("refined:" + sg.split(":", 2)[-1])
        # the K11 family (`ClassAnalyser.symbol`: the class has no Class symbol): WHY is read off the project source
        for i, v in enumerate(verdicts):
            if v[1] is not None and v[1].startswith(c07blocks.K11_PREFIX):
                verdicts[i] = (v[0], c07blocks.refine_k11(v[1], cases[i], v[2], c07shapes._file_text), v[2])
                res.count("refined:" + verdicts[i][1].split(":", 2)[-1])
        # ---- a would-be VIOLATION (signature not among the known findings) must reproduce: the tree under test or the
        # machine may have been disturbed while that one subprocess ran (seen once: rattr failed to import itself while
        # another process was rewriting the checkout). Re-run such cases; report only what recurs.
        known_sigs = {f["signature"] for f in common.load_findings(PID) if f.get("status", "known") == "known"}

        def judge_again(i, delay):
            time.sleep(delay)
            o = run_cli(tmp, cases[i])
            v = classify(*o[:4], cases[i]["opts"])
            if v[1] in ASSERT_SIGS:
                v = (v[0], f"{v[1]}[{relative_import_class(tmp, cases[i])}]", v[2])
            if v[1] in c07shapes.REFINED:
                v = (v[0], c07shapes.refine(run_cli, tmp, cases[i], v[1]), v[2])
            if v[1] is not None and v[1].startswith(c07blocks.K11_PREFIX):
                v = (v[0], c07blocks.refine_k11(v[1], cases[i], v[2], c07shapes._file_text), v[2])
            return o, v

        suspects = [i for i, v in enumerate(verdicts) if v[1] is not None and v[1] not in known_sigs and v[0] != "timeout"
                    and not cases[i].get("usage")]
        unreproduced = []
        if suspects:
            with ThreadPoolExecutor(max_workers=WORKERS) as ex:
                second = list(ex.map(lambda i: judge_again(i, 1.0), suspects))
            for i, (o2, v2) in zip(suspects, second):
                if v2[1] == verdicts[i][1]:
                    continue                                   # reproduced
                o3, v3 = judge_again(i, 3.0)
                if v3[1] == verdicts[i][1]:
                    continue
                unreproduced.append({"row": cases[i].get("row"), "opts": cases[i]["opts"], "first": verdicts[i][1], "second": v2[1] or v2[0],
                                     "third": v3[1] or v3[0], "first_detail": verdicts[i][2][-400:]})
                if v2[1] == v3[1]:
                    outs[i], verdicts[i] = o3, v3               # the stable verdict
                else:
                    verdicts[i] = ("unstable", None, "")
        res.extra["unreproduced_candidates"] = unreproduced[:20]
        for c, (rc, out, err, to, dt), (cls, sig, detail) in zip(cases, outs, verdicts):
            res.evaluations += 1
            slowest = max(slowest, dt)
            if c.get("usage"):
                # argparse's own exits (usage error / --help): outside the oracle [interp], run for site coverage
                if "usage:" in (out + err):
                    cls, sig, detail = "usage", None, ""
                else:
                    sig = sig or f"other:usage-row-exit{rc}"
            elif c["kind"] == "fatalsite" and not c.get("not_fatal"):
                res.count("fatal-row:" + ("exit1+fatal-line" if cls == "exit1:diagnostic" and detail.startswith("fatal:") else cls))
            if c.get("expect_fatal") and sig is None:
                # a pinned row: exit 1 and a fatal: line carrying the pinned text (stderr; K25 prints its results first)
                lines_ = [l for l in ANSI.sub("", err).splitlines() if l.startswith("fatal:")]
                if not (rc == 1 and lines_ and c["expect_fatal"] in lines_[-1]):
                    sig = f"other:pinned-row-not-fatal[{c['expect_fatal']}]:{cls}"
                    detail = (ANSI.sub("", err)[-300:] or out[-200:])
                res.count("pinned-fatal-row:" + ("as-pinned" if sig is None else "DEVIATES"))
            res.count(f"{c['kind']}:{cls.split(':')[0]}")
            res.count("class:" + cls)
            for t in c.get("tags") or []:
                res.count("tag:" + t)
            for i, o in enumerate(c["opts"]):
                if o.startswith("-"):
                    v = c["opts"][i + 1] if o in ("-f", "-o", "-w") and i + 1 < len(c["opts"]) else ""
                    res.count("opt:" + o + (("=" + v) if v else ""))
            small = {"target": c["target"], "opts": c["opts"], "row": c.get("row"),
                     "files": c["files"]}
            for k in ("cwd", "pre_runs", "env", "stdout_encoding", "cache_check"):
                if c.get(k):
                    small[k] = c[k]
            if cls != "exit0:results" or c["kind"] == "corpus":
                res.nontrivial.add(common.digest([c["files"].get(c["target"]), c["opts"]]))
            if sig is not None:
                res.count("verdict:" + sig)
                v = {"signature": sig, "case": small, "detail": detail[-1200:], "exit": rc}
                if cls == "timeout":
                    v["confirmation"] = confirmed_sigs.get(sig)
                    v["further_timed_out_rows"] = [cases[i].get("row") for i, _ in unconfirmed][:40]
                res.violations.append(v)
            if c["kind"] == "corpus" and c["row"].startswith("control") and sig is not None:
                res.internal_errors.append({"what": "control case is not in a sanctioned class", "row": c["row"], "sig": sig})
            if c["kind"] == "corpus":
                res.sample({"row": c["row"], "opts": c["opts"], "class": cls, "signature": sig}, cap=40)
        # ---- fatal-site coverage (sites recomputed from the source under test on every run)
        sites = scan_fatal_sites()
        reached = {}
        for c, (rc, out, err, to, dt) in zip(fatal_rows, attributions):
            for m in re.finditer(r"^C07-(?:FATAL-CALL|EXIT) (\S+):(\d+)$", err, re.M):
                f, ln = m.group(1), int(m.group(2))
                for st in sites:
                    if st["file"] == f and st["lo"] <= ln <= st["hi"] and (st["kind"] != "ref:error.fatal" or True):
                        if st["kind"] == "ref:error.fatal" and any(o["file"] == f and o["lo"] <= ln <= o["hi"] and o is not st
                                                                   and o["kind"] != "ref:error.fatal" for o in sites):
                            continue
                        reached.setdefault(st["id"], []).append(c["row"])
        unreached = []
        for st in sites:
            res.count("fatal-site:" + ("reached" if st["id"] in reached else "unreached"))
            if st["id"] not in reached:
                why = next((w for f, frag, w in UNREACHABLE_FATAL if st["file"] == f and (frag in st["fn"] or frag in st["msg"])),
                           "no corpus row reaches it (new or unclassified site)")
                unreached.append({"site": st["id"], "line": st["lo"], "reason": why})
        res.extra["fatal_sites_total"] = len(sites)
        res.extra["fatal_sites_reached"] = len(reached)
        res.extra["fatal_site_coverage"] = f"{len(reached)}/{len(sites)}"
        res.extra["unreached_fatal_sites"] = unreached
        res.extra["fatal_sites"] = {k: sorted(set(v))[:4] for k, v in sorted(reached.items())}
        res.extra["slowest_run_s"] = round(slowest, 2)
        res.extra["cli_runs"] = len(cases)

        phases["cli_wall_s"] = round(time.time() - t_run0, 1)
        tie_thread.join()
        if tie_failure:
            raise tie_failure[0]
        # merge what the in-process ties found (they ran beside the CLI subprocesses, on a Result of their own)
        res.evaluations += tie_res.evaluations
        res.nontrivial |= tie_res.nontrivial
        res.skipped_outside_fragment += tie_res.skipped_outside_fragment
        for k, v in tie_res.distribution.items():
            res.count(k, v)
        res.disagreements.extend(tie_res.disagreements)
        res.internal_errors.extend(tie_res.internal_errors)
        res.samples.extend(tie_res.samples)
        res.extra.update(tie_res.extra)
        phases["total_wall_s"] = round(time.time() - t_run0, 1)
        res.extra["phases"] = phases
    finally:
        if tie_thread is not None:
            tie_thread.join()
        shutil.rmtree(tmp, ignore_errors=True)
    res.assumptions = [
        "[interp] an option VALUE that argparse rejects (exit 2, usage message) is outside the quantifier; only accepted combinations are generated",
        "[interp] an invalid regular expression given to -x / -F is inside the quantifier (the option accepts any string); it is exercised by the corpus only",
        "[interp] a cache hit (exit 0, nothing printed) counts as a sanctioned outcome",
        "a case whose signature is not a known finding is re-run (up to twice) and reported only if the signature recurs; unreproduced ones are listed in evidence (`unreproduced_candidates`)",
        "a 30 s wall-clock timeout is only a suspicion: the case is re-run alone and reported as a hang only after >= 60 s of its own CPU time (or 240 s wall) without finishing; at most 2 such confirmations per run, further timed-out rows are listed as unconfirmed and are never violations by themselves",
        "interpreter resource limits (RecursionError on ~1000-deep expressions, memory) and the contents of real site-packages / stdlib at follow levels 2-3 are outside the claim (sampled only)",
        "the crash-freedom theorems cover the function analyser (C07_fn_no_crash_partial, sane root contexts) and the single-file pipeline up to result generation (C07_file_no_crash_partial: root-context builder, file / class analysers; result generation is covered under the condition ResultsSafe on the FileIr: C07_results_no_crash_partial, C07_pipeline_no_crash_partial); import following, the cache and the CLI are covered by the raise-site table (Tie A) and this CLI sweep",
        "[interp] a project containing symbolic links (also dangling ones and loops) is a valid input: the target is a syntactically valid module, and an import that cannot be followed must end in rattr's own diagnostic",
        "the ImportError of resolve_import and the ValueError of the relative-import visitors are signed by cause: a second run prints the raising frame's locals (module name, keys of import_irs, current file); the class is then decided by facts rattr does not compute (origin path and real path of each module by a plain directory walk of sys.path, the import statements of the project files by ast, Python's identifier rule)",
        "show_stats divides by the sum of five perf_counter differences; that the sum is not 0.0 is an assumption of C07_show_stats_no_crash (the first timer spans opening and reading the target)",
        "[interp] the environment of the process (PYTHONIOENCODING, locale) is part of 'every option combination' in the wide reading: a stdout that cannot carry a character is a configuration a user can be in; rattr must then still end with well-formed output or its own diagnostic (K26 is the one place where it does not)",
        "the signature family `unhandled:ValueError:ClassAnalyser.symbol@<visitor>` is refined by cause read off the project SOURCE: the class named in the message, the chain of enclosing block kinds of its definition (collapsed to `within:match-case` / `within:try-except-star` below such a block — the two findings K11m / K11t, fixed in /repo 6e8e4cc: the signatures are kept so that an older tree or a regression reports them — and spelled out in full everywhere else) and what else binds its name",
        "(v) module tie: the Lean predicates NoCrashShapeFile / NoCrashShapePipeline on every generated single-file module vs the real stages run in-process: NoCrashShapeFile => the real compile_root_context and FileAnalyser do not raise and rattr.__main__.main raises at most ValueError / ImportError; NoCrashShapePipeline => rattr.__main__.main does not raise at all; a failure of either implication is reported as a disagreement (model error)",
    ]
    return res


def replay(path):
    j = json.load(open(path))
    case = j.get("case")
    if not case or "files" not in case:
        print(json.dumps(j, indent=1)[:5000])
        return 0
    tmp = Path(tempfile.mkdtemp(prefix="rattr-c07-replay-"))
    try:
        c = {"files": case["files"], "opts": case["opts"], "target": case["target"], "cwd": case.get("cwd"), "pre_runs": case.get("pre_runs"),
             "env": case.get("env"), "stdout_encoding": case.get("stdout_encoding"), "cache_check": case.get("cache_check")}
        rc, out, err, to, dt = run_cli(tmp, c)
        cls, sig, detail = classify(rc, out, err, to, case["opts"])
        if sig in c07shapes.REFINED:
            sig = c07shapes.refine(run_cli, tmp, c, sig)
        if sig is not None and sig.startswith(c07blocks.K11_PREFIX):
            sig = c07blocks.refine_k11(sig, c, detail, c07shapes._file_text)
        print(json.dumps({"exit": rc, "class": cls, "signature": sig, "stderr_tail": ANSI.sub("", err)[-1500:], "stdout_head": out[:300]}, indent=1))
    finally:
        shutil.rmtree(tmp, ignore_errors=True)
    return 0

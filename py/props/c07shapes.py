"""C07, round 3 — "under every option combination" x degenerate inputs, and file-system shapes.

(1) `degenerate_corpus`: every output mode (`-o stats | ir | results | cacheable | silent`, `-C cache`, a second run
    on an existing cache, `-f 0`) crossed with degenerate module texts (empty file, whitespace / comment only, only a
    docstring, a single `pass`, only imports, zero functions, no final newline, CRLF, form feed, ...) placed as the
    target, as a followed import (plain / from / star), as a package `__init__`, as the `__init__` given as target,
    and behind a module that only imports.
(2) `fs_shape_corpus`: module files and directories that are symlinks (to another imported module, to a file outside
    the project, dangling, loops, chains, `__init__.py` a link), hard links, two names for one file without any link
    (`pkg` / `pkg.__init__`), the target itself a link / a directory / spelled `./x.py`, `sub/../x.py`, outside the
    module search path — each with calls made through every name, in several import orders and forms.
(3) `refine`: the two signature families whose cause cannot be read off the traceback are classified by a second,
    diagnostic run (CRASH_WRAPPER prints the locals of the raising frame) judged by facts rattr does not compute:
      unhandled:ImportError:resolve_import@generate_results_from_ir[<class>]
          module-unresolved                  Import.module_name is None (K10: the module does not exist, -F lets it pass)
          same-origin-under-another-name     a key of import_irs has the SAME origin path (K: `pkg` / `pkg.__init__`)
          same-real-file-under-another-name  a key of import_irs has another origin path but the same REAL file (symlink)
          module-not-imported-by-any-statement   no import statement of the project names the module (K9: `pkg.sub.f()`)
          imported-module-without-ir         none of the above
      unhandled:ValueError:RootContextBuilder.visit_[starred_]relative_import[<class>]           (K23)
          file-outside-module-search-path / file-path-not-a-module-path / unexplained
      unhandled:ValueError:unbind_name@<stage>[<class>]                                          (K22)
          parameter-named-like-an-attribute-builtin (the known cause) / no-parameter-named-like-an-attribute-builtin
(4) `tie`: in-process Tie B for lean/RattrModel/Stats.lean and the `import_irs` theorems of Props/C07.lean (driver op
    `c07_run`): `read`'s line count, `show_stats` on a grid of RattrStats, and on whole projects the keys of
    `import_irs`, the four integer fields of RattrStats, the outcome of the output stage and the verdict of
    `resolve_import` for every import statement.
"""
from __future__ import annotations

import ast
import contextlib
import io
import json
import os
import posixpath
import re
import shutil
import tempfile
from pathlib import Path

import common

F_OK = "def f(x):\n    return x.y\n"

# ------------------------------------------------------------------------------------ (1) degenerate inputs

DEGENERATE = {
    "empty": "",
    "newline": "\n",
    "whitespace": "   \n\t\n  ",
    "comment": "# only a comment\n",
    "comment-no-newline": "# c",
    "docstring": '"""Only a docstring."""\n',
    "pass": "pass\n",
    "pass-no-newline": "pass",
    "ellipsis": "...\n",
    "crlf": "\r\n\r\n",
    "cr-only": "pass\rpass\r",
    "formfeed": "\x0c\n",
    "imports-only": "import os\nimport sys\nfrom json import dumps\n",
    "future-only": "from __future__ import annotations\n",
    "zero-functions": "x = 1\ny = x\n__all__ = []\n",
    "class-only": "class K:\n    pass\n",
    "if-main": "if __name__ == '__main__':\n    pass\n",
    "semicolons": "pass; pass\n",
}
KEY_DEGENERATE = ["empty", "newline", "comment", "docstring", "pass", "imports-only", "whitespace", "pass-no-newline"]
MUST = ["empty", "whitespace", "comment", "imports-only", "docstring", "pass", "zero-functions", "newline", "pass-no-newline"]

MODES = {
    "stats": ["-o", "stats"], "ir": ["-o", "ir"], "results": ["-o", "results"], "cacheable": ["-o", "cacheable"],
    "silent": ["-o", "silent"], "cache": ["-C", "cache.json"],
    "cache+stats": ["-C", "cache.json", "-o", "stats"], "cache-refresh": ["-C", "cache.json", "-r", "-o", "cacheable"],
    "f0+stats": ["-f", "0", "-o", "stats"], "f0+ir": ["-f", "0", "-o", "ir"], "strict+stats": ["--strict", "-o", "stats"],
    "wnone+stats": ["-w", "none", "-o", "stats"], "threshold+stats": ["--threshold", "1", "-o", "stats"],
}
CORE_MODES = ["stats", "ir", "results", "cacheable", "silent", "cache"]


def _place(kind, text):
    """-> (files, target) with the degenerate `text` at the given place."""
    if kind == "target":
        return {"target.py": text}, "target.py"
    if kind == "followed":
        return {"lib.py": text, "target.py": "import lib\ndef main(a):\n    return lib.f(a)\n"}, "target.py"
    if kind == "followed-from":
        return {"lib.py": text, "target.py": "from lib import f\ndef main(a):\n    return f(a)\n"}, "target.py"
    if kind == "followed-star":
        return {"lib.py": text, "target.py": "from lib import *\ndef main(a):\n    return f(a)\n"}, "target.py"
    if kind == "package-init":
        return {"pkg/__init__.py": text, "pkg/sub.py": "def g(x):\n    return x.y\n",
                "target.py": "import pkg\nfrom pkg import sub\nfrom pkg.sub import g\ndef main(a):\n    return sub.g(a) + pkg.h(a) + g(a)\n"}, "target.py"
    if kind == "init-as-target":
        return {"pkg/__init__.py": text, "pkg/sub.py": "def g(x):\n    return x.y\n"}, "pkg/__init__.py"
    if kind == "behind-imports-only":
        return {"target.py": "import mid\n", "mid.py": "import lib\nfrom lib import *\n", "lib.py": text}, "target.py"
    if kind == "everywhere":
        return {"target.py": text, "lib.py": text, "pkg/__init__.py": text}, "target.py"
    raise ValueError(kind)


PLACES = ["target", "followed", "followed-from", "followed-star", "package-init", "init-as-target", "behind-imports-only"]


def degenerate_corpus(rng, tier):
    out = []

    def add(place, dk, mk, pre_runs=0):
        files, target = _place(place, DEGENERATE[dk])
        out.append({"row": f"degenerate:{place}:{dk}:{mk}" + (f":run{pre_runs + 1}" if pre_runs else ""), "files": files, "target": target,
                    "opts": list(MODES[mk]), "pre_runs": pre_runs, "kind": "degenerate", "tags": [f"degenerate:{dk}", f"place:{place}", f"mode:{mk}"]})

    if tier != "quick":
        for place in PLACES + ["everywhere"]:
            for dk in DEGENERATE:
                for mk in MODES:
                    add(place, dk, mk)
                add(place, dk, "cache", pre_runs=1)
        return out
    # quick: the listed degenerate texts x every output mode as the target (full cross); the same texts as a followed
    # import under `stats` and two further modes drawn per text; four of them at every other place under `stats` and one
    # drawn mode; the remaining texts as the target under `stats` and one drawn mode; second runs on an existing cache;
    # the further mode combinations on the empty target and one drawn text. (thorough: the full cross.)
    extra = [m for m in MODES if m not in CORE_MODES]
    others = [m for m in CORE_MODES if m != "stats"] + extra
    for dk in MUST:
        for mk in CORE_MODES:
            add("target", dk, mk)
        add("followed", dk, "stats")
        for mk in rng.sample(others, 2):
            add("followed", dk, mk)
    for place in PLACES[2:]:
        for dk in ("empty", "comment", "pass", "imports-only"):
            add(place, dk, "stats")
            add(place, dk, rng.choice(others))
    for dk in DEGENERATE:
        if dk not in MUST:
            add("target", dk, "stats")
            add("target", dk, rng.choice(others))
    for dk in ("empty", "comment", "pass", "imports-only"):
        add("target", dk, "cache", pre_runs=1)
        add(rng.choice(PLACES[1:]), dk, "cache", pre_runs=1)
    for mk in extra:
        for dk in ("empty", rng.choice(MUST[1:])):
            add("target", dk, mk)
    add("everywhere", "empty", "stats")
    add("everywhere", "empty", "ir")
    return out


# ------------------------------------------------------------------------------------ (2) file-system shapes

IMPL = "def read_name(record):\n    return record.name\n\n\ndef read_size(record):\n    return record.size\n"
LNK = lambda to: {"symlink": to}  # noqa: E731


def _use(first, second, form):
    """target importing modules `first` then `second` (both expose read_name / read_size), calling through each."""
    if form == "import":
        return (f"import {first}\nimport {second}\n\n\ndef direct(t):\n    return {first}.read_name(t)\n\n\n"
                f"def via(t):\n    return {second}.read_size(t)\n")
    if form == "from":
        return (f"from {first} import read_name\nfrom {second} import read_size\n\n\ndef direct(t):\n    return read_name(t)\n\n\n"
                f"def via(t):\n    return read_size(t)\n")
    if form == "as":
        return (f"import {first} as one\nimport {second} as two\n\n\ndef direct(t):\n    return one.read_name(t)\n\n\n"
                f"def via(t):\n    return two.read_size(t)\n")
    if form == "from-as":
        return (f"from {first} import read_name as rn\nfrom {second} import read_size as rs\n\n\ndef direct(t):\n    return rn(t)\n\n\n"
                f"def via(t):\n    return rs(t)\n")
    raise ValueError(form)


def fs_shape_corpus(rng, tier):
    rows = []

    def add(name, files, target="target.py", opts=(), cwd=None, **kw):
        rows.append(dict({"row": f"fs:{name}", "files": files, "target": target, "opts": list(opts), "kind": "fsshape",
                          "tags": ["fs:" + name.split(":")[0]]}, **({"cwd": cwd} if cwd else {}), **kw))

    forms = ["import", "from", "as", "from-as"]
    # --- a module file that is a symlink to another imported module file: both orders, every import form, direct and
    # behind a followed module, the link one / two hops long, a hard link and a copy as controls
    for form in forms:
        for first, second in (("impl", "compat"), ("compat", "impl")):
            add(f"link-to-imported-module:{form}:{first}-first", {"impl.py": IMPL, "compat.py": LNK("impl.py"), "target.py": _use(first, second, form)})
    add("link-to-imported-module:ir", {"impl.py": IMPL, "compat.py": LNK("impl.py"), "target.py": _use("impl", "compat", "import")}, opts=["-o", "ir"])
    add("link-to-imported-module:f0", {"impl.py": IMPL, "compat.py": LNK("impl.py"), "target.py": _use("impl", "compat", "import")}, opts=["-f", "0"])
    add("link-to-imported-module:cache", {"impl.py": IMPL, "compat.py": LNK("impl.py"), "target.py": _use("impl", "compat", "from")}, opts=["-C", "c.json"], pre_runs=1)
    add("link-chain", {"impl.py": IMPL, "mid.py": LNK("impl.py"), "compat.py": LNK("mid.py"), "target.py": _use("impl", "compat", "import")})
    add("link-chain:all-three", {"impl.py": IMPL, "mid.py": LNK("impl.py"), "compat.py": LNK("mid.py"),
                                 "target.py": "import compat\nimport mid\nimport impl\ndef f(t):\n    return compat.read_name(t) + mid.read_name(t) + impl.read_size(t)\n"})
    add("hardlink", {"impl.py": IMPL, "compat.py": {"hardlink": "impl.py"}, "target.py": _use("impl", "compat", "import")})
    add("copy", {"impl.py": IMPL, "compat.py": IMPL, "target.py": _use("impl", "compat", "import")})
    add("link-behind-followed", {"impl.py": IMPL, "compat.py": LNK("impl.py"), "lib.py": _use("impl", "compat", "import"),
                                 "target.py": "import lib\ndef main(t):\n    return lib.direct(t) + lib.via(t)\n"})
    add("link-behind-followed:alias-first", {"impl.py": IMPL, "compat.py": LNK("impl.py"), "lib.py": _use("compat", "impl", "from"),
                                             "target.py": "from lib import direct, via\nimport impl\ndef main(t):\n    return direct(t) + via(t) + impl.read_name(t)\n"})
    add("link-target-imports-alias-only", {"impl.py": IMPL, "compat.py": LNK("impl.py"), "lib.py": "import impl\ndef g(t):\n    return impl.read_name(t)\n",
                                           "target.py": "import lib\nimport compat\ndef main(t):\n    return lib.g(t) + compat.read_size(t)\n"})
    # --- links inside a package, relative imports through the alias
    pk = {"pkg/__init__.py": "", "pkg/impl.py": IMPL, "pkg/alias.py": LNK("impl.py")}
    add("link-in-package:absolute", dict(pk, **{"target.py": _use("pkg.impl", "pkg.alias", "import")}))
    add("link-in-package:from-package", dict(pk, **{"target.py": "from pkg import impl, alias\ndef f(t):\n    return impl.read_name(t) + alias.read_size(t)\n"}))
    add("link-in-package:relative", dict(pk, **{"pkg/user.py": "from .impl import read_name\nfrom .alias import read_size\nfrom . import alias\n"
                                                "def f(t):\n    return read_name(t) + read_size(t) + alias.read_name(t)\n",
                                                "target.py": "from pkg.user import f\ndef main(t):\n    return f(t)\n"}))
    add("link-in-package:relative-as-target", dict(pk, **{"pkg/user.py": "from .impl import read_name\nfrom .alias import read_size\n"
                                                          "def f(t):\n    return read_name(t) + read_size(t)\n"}), target="pkg/user.py")
    add("init-is-a-link", {"pkg/__init__.py": LNK("core.py"), "pkg/core.py": IMPL,
                           "target.py": "import pkg\nimport pkg.core\ndef g(a):\n    return pkg.read_name(a) + pkg.core.read_size(a)\n"})
    add("init-is-a-link:core-first", {"pkg/__init__.py": LNK("core.py"), "pkg/core.py": IMPL,
                                      "target.py": "import pkg.core\nimport pkg\ndef g(a):\n    return pkg.core.read_size(a) + pkg.read_name(a)\n"})
    # --- link to a file outside the project, dangling link, link loops
    add("link-outside-project", {"proj/target.py": "import ext\nfrom ext import read_size\ndef f(a):\n    return ext.read_name(a) + read_size(a)\n",
                                 "outside/ext_real.py": IMPL, "proj/ext.py": LNK("../outside/ext_real.py")}, cwd="proj")
    add("link-outside-project:twice", {"proj/target.py": _use("ext", "ext2", "import"), "outside/ext_real.py": IMPL,
                                       "proj/ext.py": LNK("../outside/ext_real.py"), "proj/ext2.py": LNK("../outside/ext_real.py")}, cwd="proj")
    for form, stmt, call in (("import", "import gone", "gone.g(a)"), ("from", "from gone import g", "g(a)"), ("star", "from gone import *", "g(a)")):
        add(f"dangling-link:{form}", {"target.py": f"{stmt}\ndef f(a):\n    return {call}\n", "gone.py": LNK("nowhere.py")})
        add(f"link-loop:{form}", {"target.py": f"{stmt}\ndef f(a):\n    return {call}\n", "gone.py": LNK("gone2.py"), "gone2.py": LNK("gone.py")})
        add(f"self-link:{form}", {"target.py": f"{stmt}\ndef f(a):\n    return {call}\n", "gone.py": LNK("gone.py")})
    add("dangling-link:excluded", {"target.py": "import gone\ndef f(a):\n    return gone.g(a)\n", "gone.py": LNK("nowhere.py")}, opts=["-F", "gone"])
    add("dangling-link:in-followed", {"target.py": "import lib\ndef f(a):\n    return lib.h(a)\n", "lib.py": "import gone\ndef h(a):\n    return gone.g(a)\n",
                                      "gone.py": LNK("nowhere.py")})
    # --- directories that are links
    dpk = {"pk/__init__.py": "", "pk/s.py": "def g(x):\n    return x.y\n", "lnk": LNK("pk")}
    add("dir-link", dict(dpk, **{"target.py": "import pk.s\nimport lnk.s\ndef f(a):\n    return pk.s.g(a) + lnk.s.g(a)\n"}))
    add("dir-link:from", dict(dpk, **{"target.py": "from pk.s import g\nfrom lnk.s import g as g2\nfrom lnk import s\ndef f(a):\n    return g(a) + g2(a) + s.g(a)\n"}))
    add("dir-link:alias-first", dict(dpk, **{"target.py": "from lnk.s import g as g2\nfrom pk.s import g\ndef f(a):\n    return g2(a) + g(a)\n"}))
    add("dir-link:target-inside", dict(dpk, **{"pk/t.py": "from .s import g\nfrom lnk.s import g as g2\ndef f(a):\n    return g(a) + g2(a)\n"}), target="lnk/t.py")
    add("dir-link:outside", {"proj/target.py": "from vendored.s import g\nimport vendored\ndef f(a):\n    return g(a) + vendored.s.g(a)\n",
                             "outside/pk/__init__.py": "", "outside/pk/s.py": "def g(x):\n    return x.y\n", "proj/vendored": LNK("../outside/pk")}, cwd="proj")
    add("dir-self-link", {"pk/__init__.py": "", "pk/s.py": "def g(x):\n    return x.y\n", "pk/me": LNK("."),
                          "target.py": "import pk.s\nimport pk.me.s\nimport pk.me.me.s\ndef f(a):\n    return pk.s.g(a) + pk.me.s.g(a) + pk.me.me.s.g(a)\n"})
    add("dir-self-link:from", {"pk/__init__.py": "", "pk/s.py": "def g(x):\n    return x.y\n", "pk/me": LNK("."),
                               "target.py": "from pk.s import g\nfrom pk.me.s import g as g1\nfrom pk.me.me.s import g as g2\ndef f(a):\n    return g(a) + g1(a) + g2(a)\n"})
    for form, stmt, call in (("import", "import dl.s", "dl.s.g(a)"), ("from", "from dl.s import g", "g(a)"), ("top", "import dl", "dl.g(a)"),
                             ("star", "from dl import *", "g(a)")):
        add(f"dir-link-loop:{form}", {"target.py": f"{stmt}\ndef f(a):\n    return {call}\n", "dl": LNK("dl2"), "dl2": LNK("dl")})
    add("dir-link-loop:unrelated", {"target.py": "import lib\ndef f(a):\n    return lib.f(a)\n", "lib.py": F_OK, "dl": LNK("dl2"), "dl2": LNK("dl")})
    add("dir-link-loop:in-followed", {"target.py": "import lib\ndef f(a):\n    return lib.h(a)\n", "lib.py": "import dl.s\ndef h(a):\n    return dl.s.g(a)\n",
                                      "dl": LNK("dl2"), "dl2": LNK("dl")})
    add("dir-link-loop:call-only", {"target.py": "import os\ndef f(a):\n    return dl.s.g(a)\n", "dl": LNK("dl2"), "dl2": LNK("dl")})
    add("dir-dangling-link", {"target.py": "import dd.s\ndef f(a):\n    return dd.s.g(a)\n", "dd": LNK("nowhere")})
    # --- `from X import *` cycles whose modules are reached through links (round 5, seeded C07-m13): the star-expansion
    # BFS keys its seen-set by the RESOLVED origin; a cycle must end whatever spelling of the path reaches the module
    cyc_models = "from .util import *\n\n\ndef fa(x):\n    return x.a\n"
    cyc_util = "from .models import *\n\n\ndef fb(x):\n    return fa(x.b)\n"
    cyc_target = "from pkg import *\n\n\ndef main(x):\n    return fa(x), fb(x)\n"
    add("star-cycle:plain", {"pkg/__init__.py": "from .models import *\n", "pkg/models.py": cyc_models, "pkg/util.py": cyc_util, "target.py": cyc_target})
    add("star-cycle:dir-link", {"shared/pkg/__init__.py": "from .models import *\n", "shared/pkg/models.py": cyc_models, "shared/pkg/util.py": cyc_util,
                                "proj/pkg": LNK("../shared/pkg"), "proj/target.py": cyc_target}, cwd="proj")
    add("star-cycle:dir-link:ir", {"shared/pkg/__init__.py": "from .models import *\n", "shared/pkg/models.py": cyc_models, "shared/pkg/util.py": cyc_util,
                                   "proj/pkg": LNK("../shared/pkg"), "proj/target.py": cyc_target}, cwd="proj", opts=["-o", "ir"])
    add("star-cycle:file-links", {"a.py": "from blink import *\n\n\ndef fa(x):\n    return x.a\n", "b.py": "from alink import *\n\n\ndef fb(x):\n    return fa(x.b)\n",
                                  "alink.py": LNK("a.py"), "blink.py": LNK("b.py"), "target.py": "from alink import *\n\n\ndef main(x):\n    return fa(x), fb(x)\n"})
    add("star-cycle:self-through-link", {"a.py": "from alink import *\n\n\ndef fa(x):\n    return x.a\n", "alink.py": LNK("a.py"),
                                         "target.py": "from a import *\n\n\ndef main(x):\n    return fa(x)\n"})
    # --- two names for one file without any link
    add("two-names:pkg-and-init", {"pkg/__init__.py": F_OK, "target.py": "import pkg\nimport pkg.__init__\ndef g(a):\n    return pkg.f(a)\ndef h(a):\n    return pkg.__init__.f(a)\n"})
    add("two-names:init-first", {"pkg/__init__.py": F_OK, "target.py": "import pkg.__init__\nimport pkg\ndef h(a):\n    return pkg.__init__.f(a)\ndef g(a):\n    return pkg.f(a)\n"})
    add("two-names:from-init", {"pkg/__init__.py": F_OK, "target.py": "from pkg import f\nfrom pkg.__init__ import f as f2\ndef g(a):\n    return f(a) + f2(a)\n"})
    add("two-names:no-call-through-second", {"pkg/__init__.py": F_OK, "target.py": "import pkg\nimport pkg.__init__\ndef g(a):\n    return pkg.f(a)\n"})
    add("two-names:import-and-from", {"a/__init__.py": "", "a/b.py": F_OK, "target.py": "import a.b\nfrom a import b\nfrom a.b import f\ndef g(x):\n    return a.b.f(x) + b.f(x) + f(x)\n"})
    add("two-names:module-and-package", {"m.py": F_OK, "m/__init__.py": "def f(x):\n    return x.z\n", "target.py": "import m\nfrom m import f\ndef g(a):\n    return m.f(a) + f(a)\n"})
    add("namespace-package", {"ns/s.py": F_OK, "target.py": "import ns.s\nfrom ns import s\nfrom ns.s import f\ndef g(a):\n    return ns.s.f(a) + s.f(a) + f(a)\n"})
    add("self-import", {"target.py": "import target\nfrom target import f\ndef f(a):\n    return a.x\ndef g(a):\n    return target.f(a) + f(a)\n"})
    # --- the target itself
    real = "import impl\ndef f(a):\n    return impl.read_name(a)\n"
    add("target-is-link", {"real.py": real, "impl.py": IMPL, "target.py": LNK("real.py")})
    add("target-is-link:stats", {"real.py": real, "impl.py": IMPL, "target.py": LNK("real.py")}, opts=["-o", "stats"])
    add("target-is-link:imports-real-name", {"real.py": "import real\nimport target\ndef f(a):\n    return a.x\ndef g(a):\n    return real.f(a) + target.f(a)\n",
                                             "target.py": LNK("real.py")})
    add("target-is-link:to-outside", {"proj/target.py": LNK("../outside/real.py"), "outside/real.py": "from .sib import y\nimport impl\ndef f(a):\n    return impl.read_name(a) + y(a)\n",
                                      "outside/sib.py": "def y(q):\n    return q.z\n", "proj/impl.py": IMPL, "proj/sib.py": "def y(q):\n    return q.w\n"}, cwd="proj")
    add("target-is-link:to-empty", {"real.py": "", "target.py": LNK("real.py")}, opts=["-o", "stats"])
    add("target-dangling", {"target.py": LNK("nowhere.py")})
    add("target-link-loop", {"target.py": LNK("t2.py"), "t2.py": LNK("target.py")})
    add("target-is-directory", {"target.py/x.py": F_OK})
    for spell in ("./target.py", "sub/../target.py", "{ABS}/target.py", ".//target.py", "{ABS}/sub/../target.py"):
        add(f"target-spelling:{spell}", {"sub/x.txt": "", "target.py": real + "from impl import read_size\ndef g(a):\n    return read_size(a)\n", "impl.py": IMPL}, target=spell)
    add("target-spelling:abs+relative-import", {"pkg/__init__.py": "", "pkg/t.py": "from .x import y\nfrom . import x\ndef f(a):\n    return y(a) + x.y(a)\n",
                                                "pkg/x.py": "def y(q):\n    return q.z\n"}, target="{ABS}/pkg/t.py")
    add("target-spelling:cache-elsewhere", {"target.py": real, "impl.py": IMPL}, target="target.py", opts=["-C", "{ABS}/deep/er/c.json"], pre_runs=1)
    # --- K23: the current file has no module name
    rel = "from .x import y\ndef f(a):\n    return y(a)\n"
    star = "from .x import *\ndef f(a):\n    return y(a)\n"
    xpy = "def y(q):\n    return q.z\n"
    for nm, src in (("named", rel), ("star", star), ("dot-only", "from . import x\ndef f(a):\n    return x.y(a)\n")):
        add(f"K23:outside-search-path:{nm}", {"proj/x.txt": "", "other/t.py": src, "other/x.py": xpy}, target="../other/t.py", cwd="proj")
        add(f"K23:dotted-directory:{nm}", {"a.b/t.py": src, "a.b/x.py": xpy}, target="a.b/t.py")
    add("K23:outside-search-path:absolute", {"proj/x.txt": "", "other/t.py": rel, "other/x.py": xpy}, target="{ABS}/other/t.py", cwd="proj")
    add("K23:no-py-suffix", {"pkg/__init__.py": "", "pkg/script": rel, "pkg/x.py": xpy}, target="pkg/script")
    add("K23:control:outside-without-relative-import", {"proj/x.txt": "", "other/t.py": "import os\ndef f(a):\n    return a.x\n"}, target="../other/t.py", cwd="proj")
    add("K23:control:outside-absolute-import-of-sibling", {"proj/x.txt": "", "other/t.py": "import helper\ndef f(a):\n    return helper.h(a)\n",
                                                          "other/helper.py": "def h(x):\n    return x.y\n"}, target="../other/t.py", cwd="proj")
    add("K23:control:hyphenated-file", {"pkg/__init__.py": "", "pkg/my-script.py": rel, "pkg/x.py": xpy}, target="pkg/my-script.py")
    add("K23:control:inside", {"pkg/__init__.py": "", "pkg/t.py": rel, "pkg/x.py": xpy}, target="pkg/t.py")
    # --- the cache file as a file-system object
    add("cache-is-directory", {"target.py": real, "impl.py": IMPL, "c.json/keep": ""}, opts=["-C", "c.json"])
    add("cache-is-dangling-link", {"target.py": real, "impl.py": IMPL, "c.json": LNK("nowhere/c.json")}, opts=["-C", "c.json"])
    add("cache-is-link", {"target.py": real, "impl.py": IMPL, "real.json": "{}", "c.json": LNK("real.json")}, opts=["-C", "c.json"], pre_runs=1)
    add("cache-parent-is-file", {"target.py": real, "impl.py": IMPL, "blocker": "x"}, opts=["-C", "blocker/c.json"])
    add("cache-is-the-target", {"target.py": real, "impl.py": IMPL}, opts=["-C", "target.py"])
    # the witnesses of K23 / K24 / K25 (fixed upstream in c5833ef / 353eacf / bcdf6de) must now end exit 1 with the
    # fatal: line of the fix; anything else — also a plain exit 0 — is reported
    for r in rows:
        n = r["row"]
        if n.startswith("fs:K23:") and ":control:" not in n:
            r["expect_fatal"] = "unable to resolve relative imports in"
        elif n.startswith("fs:dir-link-loop:") and n.split(":")[2] in ("import", "from", "top", "star", "in-followed"):
            r["expect_fatal"] = "unable to find module 'dl"
        elif n in ("fs:cache-is-directory", "fs:cache-is-dangling-link", "fs:cache-parent-is-file"):
            r["expect_fatal"] = "unable to write the cache file"
    if tier == "quick":
        return rows
    more = []
    for r in rows:
        for o in (["-o", "ir"], ["-o", "stats"], ["-f", "0"], ["-C", "shape-cache.json"], ["--strict"]):
            if not any(x in r["opts"] for x in o[:1]):
                v = dict(r, row=r["row"] + ":" + "".join(o), opts=r["opts"] + o)
                # with -f 0 a followed module is never read, so a pin about an import written THERE cannot apply
                if o == ["-f", "0"] and ":in-followed" in r["row"]:
                    v.pop("expect_fatal", None)
                more.append(v)
    return rows + more


# ------------------------------------------------------------------------------------ (3) classification of two families

CRASH_WRAPPER = r"""
import sys, json, os, runpy
def _origin(n):
    # where Python's path finder looks for module `n` (no import is executed)
    parts = n.split(".")
    for base in sys.path:
        p = os.path.join(base or os.getcwd(), *parts)
        if os.path.isfile(os.path.join(p, "__init__.py")):
            return os.path.join(p, "__init__.py")
        if os.path.isfile(p + ".py"):
            return p + ".py"
    return None
def hook(t, e, tb):
    last = tb
    while last.tb_next:
        last = last.tb_next
    loc = last.tb_frame.f_locals
    info = {"exc": t.__name__, "fn": last.tb_frame.f_code.co_name}
    try:
        from rattr.config import Config
        info["file"] = str(Config().state.current_file)
    except Exception:
        info["file"] = None
    try:
        if info["fn"] == "resolve_import":
            tgt, env = loc.get("target"), loc.get("environment")
            try:
                info["module_name"] = tgt.module_name
            except Exception:
                info["module_name"] = "<error>"
            info["name"] = getattr(tgt, "name", None)
            keys = list(getattr(env, "import_irs", None) or {})
            info["keys"] = keys
            names = keys + ([info["module_name"]] if isinstance(info["module_name"], str) else [])
            info["origins"] = {}
            for n in names:
                o = _origin(n)
                info["origins"][n] = [os.path.abspath(o) if o else None, os.path.realpath(o) if o else None]
        if info["file"] not in (None, "None"):
            real = os.path.realpath(info["file"])
            info["rel"] = None
            for base in sys.path:
                b = os.path.realpath(base or os.getcwd())
                if os.path.isdir(b) and real.startswith(b.rstrip(os.sep) + os.sep) and "site-packages" not in b and "/lib/python" not in b:
                    # spelled path below the search dir (the spelling matters: rattr names modules by it)
                    spelled = os.path.abspath(info["file"])
                    info["rel"] = os.path.relpath(spelled, b) if spelled.startswith(b.rstrip(os.sep) + os.sep) else os.path.relpath(real, b)
                    break
    except Exception as ex:
        info["hook_error"] = repr(ex)
    sys.stderr.write("C07-CRASH " + json.dumps(info) + "\n")
    sys.__excepthook__(t, e, tb)
sys.excepthook = hook
sys.argv = ["rattr"] + sys.argv[1:]
runpy.run_module("rattr", run_name="__main__", alter_sys=True)
"""

IMPORT_ERROR_SIG = "unhandled:ImportError:resolve_import@generate_results_from_ir"
K23_SIGS = ("unhandled:ValueError:RootContextBuilder.visit_relative_import",
            "unhandled:ValueError:RootContextBuilder.visit_starred_relative_import")
# K22: `unbind_name`'s ValueError("never"). Known cause: a parameter (of a function or of a `key=` lambda) is CALLED
# getattr / hasattr / setattr / delattr, so the swap is not the identity for a name whose basename is the callee of a
# getattr-family call. Whether the project has such a parameter is read off its source (ast), not off rattr.
K22_SIGS = ("unhandled:ValueError:unbind_name@generate_results_from_ir", "unhandled:ValueError:unbind_name@SortedAnalyser.on_call")
XATTR = ("getattr", "hasattr", "setattr", "delattr")
REFINED = (IMPORT_ERROR_SIG,) + K23_SIGS + K22_SIGS


def k22_class(case):
    for rel in case["files"]:
        text = _file_text(case["files"], rel)
        if text is None:
            continue
        try:
            tree = ast.parse(text)
        except (SyntaxError, ValueError):
            continue
        for n in ast.walk(tree):
            if isinstance(n, (ast.FunctionDef, ast.AsyncFunctionDef, ast.Lambda)):
                a = n.args
                names = [x.arg for x in a.posonlyargs + a.args + a.kwonlyargs] + [x.arg for x in (a.vararg, a.kwarg) if x is not None]
                if any(x in XATTR for x in names):
                    return "parameter-named-like-an-attribute-builtin"
    return "no-parameter-named-like-an-attribute-builtin"


def _file_text(files, rel, depth=0):
    """text of project file `rel`, following symlink / hardlink entries inside the case."""
    c = files.get(rel)
    if isinstance(c, str):
        return c
    if isinstance(c, dict) and depth < 8:
        to = c.get("symlink") or c.get("hardlink")
        if to is not None:
            return _file_text(files, posixpath.normpath(posixpath.join(posixpath.dirname(rel), to)), depth + 1)
    return None


def statement_modules(files):
    """every module an import statement of any project file names (absolute dotted names; `from a.b import c` names
    a.b and a.b.c; relative imports resolved by Python's rule against the file's package). Independent of rattr."""
    import importlib.util

    named = set()
    for rel in files:
        if not (rel.endswith(".py") or "." not in posixpath.basename(rel)):
            continue
        text = _file_text(files, rel)
        if text is None:
            continue
        try:
            tree = ast.parse(text)
        except (SyntaxError, ValueError):
            continue
        parts = [p for p in posixpath.normpath(rel).split("/") if p not in ("", ".")]
        pkgs = [parts[:-1]]
        if parts and parts[0] in ("proj", "outside", "other"):
            pkgs.append(parts[1:-1])
        for n in ast.walk(tree):
            if isinstance(n, ast.Import):
                for a in n.names:
                    named.add(a.name)
            elif isinstance(n, ast.ImportFrom):
                if n.level == 0:
                    bases = [n.module or ""]
                else:
                    bases = []
                    for pk in pkgs:
                        try:
                            bases.append(importlib.util.resolve_name("." * n.level + (n.module or ""), ".".join(pk)))
                        except (ImportError, ValueError):
                            pass
                for b in bases:
                    if b:
                        named.add(b)
                    for a in n.names:
                        if a.name != "*":
                            named.add((b + "." if b else "") + a.name)
    return named


def classify_crash(sig, info, case):
    """-> class string for the bracket of the refined signature."""
    if info is None:
        return "unclassified"
    if sig == IMPORT_ERROR_SIG:
        m = info.get("module_name")
        if m is None:
            return "module-unresolved"
        if not isinstance(m, str) or m == "<error>":
            return "unclassified"
        org = info.get("origins") or {}
        mine = org.get(m) or [None, None]
        others = [(k, org.get(k) or [None, None]) for k in info.get("keys") or [] if k != m]
        if mine[0] is not None and any(o[0] == mine[0] for _, o in others):
            return "same-origin-under-another-name"
        if mine[1] is not None and any(o[1] == mine[1] for _, o in others):
            return "same-real-file-under-another-name"
        if m not in statement_modules(case["files"]):
            return "module-not-imported-by-any-statement"
        return "imported-module-without-ir"
    if sig in K23_SIGS:
        rel = info.get("rel")
        if rel is None:
            return "file-outside-module-search-path"
        comps = rel.split(os.sep)
        stem = comps[-1][:-3] if comps[-1].endswith(".py") else None
        if stem is None or not all(c.isidentifier() for c in comps[:-1]) or not stem.isidentifier():
            return "file-path-not-a-module-path"
        return "unexplained"
    return "unclassified"


def refine(run_cli, root, case, sig):
    """second, diagnostic run of `case` -> refined signature (K22: decided from the project source alone)."""
    if sig in K22_SIGS:
        return f"{sig}[{k22_class(case)}]"
    rc, out, err, to, dt = run_cli(root, dict(case, crash_wrapper=True))
    m = re.search(r"^C07-CRASH (\{.*\})$", err, re.M)
    info = json.loads(m.group(1)) if m else None
    return f"{sig}[{classify_crash(sig, info, case)}]"


# ------------------------------------------------------------------------------------ (4) in-process tie

READ_TEXTS = list(DEGENERATE.values()) + ["a\r\nb\r\n", "a\rb", "\r\n\n\r", "\r", "\n\r", "\r\r\n", "x = 1\r\n\r\ny = 2", "é\n", "\n" * 7, "a\n\rb\r"]


def _random_text(rng):
    return "".join(rng.choice(["\n", "\r", "\r\n", "a", " ", "#", "\t", "pass", "\x0c"]) for _ in range(rng.randint(0, 9)))


def _capture(fn, *a, **kw):
    import impl

    buf = io.StringIO()
    with contextlib.redirect_stdout(buf):
        out = impl.outcome_of(fn, *a, **kw)
    return out, buf.getvalue()


def _cls(out):
    return "ok" if out[0] == "ok" else (f"crash:{out[1]}" if out[0] == "crash" else "fatal")


def tie_projects(rng, tier):
    """small projects for the whole-run tie: degenerate texts at every place, the file-system shapes whose front
    stages end normally, and import graphs with shared / duplicated modules."""
    out = []
    for place in PLACES + ["everywhere"]:
        for dk in (KEY_DEGENERATE if tier != "quick" else rng.sample(KEY_DEGENERATE[1:], 2) + ["empty"]):
            files, target = _place(place, DEGENERATE[dk])
            out.append({"row": f"tie:{place}:{dk}", "files": files, "target": target})
    for r in fs_shape_corpus(rng, "quick"):
        n = r["row"]
        if n.startswith(("fs:K23", "fs:cache", "fs:target-spelling", "fs:target-d", "fs:target-link-loop", "fs:target-is-directory", "fs:dir-link-loop",
                         "fs:star-cycle")):      # termination rows are judged through the CLI only (child process + timeout), never in-process
            continue
        if r["opts"] or r.get("cwd"):
            continue
        out.append({"row": "tie:" + n, "files": r["files"], "target": r["target"]})
    diamond = {"target.py": "import a\nimport b\nfrom c import f\nimport nowhere_pkg\ndef g(x):\n    return a.fa(x) + b.fb(x) + f(x)\n",
               "a.py": "import c\nimport b\ndef fa(x):\n    return c.f(x)\n", "b.py": "import c\nimport a\nimport os\ndef fb(x):\n    return c.f(x)\n",
               "c.py": "import a\n" + F_OK}
    out.append({"row": "tie:diamond-cycle", "files": {k: v for k, v in diamond.items()} | {"target.py": diamond["target.py"].replace("import nowhere_pkg\n", "")}, "target": "target.py"})
    out.append({"row": "tie:excluded", "files": diamond, "target": "target.py", "patterns": ["nowhere_pkg", "b"]})
    out.append({"row": "tie:K9", "files": {"target.py": "import pkg\ndef g(a):\n    pkg.sub.f(a)\n", "pkg/__init__.py": "", "pkg/sub.py": F_OK}, "target": "target.py"})
    return out


def _gather(project: Path, case, level):
    """the real run + the per-module facts the model takes as parameters -> (obs, payload) or (obs, None)."""
    import impl
    from rattr.analyser import file as RF
    from rattr.config.state import enter_file
    from rattr.models.context import compile_root_context
    from rattr.models.symbol import Import
    from rattr.module_locator.util import is_in_import_blacklist, is_in_pip, is_in_stdlib
    from rattr.results import IrEnvironment
    from rattr.results._find_call_target import resolve_import
    import rattr.__main__ as RM
    from rattr.config import Config, Output

    obs = {}
    with impl.in_dir(str(project)):
        impl.reset_config(target=Path(case["target"]), _follow_imports_level=level, _excluded_imports=list(case.get("patterns", [])),
                          _warning_level="none")
        with impl.Tap():
            out = impl.outcome_of(RF.parse_and_analyse_file)
        obs["outcome"] = out[0] if out[0] != "crash" else f"crash:{out[1]}"
        if out[0] != "ok":
            return obs, None
        file_ir, import_irs, stats = out[1]
        obs["keys"] = list(import_irs)
        obs["stats"] = [stats.file_lines, stats.import_lines, stats.number_of_imports, stats.number_of_unique_imports]

        def imports_of(ctx):
            return [s for s in ctx.symbol_table.symbols if isinstance(s, Import)]

        def fact(sym):
            return {"target": sym.module_name, "declBl": True}

        target_syms = imports_of(file_ir.context)
        modules, order, work = {}, [], list(target_syms)
        per_module_syms = {}
        while work:
            sym = work.pop(0)
            n = sym.module_name
            if n is None or n in modules:
                continue
            spec = sym.module_spec
            origin = spec.origin if spec is not None else None
            local = not (is_in_pip(n) or is_in_stdlib(n))
            readable, source, syms = False, "", []
            if origin is not None and str(origin).endswith(".py"):
                try:
                    with open(origin, "r", newline="") as fh:
                        source = fh.read()
                    tree = ast.parse(source)
                    readable = True
                except Exception:
                    tree = None
                if readable and local:
                    if n in import_irs:
                        syms = imports_of(import_irs[n].context)
                    else:
                        try:
                            with impl.Tap(), enter_file(origin):
                                syms = imports_of(compile_root_context(tree).expand_starred_imports())
                        except BaseException:
                            syms = []
            if not local:
                source = ""
            modules[n] = {"name": n, "origin": str(origin) if origin is not None else None, "readable": readable,
                          "blacklisted": bool(is_in_import_blacklist(n)), "inPip": bool(is_in_pip(n)), "inStdlib": bool(is_in_stdlib(n)),
                          "excluded": False, "imports": [fact(s) for s in syms], "source": source}
            per_module_syms[n] = syms
            order.append(n)
            work.extend(syms)
        a = Config().arguments
        flags = {"loc": bool(a.follow_local_imports), "pip": bool(a.follow_pip_imports), "stdlib": bool(a.follow_stdlib_imports)}
        with open(case["target"], "r", newline="") as fh:
            target_source = fh.read()
        payload = {"level": level, "flags": flags, "modules": [modules[n] for n in order], "target": [fact(s) for s in target_syms],
                   "targetSource": target_source}
        # the real verdict of resolve_import for every import statement of the target and of every analysed module
        env = IrEnvironment(target_ir=file_ir, import_irs=import_irs)
        real = []
        stmts = [("<target>", s) for s in target_syms] + [(n, s) for n in import_irs for s in per_module_syms.get(n, imports_of(import_irs[n].context))]
        for where, s in stmts:
            with impl.Tap():
                r = impl.outcome_of(resolve_import, s, environment=env)
            if r[0] == "crash":
                real.append({"in": where, "target": s.module_name, "crash": r[1], "msg": r[2]})
            else:
                real.append({"in": where, "target": s.module_name, "crash": None})
        obs["resolve"] = real
        # the output stage, every mode, on what the run handed over
        with impl.Tap():
            rout = impl.outcome_of(RM.generate_results_from_ir, target_ir=file_ir, import_irs=import_irs)
        obs["results"] = _cls(rout)
        stage = {}
        o, text = _capture(RM.show_stats, stats)
        stage["stats"] = _cls(o)
        obs["stats_text_ok"] = (o[0] != "ok") or ("Time (Seconds)" in text and "Average badness/line" in text)
        o, text = _capture(RM.show_ir, Path(case["target"]), file_ir, import_irs)
        stage["ir"] = _cls(o)
        if rout[0] == "ok":
            o, text = _capture(RM.show_results, rout[1])
            stage["results"] = _cls(o)
            o, text = _capture(lambda: RM.show_cacheable_results(RM.make_cacheable_results(results=rout[1], target_ir=file_ir, import_irs=import_irs)))
            stage["cacheable"] = _cls(o)
        obs["stage"] = stage
    return obs, payload


def tie(rng, tier, res, model, tmp: Path, materialise):
    """Tie B for RattrModel/Stats.lean + the import_irs theorems. Disagreements / internal errors go to `res`."""
    import impl
    from rattr.analyser.util import read
    from rattr.analyser.file import RattrStats
    import rattr.__main__ as RM

    # ---- (a) read(): number of lines
    texts = READ_TEXTS + [_random_text(rng) for _ in range(40 if tier == "quick" else 400)]
    scratch = tmp / "c07-read.txt"
    real_lines = []
    for t in texts:
        scratch.write_bytes(t.encode("utf-8"))
        with read(scratch) as (n, src):
            real_lines.append(n)
    # ---- (b) show_stats on a grid of RattrStats (also values no run produces)
    grid = [(a, b) for a in (-1, 0, 1, 2, 10, 100) for b in (-1, 0, 1, 9, 10)]
    shows, real_show = [], []
    impl.reset_config()
    for a, b in grid:
        for tz in (False, True):
            if tz and (a, b) not in ((1, 0), (0, 0), (10, 9)):
                continue
            t = 0.0 if tz else 0.001
            st = RattrStats(parse_time=t, root_context_time=t, assert_time=t, analyse_imports_time=t, analyse_file_time=t,
                            file_lines=a, import_lines=b, number_of_imports=max(b, 0), number_of_unique_imports=max(b, 0))
            o, _ = _capture(RM.show_stats, st)
            real_show.append(_cls(o))
            shows.append([a, b, max(b, 0), max(b, 0), tz, "stats"])
    mo = model.batch([("c07_run", {"lines": texts, "show": shows})])[0]
    if isinstance(mo, dict) and "__error__" in mo:
        res.disagreements.append({"case": {"stage": "stats-tie"}, "diff": "c07_run: " + str(mo["__error__"])[:300]})
        return
    for t, r, m in zip(texts, real_lines, mo["lines"]):
        res.evaluations += 1
        res.count("stats-tie:read:" + ("agree" if r == m else "DISAGREE"))
        if r != m:
            res.disagreements.append({"case": {"stage": "stats-tie:read", "text": t}, "diff": f"read() reports {r} lines, Stats.readLines {m}"})
    for row, r, m in zip(shows, real_show, mo["show"]):
        res.evaluations += 1
        res.count("stats-tie:show_stats:" + r)
        if r != m:
            res.disagreements.append({"case": {"stage": "stats-tie:show_stats", "stats": row}, "diff": f"show_stats: real {r}, model {m}"})
        if r != "ok":
            res.nontrivial.add(common.digest(["show", row]))
    # ---- (c) whole projects
    projects = tie_projects(rng, tier)
    reqs, kept = [], []
    for case in projects:
        d = materialise(tmp, case)
        try:
            for level in ((1, 0) if case["row"].split(":")[1] in ("target", "followed", "everywhere") else (1,)):
                obs, payload = _gather(d / case.get("cwd", "."), case, level)
                res.count("run-tie:real:" + obs["outcome"])
                if payload is None:
                    res.skipped_outside_fragment += 1
                    continue
                reqs.append(("c07_run", {"run": dict(payload, output="stats")}))
                kept.append((case, level, obs))
        finally:
            shutil.rmtree(d, ignore_errors=True)
    outs = model.batch(reqs)
    for (case, level, obs), mo in zip(kept, outs):
        res.evaluations += 1
        small = {"stage": "run-tie", "row": case["row"], "level": level, "files": case["files"], "target": case["target"]}
        if isinstance(mo, dict) and "__error__" in mo:
            if "graph not closed" in str(mo["__error__"]):
                res.skipped_outside_fragment += 1
                res.count("run-tie:skipped:graph-not-closed")
                continue
            res.disagreements.append({"case": small, "diff": "c07_run: " + str(mo["__error__"])[:300]})
            continue
        m = mo["run"]
        diffs = []
        if m["outcome"] != "done":
            diffs.append(f"model outcome {m['outcome']}, real run ok")
        if m["keys"] != obs["keys"]:
            diffs.append(f"import_irs keys: real {obs['keys']}, model {m['keys']}")
        mstats = [m["fileLines"], m["importLines"], m["numberOfImports"], m["uniqueImports"]]
        if mstats != obs["stats"]:
            diffs.append(f"RattrStats (file_lines, import_lines, number_of_imports, unique): real {obs['stats']}, model {mstats}")
        if m["output"] != obs["stage"]["stats"]:
            diffs.append(f"show_stats: real {obs['stage']['stats']}, model {m['output']}")
        for k, v in obs["stage"].items():
            if v != "ok":
                diffs.append(f"output stage `{k}` on the run's own data: {v} (the model says every mode is total)")
        if not obs.get("stats_text_ok", True):
            diffs.append("show_stats printed no complete table")
        if len(m["resolve"]) != len(obs["resolve"]):
            diffs.append(f"import statements: real {len(obs['resolve'])}, model {len(m['resolve'])}")
        else:
            for rr, mr in zip(obs["resolve"], m["resolve"]):
                verdict = mr["verdict"] if isinstance(mr["verdict"], str) else "found"
                mcrash = verdict in ("crashNoModule", "crashNotFound")
                named = rr["crash"] is not None and (rr["msg"] == "" if rr["target"] is None else rr["msg"] == f"{rr['target']!r} not found")
                res.count("run-tie:resolve:" + (verdict if not mcrash else verdict + "[" + str(mr["class"]).split(":")[0] + "]"))
                if mcrash != bool(named):
                    if rr["crash"] is not None and not named and not mcrash:
                        res.count("run-tie:resolve:chained-crash-behind-found")
                        continue
                    diffs.append(f"resolve_import({rr['target']!r} in {rr['in']}): real {rr['crash']}:{rr.get('msg')}, model {verdict}")
                if mcrash and str(mr["class"]) == "unclassified":
                    diffs.append(f"resolve_import({rr['target']!r}): the model crashes outside the three classes of C07_import_error_classes")
                if mcrash:
                    res.nontrivial.add(common.digest(["resolve", case["row"], rr["target"]]))
        res.count("run-tie:" + ("agree" if not diffs else "DISAGREE"))
        if obs["keys"]:
            res.nontrivial.add(common.digest(["run", case["row"], level]))
        for dmsg in diffs:
            res.disagreements.append({"case": small, "diff": "whole-run tie: " + dmsg})
    n_rel, n_tail = tie_fixed_guards(rng, tier, res, model, tmp, materialise)
    res.extra["round3_tie"] = {"read_texts": len(texts), "show_stats_rows": len(shows), "projects": len(kept),
                               "relative_import_guard_files": n_rel, "cache_write_states": n_tail}


def _dotted_candidates(path: str):
    """every dotted name `derive_module_name_from_path` could ask `module_exists` about (a superset)."""
    d = path.replace("/", ".").replace("\\", ".")
    outs = set()
    for v in {d, d.removesuffix(".py"), d.removesuffix(".__init__.py"), d.removesuffix(".__init__.py").removesuffix(".py")}:
        parts = v.strip(".").split(".")
        for k in range(len(parts)):
            outs.add(".".join(parts[k:]))
    return sorted(outs)


def tie_fixed_guards(rng, tier, res, model, tmp: Path, materialise):
    """Tie B for RattrModel/RelBase.lean (the `base is None` guard of the relative-import visitors, K23) and for
    Stats.mainTail (the cache write at the end of main, K25), in-process against the current code."""
    import impl
    from rattr.config.state import enter_file
    from rattr.models.context import compile_root_context
    from rattr.module_locator.util import derive_module_name_from_path, module_exists
    import rattr.__main__ as RM
    from rattr.analyser import file as RF

    rel_reqs, rel_real = [], []
    for case in fs_shape_corpus(rng, "quick"):
        n = case["row"]
        if not (n.startswith(("fs:K23:", "fs:link-in-package:relative", "fs:target-spelling", "fs:dir-link:target-inside", "fs:target-is-link:to-outside"))):
            continue
        d = materialise(tmp, case)
        try:
            target = case["target"].replace("{ABS}", str(d))
            with impl.in_dir(str(d / case.get("cwd", "."))):
                impl.reset_config(target=Path(target), _warning_level="none")
                if not os.path.isfile(target):
                    continue
                with impl.Tap():
                    base = impl.outcome_of(derive_module_name_from_path, target)
                    trues = [c.split(".") for c in _dotted_candidates(target) if impl.outcome_of(module_exists, c) == ("ok", True)]
                    with open(target) as fh:
                        tree = ast.parse(fh.read())
                    has_rel = any(isinstance(x, ast.ImportFrom) and x.level > 0 for x in tree.body)
                    with enter_file(Path(target)):
                        ctx = impl.outcome_of(compile_root_context, tree)
                rel_reqs.append({"comps": target.replace("/", ".").split("."), "exists": trues, "fixed": True})
                rel_real.append({"row": n, "target": case["target"], "base": base[1] if base[0] == "ok" else f"<{base[0]}>", "has_rel": has_rel,
                                 "ctx": ctx[0] if ctx[0] != "crash" else f"crash:{ctx[1]}"})
        finally:
            shutil.rmtree(d, ignore_errors=True)
    # the cache write: one tiny project, every state of the -C path
    tail_rows, tail_real = [], []
    d = materialise(tmp, {"files": {"target.py": "import lib\ndef f(a):\n    return lib.g(a)\n", "lib.py": "def g(x):\n    return x.y\n",
                                   "isdir/keep": "", "blocker": "x", "dangling.json": {"symlink": "nowhere/c.json"}, "link.json": {"symlink": "real.json"},
                                   "real.json": "{}"}})
    try:
        with impl.in_dir(str(d)):
            impl.reset_config(target=Path("target.py"), _warning_level="none")
            with impl.Tap():
                out = impl.outcome_of(RF.parse_and_analyse_file)
                if out[0] == "ok":
                    file_ir, import_irs, stats = out[1]
                    results = RM.generate_results_from_ir(target_ir=file_ir, import_irs=import_irs)
                    cacheable = RM.make_cacheable_results(results=results, target_ir=file_ir, import_irs=import_irs)
                    for name, path in (("new-file", "fresh.json"), ("new-directories", "deep/er/c.json"), ("existing-file", "real.json"), ("link", "link.json"),
                                       ("directory", "isdir"), ("dangling-link", "dangling.json"), ("parent-is-file", "blocker/c.json")):
                        r = impl.outcome_of(RM.write_cache_file, Path(path), cacheable)
                        # independent verdict on "can be written": try it with plain Python on a sibling path of the same shape
                        tail_real.append({"state": name, "real": "ok" if r[0] == "ok" else ("fatal" if r[0] == "fatal" else f"crash:{r[1]}")})
                        tail_rows.append([stats.file_lines, stats.import_lines, stats.number_of_imports, stats.number_of_unique_imports, False, "silent",
                                          name in ("new-file", "new-directories", "existing-file", "link"), True])
    finally:
        shutil.rmtree(d, ignore_errors=True)
    mo = model.batch([("c07_run", {"relbase": rel_reqs, "tail": tail_rows})])[0]
    if isinstance(mo, dict) and "__error__" in mo:
        res.disagreements.append({"case": {"stage": "fixed-guards-tie"}, "diff": "c07_run: " + str(mo["__error__"])[:300]})
        return 0, 0
    for real, m in zip(rel_real, mo["relbase"] or []):
        res.evaluations += 1
        want = "fatal" if real["base"] is None else "base:" + str(real["base"])
        res.count("guard-tie:relative-import:" + ("no-base" if real["base"] is None else "base"))
        small = {"stage": "guard-tie:relative-import", **real}
        if m != want:
            res.disagreements.append({"case": small, "diff": f"derive_module_name_from_path: real {real['base']!r}, RelBase.relBase {m}"})
        if real["has_rel"]:
            # a file with a relative import and no base: the root-context builder ends fatal (never an exception)
            if real["ctx"].startswith("crash"):
                if real["base"] is None:
                    res.disagreements.append({"case": small, "diff": f"no base: the model says fatal, compile_root_context raised {real['ctx']}"})
            elif real["base"] is None and real["ctx"] != "fatal":
                # (with a base the builder may still end fatal for another reason: a module that does not exist)
                res.disagreements.append({"case": small, "diff": f"no base, yet compile_root_context ended {real['ctx']} (the model says fatal)"})
            if real["base"] is None:
                res.nontrivial.add(common.digest(["relbase", real["row"]]))
    for real, m in zip(tail_real, mo["tail"] or []):
        res.evaluations += 1
        res.count("guard-tie:cache-write:" + real["real"])
        if real["real"] != m:
            res.disagreements.append({"case": {"stage": "guard-tie:cache-write", **real}, "diff": f"write_cache_file: real {real['real']}, Stats.mainTail {m}"})
        if real["real"] != "ok":
            res.nontrivial.add(common.digest(["tail", real["state"]]))
    return len(rel_real), len(tail_real)

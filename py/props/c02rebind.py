"""C02: nothing of what was analysed BEFORE may decide what is reported for a callable.

`custom_analyser_for_target` decides per `ast.Call` whether the call is handed to a plug-in analyser
(getattr / hasattr / setattr / delattr / sorted / collections.defaultdict) by RESOLVING the callee in
the context of the function being analysed. The property's derivations "target of a getattr-family
call", and the two named plug-in derivations (`sorted` key substitution, `defaultdict` factory call)
are therefore admitted only where the callee DENOTES that callable. This module supplies

  * a BINDING-AWARE justification oracle (`bound_allowed`): Python's own scoping rules, computed from
    the source with `ast` only (parameters, local binding statements, nested defs / lambdas /
    comprehensions, module-level imports / defs / classes / variables, re-exports through project
    files): a call whose callee spelling is bound to anything else than the plug-in handled callable
    is an ordinary call — it justifies its own spelled callee and its argument expressions, nothing
    more; a call through an alias (`from collections import defaultdict as dd`, `import collections
    as co`, `from builtins import sorted as srt`) justifies the plug-in derivations;
  * `RebindGen`: files and 1-3 file projects in which ONE SPELLING (`dd`, `defaultdict`, `co.…`,
    `sorted`, `getattr`, `hasattr`, `setattr`, `delattr`, an alias of a builtin) is bound to the
    plug-in handled callable in one function / file and to a parameter (positional, keyword-only,
    `*args`, of a def / async def / named lambda / `__init__` / static method / nested def / anonymous
    lambda), a local (assignment, tuple assignment, for / with / walrus / except target, nested def,
    comprehension variable) or another module-level definition (def / class / variable) in another
    one — in both orders, in the same file, in a followed import, across a chain of imports;
  * routes: every `FunctionAnalyser.analyse()` the real `FileAnalyser` starts (captured, vs the Lean
    model `Callable.analyse` in the context of that moment), FileAnalyser vs `analyse_file`, the real
    pipeline in-process (target + every followed import), the CLI (`-o ir`, `-o results`) in a fresh
    process; EVERY entry is judged by the binding-aware oracle;
  * freshness: each module-level callable is also analysed ALONE — in-process in a fresh root context
    of the file without its siblings, and (CLI share) in a fresh process on the stripped file with
    `-f 0` — and must give the same own IR as in sequence after its siblings / the followed imports.

What is wrong with an unjustified name is classified FROM THE SOURCE: the call whose handling as
plug-in P would explain the name, how its callee is bound there (`parameter`, `assign`, …) and
whether this file binds the spelling to the plug-in callable at module level.
"""
from __future__ import annotations

import ast
import json
import os
import shutil
import subprocess
import sys
import tempfile
from pathlib import Path

import common
import impl
from props import accessspec as spec
from props import classentries
from props import sigcases
from props import sigspec
from props import visitlib as vl

XATTR = spec.XATTR
XATTR_KIND = spec.XATTR_KIND
KIND = spec.KIND
BUILTIN_PLUGINS = ("getattr", "hasattr", "setattr", "delattr", "sorted")
PLUGINS = BUILTIN_PLUGINS + ("defaultdict",)
COMPS = (ast.ListComp, ast.SetComp, ast.DictComp, ast.GeneratorExp)
NAMEABLE = (ast.Name, ast.Attribute, ast.Subscript, ast.Starred)

# local binding forms that are NOT parameters (rattr's Context.add does not re-add a name an ancestor declares)
LOCAL_STATEMENT_HOWS = ("assign", "augassign", "for-target", "with-target", "walrus", "except-as", "nested-def", "nested-class",
                        "comprehension-target", "del", "local-import")
SIG_LOCAL_SHADOW = ("plugin-handling-of-a-call-whose-callee-is-rebound-by-a-local-binding-statement:"
                    "the-module-level-binding-is-the-plugin-callable")
SIG_XATTR_SPELLING = "getattr-family-spelling-of-a-call-whose-callee-is-rebound"
SIG_DEPENDS = "entry-depends-on-what-was-analysed-before-it"


# ---------------------------------------------------------------------------------- scopes (Python's rules)

class Scope:
    __slots__ = ("kind", "node", "parent", "bound")

    def __init__(self, kind, node, parent):
        self.kind, self.node, self.parent, self.bound = kind, node, parent, {}

    def bind(self, name, how):
        self.bound.setdefault(name, how)

    def function_scope(self):
        s = self
        while s.kind == "comp":
            s = s.parent
        return s


def _params(a: ast.arguments):
    out = [x.arg for x in a.posonlyargs + a.args + a.kwonlyargs]
    if a.vararg:
        out.append(a.vararg.arg)
    if a.kwarg:
        out.append(a.kwarg.arg)
    return out


def _body(fn):
    return fn.body if not isinstance(fn, ast.Lambda) else [fn.body]


def build_scopes(fn):
    """(scope of the analysed callable, {id(node): innermost scope}) for every node of the BODY."""
    top = Scope("own", fn, None)
    for p in _params(fn.args):
        top.bind(p, "parameter")
    where = {}

    def targets(t, sc, how):
        for n in ast.walk(t):
            if isinstance(n, ast.Name) and isinstance(n.ctx, (ast.Store, ast.Del)):
                sc.function_scope().bind(n.id, how)

    def visit(n, sc):
        where[id(n)] = sc
        if isinstance(n, (ast.FunctionDef, ast.AsyncFunctionDef)):
            sc.function_scope().bind(n.name, "nested-def")
            for d in n.decorator_list + n.args.defaults + [k for k in n.args.kw_defaults if k is not None]:
                visit(d, sc)
            inner = Scope("nested-def", n, sc)
            for p in _params(n.args):
                inner.bind(p, "nested-def-parameter")
            for s in n.body:
                visit(s, inner)
            return
        if isinstance(n, ast.Lambda):
            for d in n.args.defaults + [k for k in n.args.kw_defaults if k is not None]:
                visit(d, sc)
            inner = Scope("lambda", n, sc)
            for p in _params(n.args):
                inner.bind(p, "lambda-parameter")
            visit(n.body, inner)
            return
        if isinstance(n, ast.ClassDef):
            sc.function_scope().bind(n.name, "nested-class")
            for c in ast.iter_child_nodes(n):
                visit(c, sc)
            return
        if isinstance(n, COMPS):
            inner = Scope("comp", n, sc)
            for i, g in enumerate(n.generators):
                where[id(g)] = inner
                visit(g.iter, sc if i == 0 else inner)
                for t in ast.walk(g.target):
                    if isinstance(t, ast.Name) and isinstance(t.ctx, ast.Store):
                        inner.bind(t.id, "comprehension-target")
                visit(g.target, inner)
                for c in g.ifs:
                    visit(c, inner)
            for e in ([n.key, n.value] if isinstance(n, ast.DictComp) else [n.elt]):
                visit(e, inner)
            return
        if isinstance(n, ast.Assign):
            for t in n.targets:
                targets(t, sc, "assign")
        elif isinstance(n, ast.AnnAssign):
            targets(n.target, sc, "assign")
        elif isinstance(n, ast.AugAssign):
            targets(n.target, sc, "augassign")
        elif isinstance(n, (ast.For, ast.AsyncFor)):
            targets(n.target, sc, "for-target")
        elif isinstance(n, (ast.With, ast.AsyncWith)):
            for it in n.items:
                if it.optional_vars is not None:
                    targets(it.optional_vars, sc, "with-target")
        elif isinstance(n, ast.NamedExpr):
            targets(n.target, sc, "walrus")
        elif isinstance(n, ast.ExceptHandler):
            if n.name:
                sc.function_scope().bind(n.name, "except-as")
        elif isinstance(n, ast.Delete):
            for t in n.targets:
                if isinstance(t, ast.Name):
                    sc.function_scope().bind(t.id, "del")
        elif isinstance(n, (ast.Import, ast.ImportFrom)):
            for a in n.names:
                sc.function_scope().bind((a.asname or a.name).split(".")[0], "local-import")
        for c in ast.iter_child_nodes(n):
            visit(c, sc)

    for s in _body(fn):
        visit(s, top)
    return top, where


def lookup(name, sc):
    while sc is not None:
        if name in sc.bound:
            return sc.bound[name]
        sc = sc.parent
    return None


# ---------------------------------------------------------------------------------- module-level bindings

class ModInfo:
    """what each identifier is bound to at module level (every binding, in source order)."""

    def __init__(self, tree: ast.Module, project=None):
        self.tree = tree
        self.project = project or {}          # module name -> ModInfo (files of the project)
        self.bind = {}

        def add(name, d):
            self.bind.setdefault(name, []).append(d)

        for st in classentries.module_statements(tree.body):
            if isinstance(st, (ast.FunctionDef, ast.AsyncFunctionDef)):
                add(st.name, ("other", "module-level-def"))
            elif isinstance(st, ast.ClassDef):
                add(st.name, ("other", "module-level-class"))
            elif isinstance(st, ast.Import):
                for a in st.names:
                    if a.asname:
                        add(a.asname, ("module", a.name))
                    else:
                        add(a.name.split(".")[0], ("module", a.name.split(".")[0]))
            elif isinstance(st, ast.ImportFrom):
                for a in st.names:
                    if a.name == "*":
                        add("*", ("star", st.module or ""))
                    else:
                        add(a.asname or a.name, ("from", (st.module or "") if not st.level else "." * st.level + (st.module or ""), a.name))
            else:
                heads = []
                if isinstance(st, ast.Assign):
                    heads = st.targets
                elif isinstance(st, (ast.AnnAssign, ast.AugAssign)):
                    heads = [st.target]
                elif isinstance(st, (ast.For, ast.AsyncFor)):
                    heads = [st.target]
                elif isinstance(st, (ast.With, ast.AsyncWith)):
                    heads = [i.optional_vars for i in st.items if i.optional_vars is not None]
                for h in heads:
                    for n in ast.walk(h):
                        if isinstance(n, ast.Name) and isinstance(n.ctx, ast.Store):
                            add(n.id, ("other", "module-level-variable"))
                for n in ast.walk(st):
                    if isinstance(n, ast.NamedExpr) and isinstance(n.target, ast.Name):
                        add(n.target.id, ("other", "module-level-variable"))

    def _plugin_of(self, d, depth=0):
        if d[0] == "from":
            _k, mod, name = d
            if mod == "collections" and name == "defaultdict":
                return "defaultdict"
            if mod == "builtins" and name in BUILTIN_PLUGINS:
                return name
            other = self.project.get(mod)
            if other is not None and other is not self and depth < 4:
                return other.denotes(name, depth + 1)[0]
        return None

    def denotes(self, name, depth=0):
        """(plug-in the identifier denotes at module level or None, status, what it is otherwise bound to)."""
        ds = self.bind.get(name)
        if not ds:
            if "*" in self.bind:
                return (name if name in BUILTIN_PLUGINS else None), "star-import-in-file", "unbound"
            if name in BUILTIN_PLUGINS:
                return name, "builtin", "builtin"
            return None, "unbound", "unbound"
        ps = [self._plugin_of(d, depth) for d in ds]
        if all(p is not None for p in ps) and len(set(ps)) == 1:
            return ps[0], "plugin", "plugin"
        if any(p is not None for p in ps):
            return next(p for p in ps if p is not None), "ambiguous", "ambiguous"
        d = ds[-1]
        return None, "other", (d[1] if d[0] == "other" else "module-level-import")

    def module_alias(self, name):
        ds = self.bind.get(name)
        if ds and all(d[0] == "module" for d in ds) and len({d[1] for d in ds}) == 1:
            return ds[0][1]
        return None


# ---------------------------------------------------------------------------------- what each call node denotes

class CallInfo:
    __slots__ = ("node", "den", "how", "modlevel", "root")


def call_infos(fn, info: ModInfo):
    """per call node of the body: the plug-in its callee DENOTES (Python's rules) or None; for None also how the
    callee's root identifier is bound (`how`) and what the module level binds the spelling to (`modlevel`)."""
    _top, where = build_scopes(fn)
    out = {}
    for n in spec.all_nodes(fn):
        if not isinstance(n, ast.Call):
            continue
        ci = CallInfo()
        ci.node, ci.den, ci.how, ci.modlevel, ci.root = n, None, None, None, None
        f = n.func
        sc = where.get(id(n))
        if isinstance(f, ast.Name):
            ci.root = f.id
            p, status, what = info.denotes(f.id)
            ci.modlevel = "plugin-binding-in-this-file" if status in ("plugin", "builtin", "ambiguous") else "no-plugin-binding-in-this-file"
            local = lookup(f.id, sc)
            if local is not None:
                ci.how = local
            elif p is not None:
                ci.den = p
            else:
                ci.how = what
        elif isinstance(f, ast.Attribute) and isinstance(f.value, ast.Name):
            ci.root = f.value.id
            mod = info.module_alias(f.value.id)
            p = None
            if mod == "collections" and f.attr == "defaultdict":
                p = "defaultdict"
            elif mod == "builtins" and f.attr in BUILTIN_PLUGINS:
                p = f.attr
            ci.modlevel = "plugin-binding-in-this-file" if p is not None else "no-plugin-binding-in-this-file"
            local = lookup(f.value.id, sc)
            if local is not None:
                ci.how = local
            elif p is not None:
                ci.den = p
            else:
                ci.how = "not-a-plugin-spelling"
        else:
            ci.how = "not-a-plugin-spelling"
        out[id(n)] = ci
    return out


# ---------------------------------------------------------------------------------- justification under a denotation

def spell_d(n, sden) -> str:
    """README spelling; a call is spelled as the dotted access only where `sden` says it is a getattr-family call."""
    if isinstance(n, ast.Name):
        return n.id
    if isinstance(n, ast.Attribute):
        return f"{spell_d(n.value, sden)}.{n.attr}"
    if isinstance(n, ast.Subscript):
        return f"{spell_d(n.value, sden)}[]"
    if isinstance(n, ast.Starred):
        return f"*{spell_d(n.value, sden)}"
    if isinstance(n, ast.Call):
        if sden.get(id(n)) in XATTR and len(n.args) >= 2:
            attr = n.args[1].value if spec.is_str_const(n.args[1]) else f"<{spell_d(n.args[1], sden)}>"
            return f"{spell_d(n.args[0], sden)}.{attr}"
        return f"{spell_d(n.func, sden)}()"
    return "@" + type(n).__name__


def justify(fn, den, sden=None, namer_only=()):
    """kind -> {name: rule}. `den`: {id(call): plug-in} decides the derivations; `sden` (default: den) decides the
    spelling of calls; `namer_only`: ids of calls spelled as getattr-family by `sden` only (no `get` of the call itself)."""
    sden = den if sden is None else sden
    just = {"get": {}, "set": {}, "del": {}, "call": {}}
    S = lambda x: spell_d(x, sden)  # noqa: E731
    for n in spec.all_nodes(fn):
        if isinstance(n, NAMEABLE):
            just[KIND[type(n.ctx)]].setdefault(S(n), "occurrence")
        if isinstance(n, ast.Call):
            sp = S(n)
            just["call"].setdefault(spec.wcb(sp), "occurrence")
            if id(n) not in namer_only:
                just["get"].setdefault(sp, "occurrence")
            recv = spec.wcb(sp).split(".")[:-1]
            for i in range(2, len(recv) + 1):
                just["get"].setdefault(".".join(recv[:i]), "receiver-prefix")
            p = den.get(id(n))
            if p in XATTR and len(n.args) >= 2:
                full = S(n)
                just[XATTR_KIND[p]].setdefault(full, "getattr-family-target")
                for q in spec.dotted_prefixes(full):
                    just["get"].setdefault(q, "getattr-family-prefix")
            if p == "sorted" and n.args:
                key = next((k.value for k in n.keywords if k.arg == "key"), None)
                if isinstance(key, ast.Lambda) and len(key.args.args) == 1:
                    it = key.args.args[0].arg
                    iterable = S(n.args[0])
                    for m in ast.walk(key.body):
                        if isinstance(m, NAMEABLE):
                            s = S(m)
                            body = s[1:] if s.startswith("*") else s
                            if body == it or body.startswith(it + ".") or body.startswith(it + "[") or body.startswith(it + "("):
                                new = ("*" if s.startswith("*") else "") + iterable + body[len(it):]
                                just[KIND[type(m.ctx)]].setdefault(new, "plugin-sorted-substitution")
            if p == "defaultdict" and n.args and isinstance(n.args[0], (ast.Name, ast.Attribute)):
                just["call"].setdefault(spec.wcb(S(n.args[0])), "plugin-defaultdict-factory")
    return just


def bound_justification(fn, info: ModInfo):
    """the upper bound: every call whose callee DENOTES a plug-in handled callable may be reported with the plug-in
    derivations — or as the ordinary call it also is (rattr does not recognise every alias: `from builtins import getattr
    as ga`, a re-export through a project file); a call whose callee denotes anything else is an ordinary call."""
    cis = call_infos(fn, info)
    den = {k: ci.den for k, ci in cis.items() if ci.den is not None}
    just = justify(fn, den)
    if den:
        plain = justify(fn, {})
        for k in just:
            for n, rule in plain[k].items():
                just[k].setdefault(n, rule)
    return just, cis, den


def classify(fn, info, kind, name, cis=None, den=None):
    """WHAT explains an unjustified (kind, name) — from the source and the name only. None: nothing about re-binding."""
    if cis is None:
        _j, cis, den = bound_justification(fn, info)
    rebound = [ci for ci in cis.values() if ci.den is None]
    # (2) the namer spells `getattr(o, 'a')` as `o.a` by the SPELLING of the callee, whatever it is bound to
    namer = {id(ci.node): ci.node.func.id for ci in rebound
             if isinstance(ci.node.func, ast.Name) and ci.node.func.id in XATTR and len(ci.node.args) >= 2}
    if namer:
        j = justify(fn, den, sden={**den, **namer}, namer_only=set(namer))
        if name in j[kind]:
            return SIG_XATTR_SPELLING
    # (1) the call was handled by the analyser of plug-in P although its callee denotes something else here
    #     (one call, or every call through the same re-bound identifier: `getattr(getattr(a, 'x'), 'y')`)
    cands = [ci for ci in sorted(rebound, key=lambda c: (c.node.lineno, c.node.col_offset)) if isinstance(ci.node.func, (ast.Name, ast.Attribute))]
    groups = [[ci] for ci in cands]
    for root in sorted({ci.root for ci in cands if ci.root is not None}):
        same = [ci for ci in cands if ci.root == root and ci.how != "not-a-plugin-spelling"]
        if len(same) > 1:
            groups.append(same)
    for grp in groups:
        ci = grp[0]
        for p in PLUGINS:
            d2 = dict(den)
            for x in grp:
                d2[id(x.node)] = p
            if name in justify(fn, d2)[kind]:
                if ci.how in LOCAL_STATEMENT_HOWS and ci.modlevel == "plugin-binding-in-this-file":
                    return SIG_LOCAL_SHADOW
                return f"plugin-handling-of-a-call-whose-callee-is-rebound:{ci.how}:{ci.modlevel}"
    return None


def rebound_detail(fn, info):
    return sorted({f"{ci.root}:{ci.how}:{ci.modlevel}" for ci in call_infos(fn, info).values()
                   if ci.den is None and ci.how != "not-a-plugin-spelling" and ci.root is not None})


def own_ir_visible(fn, info: ModInfo, project_modules=()):
    """every call node's callee is a local / a parameter / a builtin / a plug-in handled callable / a method on one of
    those: nothing can be inlined, so `-o results` / `-o ir` show the callable's OWN IR (chosen from the source)."""
    top, where = build_scopes(fn)
    for n in spec.all_nodes(fn):
        if not isinstance(n, ast.Call):
            continue
        b = n.func
        while isinstance(b, (ast.Attribute, ast.Subscript, ast.Call, ast.Starred)):
            b = b.func if isinstance(b, ast.Call) else b.value
        if not isinstance(b, ast.Name):
            return False
        if lookup(b.id, where.get(id(n))) is not None:
            continue
        ds = info.bind.get(b.id)
        if not ds:
            if "*" in info.bind:
                return False
            continue                      # a builtin or undefined
        for d in ds:
            if d[0] == "other" and d[1] != "module-level-variable":
                return False
            if d[0] == "from" and (d[1] in project_modules or d[1].startswith(".")):
                return False
            if d[0] == "module" and d[1].split(".")[0] in project_modules:
                return False
    # a factory handed to a (real) defaultdict / a key handed to sorted is recorded as a call too
    for n in spec.all_nodes(fn):
        if isinstance(n, ast.Call):
            for a in list(n.args) + [k.value for k in n.keywords]:
                if isinstance(a, ast.Name) and lookup(a.id, where.get(id(n))) is None:
                    ds = info.bind.get(a.id)
                    if ds and any(d[0] != "other" or d[1] != "module-level-variable" for d in ds):
                        return False
    return True


# ---------------------------------------------------------------------------------- generator

HEADER = '''class Bare:
    pass

def helper(z, w=0):
    return z.secret

'''


class Family:
    __slots__ = ("P", "S", "root", "imports", "tag")


class RebindGen:
    def __init__(self, rng):
        self.r = rng
        self.n = 0

    def fresh(self, p):
        self.n += 1
        return f"{p}{self.n}"

    def family(self):
        r = self.r
        f = Family()
        k = r.choice(["dd-alias", "dd-alias", "dd-alias", "dd-plain", "dd-plain", "dd-module", "sorted", "sorted", "getattr", "getattr",
                      "hasattr", "setattr", "delattr", "builtins-alias"])
        f.tag = k
        if k == "dd-alias":
            f.P, f.root = "defaultdict", r.choice(["dd", "dd", "DD", "index_of", "tally"])
            f.S, f.imports = f.root, [f"from collections import defaultdict as {f.root}"]
        elif k == "dd-plain":
            f.P, f.root, f.S, f.imports = "defaultdict", "defaultdict", "defaultdict", ["from collections import defaultdict"]
        elif k == "dd-module":
            f.P, f.root = "defaultdict", r.choice(["collections", "co"])
            f.S = f"{f.root}.defaultdict"
            f.imports = ["import collections" if f.root == "collections" else "import collections as co"]
        elif k == "builtins-alias":
            f.P, f.root = r.choice(BUILTIN_PLUGINS), r.choice(["ga", "srt", "fetch"])
            f.S, f.imports = f.root, [f"from builtins import {f.P} as {f.root}"]
        else:
            f.P, f.root, f.S, f.imports = k, k, k, []
        return f

    def call_expr(self, P, C, p):
        r, f = self.r, self.fresh
        if P == "defaultdict":
            return r.choice([f"{C}({p}.{f('fac')})", f"{C}({p}.{f('fac')})", f"{C}(list)", f"{C}(lambda: {p}.{f('lz')})",
                             f"{C}({p}.{f('m')}.{f('fac')})", f"{C}()", f"{C}({p}.{f('k')} + 1)", f"{C}({p})"])
        if P == "sorted":
            return r.choice([f"{C}({p}.{f('xs')}, key=lambda e: e.{f('k')})", f"{C}({p}.{f('xs')}, key=lambda e: e.{f('k')})",
                             f"{C}({p}.{f('xs')})", f"{C}({p}.{f('xs')}, key={p}.{f('kf')})",
                             f"{C}({p}, key=lambda e: e.{f('k')}.{f('k')})", f"{C}({p}.{f('xs')}, key=lambda e: (e.{f('k')}, e[0]))"])
        if P in ("getattr", "hasattr"):
            return r.choice([f"{C}({p}, '{f('at')}')", f"{C}({p}, '{f('at')}')", f"{C}({p}.{f('o')}, '{f('at')}')",
                             f"{C}({C}({p}, '{f('at')}'), '{f('at')}')", f"{C}({p}, '{f('at')}', None)"])
        if P == "setattr":
            return r.choice([f"{C}({p}, '{f('at')}', {p}.{f('v')})", f"{C}({p}.{f('o')}, '{f('at')}', 1)"])
        if P == "delattr":
            return r.choice([f"{C}({p}, '{f('at')}')", f"{C}({p}.{f('o')}, '{f('at')}')"])
        raise AssertionError(P)

    def use_stmt(self, P, C, p):
        r, f = self.r, self.fresh
        e = self.call_expr(P, C, p)
        forms = [[f"return {e}"], [e], [f"{f('loc')} = {e}"], [f"if {e}:", "    pass"]]
        if P in ("getattr",):
            forms += [[f"{e}.{f('c')}"], [f"{f('loc')} = {e}.{f('c')}"]]
        if P in ("sorted", "defaultdict"):
            forms += [[f"for {f('t')} in {e}:", f"    {p}.{f('g')}"]]
        return r.choice(forms)

    def use_fn(self, name, fam: Family):
        r = self.r
        body = []
        for _ in range(r.randint(1, 2)):
            body += self.use_stmt(fam.P, fam.S, "a")
        if r.random() < 0.5:
            body.insert(0, f"b.{self.fresh('g')}")
        body = self._returns_last(body)
        return [f"def {name}(a, b):"] + ["    " + l for l in body]

    @staticmethod
    def _returns_last(body):
        # a `return` may only be the last statement of the generated straight-line body
        out = []
        for i, l in enumerate(body):
            if l.startswith("return ") and i != len(body) - 1:
                out.append(l[len("return "):])
            else:
                out.append(l)
        return out

    LOCAL_HOWS = ["parameter", "parameter", "parameter", "kwonly-parameter", "vararg-parameter", "assign", "tuple-assign", "for-target",
                  "with-target", "walrus", "nested-def", "nested-lambda", "comprehension-target", "lambda-parameter",
                  "nested-def-parameter", "except-as", "named-lambda", "init-parameter", "static-parameter", "async-parameter"]
    MODULE_HOWS = ["module-level-def", "module-level-class", "module-level-variable"]
    # a module-level definition NAMED LIKE A BUILTIN is outside the generated fragment: the pinned root-context builder keeps
    # the builtin (`def getattr` -> "function 'getattr' is not defined in the current context", `class sorted` -> ValueError)
    ALIAS_TAGS = ("dd-alias", "dd-plain", "builtins-alias")

    def rebound_unit(self, name, fam: Family, how):
        """lines of ONE module-level unit in which `fam.root` is bound to something else and `fam.S(…)` is called."""
        r, f = self.r, self.fresh
        R, C, P = fam.root, fam.S, fam.P
        stmts = self._returns_last(self.use_stmt(P, C, "a") + (self.use_stmt(P, C, "a") if r.random() < 0.3 else []))
        ind = lambda ls, k=1: ["    " * k + l for l in ls]  # noqa: E731
        if how == "parameter":
            ps = r.choice([f"{R}, a", f"a, {R}", f"a, {R}=None", f"{R}, /, a"])
            return [f"def {name}({ps}):"] + ind(stmts)
        if how == "async-parameter":
            return [f"async def {name}(a, {R}):"] + ind(stmts)
        if how == "kwonly-parameter":
            return [f"def {name}(a, *, {R}):"] + ind(stmts)
        if how == "vararg-parameter":
            return [f"def {name}(a, {r.choice(['*', '**'])}{R}):"] + ind(stmts)
        if how == "assign":
            return [f"def {name}(a):", f"    {R} = a.{f('cb')}"] + ind(stmts)
        if how == "tuple-assign":
            return [f"def {name}(a):", f"    {R}, {f('o')} = a.{f('pair')}"] + ind(stmts)
        if how == "for-target":
            return [f"def {name}(a):", f"    for {R} in a.{f('fs')}:"] + ind(stmts, 2)
        if how == "with-target":
            return [f"def {name}(a):", f"    with a.{f('cm')} as {R}:"] + ind(stmts, 2)
        if how == "walrus":
            return [f"def {name}(a):", f"    if ({R} := a.{f('cb')}):"] + ind(stmts, 2)
        if how == "except-as":
            return [f"def {name}(a):", "    try:", f"        a.{f('g')}", f"    except a.{f('Err')} as {R}:"] + ind(stmts, 2)
        if how == "nested-def":
            return [f"def {name}(a):", f"    def {R}(x, y=None, key=None):", f"        return x.{f('inner')}"] + ind(stmts)
        if how == "nested-lambda":
            return [f"def {name}(a):", f"    {R} = lambda x, y=None, key=None: x.{f('inner')}"] + ind(stmts)
        if how == "comprehension-target":
            e = self.call_expr(P, C, "a")
            return [f"def {name}(a):", f"    return [{e} for {R} in a.{f('fs')}]"]
        if how == "lambda-parameter":
            e = self.call_expr(P, C, "a")
            return [f"def {name}(a):", f"    return (lambda {R}: {e})"]
        if how == "nested-def-parameter":
            return [f"def {name}(a):", f"    def {f('inner')}({R}):"] + ind(stmts, 2) + [f"    return a.{f('g')}"]
        if how == "named-lambda":
            e = self.call_expr(P, C, "a")
            return [f"{name} = lambda {R}, a: {e}"]
        if how == "init-parameter":
            stmts = [s if not s.startswith("return ") else s[len("return "):] for s in stmts]
            return [f"class {name}:", f"    def __init__(self, {R}, a):"] + ind(stmts, 2) + [f"        self.{f('f')} = a"]
        if how == "static-parameter":
            return [f"class {name}:", "    @staticmethod", f"    def {f('sm')}({R}, a):"] + ind(stmts, 2)
        raise AssertionError(how)

    def module_rebinding(self, fam: Family, how):
        """a module-level definition of `fam.root` as something else (only in a file that does NOT import the plug-in)."""
        f = self.fresh
        R = fam.root
        if how == "module-level-def":
            return [f"def {R}(x, y=None, z=None, key=None):", f"    return x.{f('own')}"]
        if how == "module-level-class":
            return [f"class {R}:", "    def __init__(self, x, y=None, z=None, key=None):", f"        self.{f('f')} = x.{f('own')}"]
        return [f"{R} = Bare()"]

    def caller_of_module_binding(self, name, fam: Family):
        stmts = self._returns_last(self.use_stmt(fam.P, fam.S, "a"))
        return [f"def {name}(a):"] + ["    " + l for l in stmts]

    # ---- files

    def file(self, fams, role, imports=(), extra_units=()):
        """role: 'use' (the spelling is the plug-in callable, genuine uses), 'rebound' (the spelling is bound to something else in
        the callables; the file may or may not import the plug-in under the same spelling), 'both:use-first', 'both:rebound-first',
        'module' (the file binds the spelling to something else at MODULE level)."""
        r = self.r
        lines = []
        units = []
        for fam in fams:
            uses = [self.use_fn(self.fresh("use"), fam) for _ in range(r.randint(1, 2))]
            if role == "module":
                lines_m = self.module_rebinding(fam, r.choice(self.MODULE_HOWS))
                units.append(lines_m)
                units.append(self.caller_of_module_binding(self.fresh("calls_own"), fam))
                units.append(self.rebound_unit(self.fresh("rb"), fam, "parameter"))
                continue
            rebs = [self.rebound_unit(self.fresh("rb"), fam, r.choice(self.LOCAL_HOWS)) for _ in range(r.randint(1, 3))]
            if role == "use":
                lines += fam.imports
                units += uses
            elif role == "rebound":
                if r.random() < 0.5:
                    lines += fam.imports          # parameters / locals shadow the file's OWN import of the plug-in
                units += rebs
            elif role == "both:use-first":
                lines += fam.imports
                units += uses + rebs
            elif role == "both:rebound-first":
                lines += fam.imports
                units += rebs + uses
            elif role == "both:mixed":
                lines += fam.imports
                mix = uses + rebs
                r.shuffle(mix)
                units += mix
            else:
                raise AssertionError(role)
        out = list(dict.fromkeys(lines)) + list(imports) + [""] + HEADER.split("\n")
        for u in list(units) + list(extra_units):
            src = "\n".join(u)
            try:
                compile(src, "<gen>", "exec")
            except SyntaxError:
                continue
            out += u + [""]
        return "\n".join(out) + "\n"

    def project(self):
        r = self.r
        fams = [self.family()]
        if r.random() < 0.3:
            g = self.family()
            if g.root != fams[0].root:
                fams.append(g)
        shape = r.choice(["same-file:use-first", "same-file:rebound-first", "same-file:mixed", "import:use-in-import", "import:use-in-import",
                          "import:rebound-in-import", "import:both-in-import", "import:module-binding-in-target", "chain:use-deepest",
                          "import:module-binding-in-import"])
        use_cmod = ["def via_cmod(a):", f"    return cmod.helper(a.{self.fresh('v')})"]
        files = {}
        if shape.startswith("same-file:"):
            files["target.py"] = self.file(fams, "both:" + shape.split(":")[1])
        elif shape == "import:use-in-import":
            files["cmod.py"] = self.file(fams, "use")
            files["target.py"] = self.file(fams, "rebound", imports=["import cmod"], extra_units=[use_cmod])
        elif shape == "import:rebound-in-import":
            files["cmod.py"] = self.file(fams, "rebound")
            files["target.py"] = self.file(fams, "use", imports=["import cmod"], extra_units=[use_cmod])
        elif shape == "import:both-in-import":
            files["cmod.py"] = self.file(fams, r.choice(["both:use-first", "both:rebound-first"]))
            files["target.py"] = self.file(fams, "rebound", imports=[r.choice(["import cmod", "from cmod import helper as ch"])])
        elif shape == "import:module-binding-in-target":
            files["cmod.py"] = self.file(fams, "use")
            files["target.py"] = self.file([f for f in fams if f.tag in self.ALIAS_TAGS] or [self._dd_alias()], "module", imports=["import cmod"],
                                           extra_units=[use_cmod])
        elif shape == "import:module-binding-in-import":
            files["cmod.py"] = self.file([f for f in fams if f.tag in self.ALIAS_TAGS] or [self._dd_alias()], "module")
            files["target.py"] = self.file(fams, "both:use-first", imports=["import cmod"], extra_units=[use_cmod])
        else:
            files["cdeep.py"] = self.file(fams, "use")
            files["cmod.py"] = self.file(fams, r.choice(["rebound", "both:rebound-first"]), imports=["import cdeep"])
            files["target.py"] = self.file(fams, "rebound", imports=["import cmod"], extra_units=[use_cmod])
        return files, "rebind:" + shape

    def _dd_alias(self):
        f = Family()
        f.tag, f.P, f.root, f.S, f.imports = "dd-alias", "defaultdict", "dd", "dd", ["from collections import defaultdict as dd"]
        return f


# the reviewers' situation written out, its mirror images and its siblings (small: a replay is readable)
CURATED = [
    # the same spelling: alias of defaultdict in the followed import, a callback PARAMETER in the target
    {"cmod.py": "from collections import defaultdict as dd\n\ndef make_index(rows):\n    index = dd(list)\n    return index\n",
     "target.py": "from cmod import make_index\n\ndef lookup(dd, a):\n    return dd(a.b)\n"},
    # … in one file, use first
    {"target.py": "from collections import defaultdict as dd\n\ndef make_index(rows):\n    index = dd(rows.factory)\n    return index\n\n"
                  "def lookup(dd, a):\n    return dd(a.b)\n\npick = lambda dd, a: dd(a.c)\n\n"
                  "class Job:\n    def __init__(self, dd, a):\n        self.v = dd(a.d)\n    @staticmethod\n    def of(a, *, dd):\n        return dd(a.e)\n"},
    # … in one file, the parameter first
    {"target.py": "from collections import defaultdict\nimport collections as co\n\ndef lookup(defaultdict, co, a):\n    co.defaultdict(a.m)\n    return defaultdict(a.b)\n\n"
                  "def make_index(rows):\n    j = co.defaultdict(rows.f)\n    return defaultdict(rows.g)\n"},
    # builtins as parameters / the real ones, both orders
    {"target.py": "def real(a):\n    sorted(a.xs, key=lambda e: e.k)\n    return getattr(a, 'n')\n\n"
                  "def callback(sorted, a):\n    return sorted(a.ys, key=lambda e: e.q)\n\n"
                  "def callback2(a, setattr, delattr):\n    setattr(a.o, 'p', a.v)\n    delattr(a, 'w')\n\n"
                  "def real2(a):\n    setattr(a, 's', a.t)\n    delattr(a.u, 'z')\n    return hasattr(a, 'h')\n"},
    # the namer spells a call to a PARAMETER named getattr as the dotted access (known finding)
    {"target.py": "def look(getattr, a):\n    return getattr(a, 'b')\n"},
    # a local binding statement does not shadow the module-level binding (known finding)
    {"target.py": "from collections import defaultdict as dd\n\ndef local(a):\n    dd = a.cb\n    return dd(a.b)\n\n"
                  "def loop(a):\n    for sorted in a.fs:\n        sorted(a.xs, key=lambda e: e.k)\n\n"
                  "def nested(a):\n    def dd(x):\n        return x.y\n    return dd(a.c)\n"},
    # the other file binds the spelling at MODULE level to its own function
    {"cmod.py": "from collections import defaultdict as dd\n\ndef make(rows):\n    return dd(rows.fac)\n",
     "target.py": "import cmod\n\ndef dd(x):\n    return x.own\n\ndef calls_own(a):\n    return dd(a.b)\n"},
]


# ---------------------------------------------------------------------------------- the stage

def _entry_names(im):
    return {"gets": [n for n, _b in im["gets"]], "sets": [n for n, _b in im["sets"]], "dels": [n for n, _b in im["dels"]],
            "calls": sorted({spec.wcb(c["name"]) for c in im["calls"]})}


def _alone_source(tree: ast.Module, keep_name):
    """the module without the other analysed callables (defs / classes / named lambdas the kept one does not mention)."""
    kept = next((n for n in tree.body if isinstance(n, (ast.FunctionDef, ast.AsyncFunctionDef)) and n.name == keep_name), None)
    if kept is None:
        return None
    mentioned = {n.id for n in ast.walk(kept) if isinstance(n, ast.Name)}
    body = []
    for st in tree.body:
        if st is kept:
            body.append(st)
        elif isinstance(st, (ast.FunctionDef, ast.AsyncFunctionDef, ast.ClassDef)):
            if st.name in mentioned:
                body.append(st)
        elif isinstance(st, (ast.Assign, ast.AnnAssign)) and isinstance(getattr(st, "value", None), ast.Lambda):
            names = {n.id for n in ast.walk(st) if isinstance(n, ast.Name) and isinstance(n.ctx, ast.Store)}
            if names & mentioned:
                body.append(st)
        else:
            body.append(st)
    return ast.unparse(ast.Module(body=body, type_ignores=[]))


def _cli(project: Path, output, follow=None):
    env = dict(os.environ, PYTHONHASHSEED="0", PYTHONDONTWRITEBYTECODE="1")
    argv = [sys.executable, "-m", "rattr", "-w", "none", "-o", output]
    if follow is not None:
        argv += ["-f", str(follow)]
    p = subprocess.run(argv + ["target.py"], cwd=str(project), env=env, capture_output=True, text=True, timeout=180)
    if p.returncode != 0:
        return None
    try:
        return json.loads(p.stdout)
    except Exception:  # noqa
        return None


def run_stage(res, rng, tier, model):
    quick = tier == "quick"
    n_proj = 16 if quick else 400
    n_cli = 3 if quick else 40
    n_alone_cli = 5 if quick else 60
    g = RebindGen(rng)
    projects = [(dict(f), "rebind:curated") for f in CURATED]
    for _ in range(n_proj):
        projects.append(g.project())
    judged = 0
    deferred = []
    all_cases, all_reqs, all_meta = [], [], []
    tmp = Path(tempfile.mkdtemp(prefix="rattr-c02-rebind-"))
    try:
        for pi, (files, shape) in enumerate(projects):
            root = tmp / f"p{pi}"
            root.mkdir()
            mods = {rel[:-3].replace("/", "."): src for rel, src in files.items()}
            infos = {}
            for m, src in mods.items():
                infos[m] = ModInfo(ast.parse(src), infos)
            by_tree = {}

            def info_of(tree, _infos=infos, _by=by_tree):
                k = id(tree)
                if k not in _by:
                    _by[k] = (tree, ModInfo(tree, _infos))      # (the tree is kept alive: ids stay unique)
                return _by[k][1]

            def allowed_fn(tree, c):
                if c.kind in ("def", "init", "static", "lambda"):
                    return bound_justification(c.node, info_of(tree))[0]
                return classentries.allowed_of(c)

            def classify_fn(tree, c, kind, n):
                if c.kind in ("def", "init", "static", "lambda"):
                    s = classify(c.node, info_of(tree), kind, n)
                    if s is not None:
                        res.count("rebind:explained:" + s.split(":")[0])
                    return s
                return None

            def free_fn(tree, cands, name, _mods=tuple(mods)):
                cs = cands.get(name, [])
                return bool(cs) and all(c.kind in ("def", "init", "static", "lambda") and own_ir_visible(c.node, info_of(tree), _mods) for c in cs)

            is_curated = shape.endswith("curated")
            want_cli = pi < 4 or (not is_curated and n_cli > 0)
            out = {}
            j, used = classentries.run_project(res, model, root, files, shape, pi, want_cli, tag="rebind", always_cli=True,
                                               with_results=(pi % 3 == 0), nontrivial_kinds=("def", "lambda", "static", "init"), deferred=deferred,
                                               allowed_fn=allowed_fn, classify_fn=classify_fn, free_fn=free_fn, out=out)
            judged += j
            if used and not is_curated:
                n_cli -= 1

            # ---- the capture route: imports first (the order the pipeline analyses them in), then the target
            order = [r for r in ("cdeep.py", "cmod.py", "target.py") if r in files]
            for rel in order:
                src = files[rel]
                cases, reqs = sigcases.capture(src, rel=rel, project=root, where="rebind:" + ("target" if rel == "target.py" else "import"))
                tree = ast.parse(src)
                info = ModInfo(tree, infos)
                all_meta += [(files, shape, info)] * len(cases)
                all_cases += cases
                all_reqs += reqs
                # ---- freshness in-process: a module-level def analysed in a fresh root context of the file WITHOUT its siblings
                for c in cases:
                    if not isinstance(c.fn, (ast.FunctionDef, ast.AsyncFunctionDef)) or c.cls is not None or c.im["outcome"] != "ok":
                        continue
                    alone = _alone_source(tree, c.name)
                    if alone is None:
                        continue
                    with impl.in_dir(str(root)):
                        t2, ctx2 = vl.prepare(alone)
                        fn2 = next((n for n in t2.body if isinstance(n, (ast.FunctionDef, ast.AsyncFunctionDef)) and n.name == c.name), None)
                        if fn2 is None:
                            continue
                        im2, _ = vl.analyse_function(fn2, ctx2)
                    res.evaluations += 1
                    a, b = _entry_names(c.im), _entry_names(im2)
                    if a == b:
                        res.count("rebind:fresh-in-process:same")
                    else:
                        res.count("rebind:fresh-in-process:differs")
                        res.violations.append({"signature": "ir-depends-on-sibling-functions",
                                               "case": {"files": files, "file": rel, "function": c.fn_src, "route": "in-process: in sequence vs alone"},
                                               "with_siblings": a, "alone": b, "rebound": rebound_detail(c.fn, info)})

            # ---- freshness across processes: the target's own-IR-visible defs, alone (`-f 0`, siblings removed, fresh process)
            doc = out.get("cli_ir")
            if doc is not None and n_alone_cli > 0:
                ttree = ast.parse(files["target.py"])
                tinfo = ModInfo(ttree, infos)
                full = {e["name"]: e["ir"] for e in classentries.cli_ir_snapshot(doc)["target"]}
                picks = [n for n in ttree.body if isinstance(n, (ast.FunctionDef, ast.AsyncFunctionDef)) and n.name in full
                         and own_ir_visible(n, tinfo, tuple(mods)) and any(isinstance(x, ast.Call) for x in ast.walk(n))]
                picks = [n for n in picks if rebound_detail(n, tinfo)] or picks
                for fn in picks[: (2 if not is_curated else 1)]:
                    if n_alone_cli <= 0:
                        break
                    alone = _alone_source(ttree, fn.name)
                    adir = root / f"alone_{fn.name}"
                    adir.mkdir()
                    classentries.write_project(adir, files)        # the imported files exist; `-f 0`: none is analysed
                    (adir / "target.py").write_text(alone)
                    n_alone_cli -= 1
                    d2 = _cli(adir, "ir", follow=0)
                    res.evaluations += 1
                    if d2 is None and os.environ.get("C02_DEBUG"):
                        print("ALONE CLI FAILED\n" + alone, file=sys.stderr)
                    if d2 is None:
                        res.count("rebind:fresh-process:cli-failed")
                        continue
                    one = {e["name"]: e["ir"] for e in classentries.cli_ir_snapshot(d2)["target"]}.get(fn.name)
                    if one == full[fn.name]:
                        res.count("rebind:fresh-process:same")
                    else:
                        res.count("rebind:fresh-process:differs")
                        res.violations.append({"signature": SIG_DEPENDS,
                                               "case": {"files": files, "file": "target.py", "function": ast.unparse(fn),
                                                        "route": "CLI -o ir: the project (imports followed) vs the function alone (-f 0, fresh process)",
                                                        "alone_file": alone},
                                               "in_sequence": full[fn.name], "alone": one, "rebound": rebound_detail(fn, tinfo)})
        classentries.flush_model(res, model, deferred)
    finally:
        shutil.rmtree(tmp, ignore_errors=True)

    # ---- the captured callables: Lean model (`Callable.analyse` in the context of that moment) + the binding-aware oracle
    outs = model.batch(all_reqs)
    for c, mo, (files, shape, info) in zip(all_cases, outs, all_meta):
        res.evaluations += 1
        case = {"files": files, "file": c.file, "function": c.fn_src,
                "route": "FunctionAnalyser.analyse() as started by the real FileAnalyser (" + c.where + "), files analysed imports-first in one process"}
        diff = "model error: " + str(mo["__error__"]) if "__error__" in mo else vl.compare(c.im, mo)
        if diff is not None:
            res.disagreements.append({"case": case, "diff": diff[:2000]})
        res.count(f"rebind:callable:{c.where}:{sigcases.definition_kind(c)}")
        if c.im["outcome"] != "ok":
            res.count("rebind:outcome:" + c.im["outcome"])
            continue
        just, cis, den = bound_justification(c.fn, info)
        for ci in cis.values():
            if ci.den is not None:
                res.count("rebind:call:denotes-plugin:" + ci.den)
            elif ci.how != "not-a-plugin-spelling":
                res.count(f"rebind:call:rebound:{ci.how}:{ci.modlevel}")
        n_names = 0
        reported = [(k, full) for k in ("get", "set", "del") for full, _b in c.im[k + "s"]] + \
                   [("call", spec.wcb(x["name"])) for x in c.im["calls"]]
        for kind, name in reported:
            n_names += 1
            rule = just[kind].get(name)
            if rule is not None:
                res.count("rebind:justified:" + rule)
                continue
            sig = classify(c.fn, info, kind, name, cis, den)
            if sig is None:
                part = sigspec.only_in_signature(c.fn, kind, name, cls=c.cls, assign=c.assign)
                if part is not None:
                    sig = f"phantom-{kind}:only-in-own-signature:{part}"
                elif kind == "call":
                    sig = "phantom-call"
                else:
                    other = [k for k in ("get", "set", "del") if name in just[k]]
                    sig = f"phantom-{kind}:" + ("wrong-kind-body-has-" + "+".join(other) if other else "no-such-expression")
            res.count("verdict:" + sig)
            res.violations.append({"signature": sig, "case": case, "name": name, "kind": kind, "rebound": rebound_detail(c.fn, info),
                                   "reported": _entry_names(c.im)})
        if n_names >= 2 and rebound_detail(c.fn, info):
            res.nontrivial.add(common.digest(c.fn_src + c.file))
    res.extra["rebind_entries_judged"] = judged
    res.extra["rebind_callables_captured"] = len(all_cases)
    return judged

"""Independent straight-line binder for C17: which names are bound at a given position of a
function body, by which construct (Python's local binding rules, read top to bottom)."""
from __future__ import annotations

import ast
import builtins

SCOPES = (ast.FunctionDef, ast.AsyncFunctionDef, ast.Lambda, ast.ClassDef)
MODULE_DUNDERS = {"__annotations__", "__builtins__", "__cached__", "__doc__", "__file__", "__loader__", "__name__",
                  "__package__", "__spec__"}
BUILTINS = set(dir(builtins))

EXEMPT = "exempt"


def pos_in(node, line, col):
    if not hasattr(node, "lineno"):
        return False
    start = (node.lineno, node.col_offset)
    end = (node.end_lineno, node.end_col_offset)
    return start <= (line, col) < end


def target_names(t):
    """Names bound by an assignment-like target (bare names only; attributes / items bind nothing)."""
    if isinstance(t, ast.Name):
        return [t.id]
    if isinstance(t, (ast.Tuple, ast.List)):
        return [n for e in t.elts for n in target_names(e)]
    if isinstance(t, ast.Starred):
        return target_names(t.value)
    return []


def pattern_captures(p):
    out = []
    for n in ast.walk(p):
        if isinstance(n, ast.MatchAs) and n.name:
            out.append(n.name)
        elif isinstance(n, ast.MatchStar) and n.name:
            out.append(n.name)
        elif isinstance(n, ast.MatchMapping) and n.rest:
            out.append(n.rest)
    return out


def walruses(expr):
    """(name, inside_comprehension) for every walrus in an expression, not entering nested scopes."""
    out = []

    def go(n, in_comp):
        if isinstance(n, SCOPES):
            return
        if isinstance(n, ast.NamedExpr) and isinstance(n.target, ast.Name):
            out.append((n.target.id, in_comp))
        comp = in_comp or isinstance(n, (ast.ListComp, ast.SetComp, ast.DictComp, ast.GeneratorExp))
        for c in ast.iter_child_nodes(n):
            go(c, comp)

    if expr is not None:
        go(expr, False)
    return out


class Bound(dict):
    """name -> construct"""

    def bind(self, name, how):
        self[name] = how

    def unbind(self, name):
        self.pop(name, None)


def expr_children(stmt):
    """expression children of a statement (not its nested statement blocks)."""
    for _, v in ast.iter_fields(stmt):
        if isinstance(v, ast.expr):
            yield v
        elif isinstance(v, list):
            for i in v:
                if isinstance(i, ast.expr):
                    yield i
                elif isinstance(i, (ast.withitem, ast.keyword)):
                    yield from (x for x in ast.iter_child_nodes(i) if isinstance(x, ast.expr))


def apply_walruses(stmt_or_expr, b: Bound):
    for e in ([stmt_or_expr] if isinstance(stmt_or_expr, ast.expr) else list(expr_children(stmt_or_expr))):
        for name, in_comp in walruses(e):
            b.bind(name, "walrus-inside-comprehension" if in_comp else "walrus")


def apply(stmt, b: Bound):
    """Effect of a whole statement (incl. its nested blocks, read in source order) on the bound set."""
    if isinstance(stmt, (ast.FunctionDef, ast.AsyncFunctionDef)):
        b.bind(stmt.name, "def")
        return
    if isinstance(stmt, ast.ClassDef):
        b.bind(stmt.name, "class")
        return
    apply_walruses(stmt, b)
    if isinstance(stmt, ast.Assign):
        for t in stmt.targets:
            for n in target_names(t):
                b.bind(n, "assign")
    elif isinstance(stmt, ast.AugAssign):
        for n in target_names(stmt.target):
            b.bind(n, "augassign")
    elif isinstance(stmt, ast.AnnAssign):
        if stmt.value is not None:
            for n in target_names(stmt.target):
                b.bind(n, "annassign")
    elif isinstance(stmt, ast.Delete):
        for t in stmt.targets:
            for n in target_names(t):
                b.unbind(n)
    elif isinstance(stmt, (ast.For, ast.AsyncFor)):
        for n in target_names(stmt.target):
            b.bind(n, "for")
        apply_block(stmt.body, b)
        apply_block(stmt.orelse, b)
    elif isinstance(stmt, (ast.While, ast.If)):
        apply_block(stmt.body, b)
        apply_block(stmt.orelse, b)
    elif isinstance(stmt, (ast.With, ast.AsyncWith)):
        for it in stmt.items:
            if it.optional_vars is not None:
                for n in target_names(it.optional_vars):
                    b.bind(n, "with")
        apply_block(stmt.body, b)
    elif isinstance(stmt, (ast.Try, getattr(ast, "TryStar", ast.Try))):
        apply_block(stmt.body, b)
        for h in stmt.handlers:
            if h.name:
                b.bind(h.name, "except")
            apply_block(h.body, b)
            if h.name:
                b.unbind(h.name)         # Python deletes the name at the end of the handler
        apply_block(stmt.orelse, b)
        apply_block(stmt.finalbody, b)
    elif isinstance(stmt, ast.Match):
        for c in stmt.cases:
            for n in pattern_captures(c.pattern):
                b.bind(n, "match")
            apply_block(c.body, b)
    elif isinstance(stmt, (ast.Import, ast.ImportFrom)):
        for a in stmt.names:
            b.bind((a.asname or a.name).split(".")[0] if isinstance(stmt, ast.Import) and not a.asname else (a.asname or a.name), "import")


def apply_block(stmts, b):
    for s in stmts:
        apply(s, b)


def comprehension_bindings(expr, line, col, b: Bound):
    """Add targets of every comprehension of `expr` that contains the position; returns EXEMPT if the
    position is inside a lambda."""
    res = None
    for n in ast.walk(expr):
        if isinstance(n, ast.Lambda) and pos_in(n, line, col):
            res = EXEMPT
        if isinstance(n, (ast.ListComp, ast.SetComp, ast.DictComp, ast.GeneratorExp)) and pos_in(n, line, col):
            for g in n.generators:
                for name in target_names(g.target):
                    b.bind(name, "comprehension")
    return res


def read_block(stmts, b: Bound, line, col):
    for s in stmts:
        if pos_in(s, line, col):
            return read_inside(s, b, line, col)
        apply(s, b)
    return None


def read_inside(s, b: Bound, line, col):
    if isinstance(s, SCOPES):
        return EXEMPT
    # header expressions of compound statements / the whole simple statement
    if isinstance(s, (ast.For, ast.AsyncFor)):
        if pos_in(s.iter, line, col) or pos_in(s.target, line, col):
            return expr_pos(s.iter if pos_in(s.iter, line, col) else s.target, b, line, col)
        for n in target_names(s.target):
            b.bind(n, "for")
        r = read_block(s.body, b, line, col)
        if r is not None:
            return r
        return read_block(s.orelse, b, line, col)
    if isinstance(s, (ast.While, ast.If)):
        if pos_in(s.test, line, col):
            return expr_pos(s.test, b, line, col)
        apply_walruses(s.test, b)
        r = read_block(s.body, b, line, col)
        if r is not None:
            return r
        return read_block(s.orelse, b, line, col)
    if isinstance(s, (ast.With, ast.AsyncWith)):
        for it in s.items:
            if pos_in(it.context_expr, line, col):
                return expr_pos(it.context_expr, b, line, col)
            if it.optional_vars is not None:
                if pos_in(it.optional_vars, line, col):
                    return expr_pos(it.optional_vars, b, line, col)
                for n in target_names(it.optional_vars):
                    b.bind(n, "with")
        return read_block(s.body, b, line, col)
    if isinstance(s, (ast.Try, getattr(ast, "TryStar", ast.Try))):
        r = read_block(s.body, b, line, col)
        if r is not None:
            return r
        for h in s.handlers:
            if h.type is not None and pos_in(h.type, line, col):
                return expr_pos(h.type, b, line, col)
            if h.name:
                b.bind(h.name, "except")
            r = read_block(h.body, b, line, col)
            if r is not None:
                return r
            if h.name:
                b.unbind(h.name)
        r = read_block(s.orelse, b, line, col)
        if r is not None:
            return r
        return read_block(s.finalbody, b, line, col)
    if isinstance(s, ast.Match):
        if pos_in(s.subject, line, col):
            return expr_pos(s.subject, b, line, col)
        for c in s.cases:
            if pos_in(c.pattern, line, col):
                return expr_pos(c.pattern, b, line, col)
            for n in pattern_captures(c.pattern):
                b.bind(n, "match")
            if c.guard is not None and pos_in(c.guard, line, col):
                return expr_pos(c.guard, b, line, col)
            r = read_block(c.body, b, line, col)
            if r is not None:
                return r
        return None
    # simple statement
    return expr_pos(s, b, line, col)


def expr_pos(node, b: Bound, line, col):
    r = comprehension_bindings(node, line, col, b)
    if r is EXEMPT:
        return EXEMPT
    for n in ast.walk(node):
        if isinstance(n, SCOPES) and pos_in(n, line, col):
            return EXEMPT
    return b


def module_bound(tree: ast.Module):
    b = Bound()
    for n in BUILTINS:
        b[n] = "builtin"
    for n in MODULE_DUNDERS:
        b[n] = "module-dunder"

    def go(stmts):
        for s in stmts:
            if isinstance(s, ast.Import):
                for a in s.names:
                    if a.asname:
                        b.bind(a.asname, "module-import")
                    else:
                        top = a.name.split(".")[0]
                        b.bind(top, "module-import" if "." not in a.name else "module-dotted-import")
            elif isinstance(s, ast.ImportFrom):
                for a in s.names:
                    b.bind(a.asname or a.name, "module-import")
            elif isinstance(s, (ast.FunctionDef, ast.AsyncFunctionDef)):
                b.bind(s.name, "module-def")
            elif isinstance(s, ast.ClassDef):
                b.bind(s.name, "module-class")
            elif isinstance(s, (ast.Assign, ast.AugAssign, ast.AnnAssign)):
                ts = s.targets if isinstance(s, ast.Assign) else [s.target]
                if not (isinstance(s, ast.AnnAssign) and s.value is None):
                    for t in ts:
                        for n in target_names(t):
                            b.bind(n, "module-assign")
            elif isinstance(s, (ast.If, ast.For, ast.AsyncFor, ast.While)):
                if isinstance(s, (ast.For, ast.AsyncFor)):
                    for n in target_names(s.target):
                        b.bind(n, "module-assign")
                go(s.body)
                go(s.orelse)
            elif isinstance(s, (ast.With, ast.AsyncWith)):
                go(s.body)
            elif isinstance(s, ast.Try):
                go(s.body)
                for h in s.handlers:
                    go(h.body)
                go(s.orelse)
                go(s.finalbody)
    go(tree.body)
    return b


def bound_at(tree, fn, line, col):
    """Bound set (name -> construct) at a position of fn's body, or EXEMPT / None."""
    b = module_bound(tree)
    a = fn.args
    for p in [*a.posonlyargs, *a.args, *a.kwonlyargs] + ([a.vararg] if a.vararg else []) + ([a.kwarg] if a.kwarg else []):
        b.bind(p.arg, "parameter")
    return read_block(fn.body, b, line, col)


def bound_anywhere(tree):
    """every identifier bound by any construct anywhere in the file."""
    names = set(BUILTINS) | MODULE_DUNDERS
    for n in ast.walk(tree):
        if isinstance(n, ast.Name) and isinstance(n.ctx, (ast.Store, ast.Del)):
            names.add(n.id)
        elif isinstance(n, ast.arg):
            names.add(n.arg)
        elif isinstance(n, (ast.FunctionDef, ast.AsyncFunctionDef, ast.ClassDef)):
            names.add(n.name)
        elif isinstance(n, ast.alias):
            names.add((n.asname or n.name).split(".")[0])
        elif isinstance(n, ast.ExceptHandler) and n.name:
            names.add(n.name)
        elif isinstance(n, (ast.MatchAs, ast.MatchStar)) and n.name:
            names.add(n.name)
        elif isinstance(n, ast.MatchMapping) and n.rest:
            names.add(n.rest)
        elif isinstance(n, (ast.Global, ast.Nonlocal)):
            names.update(n.names)
    return names

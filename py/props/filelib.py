"""Harness for the root-context (S2) and file / class analyser (S4) stages.

ast.Module -> the model's `Top` JSON, the per-case location facts (computed by the REAL locator
functions: they are C12's / C13's subject, not this model's), real `compile_root_context` /
`FileAnalyser(...).analyse()` runs in a temp project, snapshots and comparison.
"""
from __future__ import annotations

import ast
import re
import shutil
import tempfile
from pathlib import Path

import impl
from props import visitlib as vl
from props.c11 import enc_lit

from rattr.analyser.file import FileAnalyser
from rattr.analyser.util import is_excluded_name
from rattr.config import Config
from rattr.config.state import enter_file
from rattr.models.context import compile_root_context
from rattr.models.symbol import PYTHON_BUILTINS, Import
from rattr.module_locator.util import (
    derive_absolute_module_name,
    derive_module_name_from_path,
    find_module_name_and_spec,
    is_in_import_blacklist,
    module_exists,
)


class OutsideFragment(Exception):
    pass


# ------------------------------------------------------------------ ast -> Top JSON


def deco_json(node):
    n, head = node, None
    while True:
        if isinstance(n, ast.Name):
            head = n.id
            break
        if isinstance(n, ast.Attribute):
            head = n.attr
            break
        if isinstance(n, ast.Call):
            n = n.func
            continue
        break
    call = None
    if isinstance(node, ast.Call):
        call = {"pos": [enc_lit(a) for a in node.args], "kws": [[k.arg, enc_lit(k.value)] for k in node.keywords]}
    return {"head": head, "call": call}


def _check_class_stmt(stmt):
    """ClassAnalyser generic-visits everything below a non-method statement of a class body; the
    model's tree does not carry decorators / defaults / keywords of nested defs, classes, lambdas."""
    for n in ast.walk(stmt):
        if isinstance(n, (ast.FunctionDef, ast.AsyncFunctionDef, ast.ClassDef)):
            raise OutsideFragment("def/class nested below a class-body statement")
        if isinstance(n, ast.Lambda) and (n.args.defaults or any(d is not None for d in n.args.kw_defaults)):
            raise OutsideFragment("lambda with defaults below a class-body statement")


class Encoder:
    """Encodes one module; collects the dotted names whose location facts the model may ask for."""

    def __init__(self):
        self.candidates = set()
        self.relative = []      # the ImportFrom nodes with level > 0, in encounter order

    def alias(self, a):
        return {"name": a.name, "asname": a.asname}

    def kid(self, c):
        if isinstance(c, ast.stmt):
            return self.top(c)
        if isinstance(c, (ast.excepthandler, ast.match_case)):
            return {"k": "compound", "kind": type(c).__name__, "kids": [self.kid(x) for x in vl.generic_children(c)]}
        return {"k": "expr", "n": vl.enc(c)}

    def top(self, n, in_class=False):
        if isinstance(n, ast.Import):
            for a in n.names:
                self.candidates.add(a.name)
            return {"k": "import", "aliases": [self.alias(a) for a in n.names]}
        if isinstance(n, ast.ImportFrom):
            d = {"k": "importfrom", "module": n.module, "level": n.level, "aliases": [self.alias(a) for a in n.names],
                 "abs": "", "specFound": False, "confirmedOk": True}
            if n.level != 0:
                base = derive_module_name_from_path(Config().state.current_file)
                if base is None:
                    raise OutsideFragment("file is not a module (relative import raises ValueError('never'))")
                absn = derive_absolute_module_name(base, n.module, n.level)
                confirmed, spec = find_module_name_and_spec(absn)
                d["abs"], d["specFound"] = absn, spec is not None
                d["confirmedOk"] = not ((confirmed, spec) != (None, None) and absn != confirmed)
                mod = absn
            else:
                mod = n.module
            if mod is not None:
                self.candidates.add(mod)
                for a in n.names:
                    self.candidates.add(f"{mod}.{a.name}")
            return d
        if isinstance(n, (ast.FunctionDef, ast.AsyncFunctionDef)):
            return {"k": "def", "name": n.name, "ps": vl.params_json(n.args), "body": [vl.enc(s) for s in n.body],
                    "decos": [deco_json(d) for d in n.decorator_list], "async": isinstance(n, ast.AsyncFunctionDef)}
        if isinstance(n, ast.ClassDef):
            for st in n.body:
                if not isinstance(st, (ast.FunctionDef, ast.AsyncFunctionDef)):
                    _check_class_stmt(st)
            return {"k": "class", "name": n.name, "bases": [vl.enc(b) for b in n.bases],
                    "body": [self.top(s) for s in n.body], "decos": [deco_json(d) for d in n.decorator_list]}
        if isinstance(n, ast.Assign):
            return {"k": "assign", "targets": [vl.enc(t) for t in n.targets], "extra": [], "value": vl.enc(n.value)}
        if isinstance(n, ast.AnnAssign):
            return {"k": "assign", "targets": [vl.enc(n.target)], "extra": [vl.enc(n.annotation)],
                    "value": vl.enc(n.value) if n.value is not None else None}
        if isinstance(n, ast.AugAssign):
            return {"k": "assign", "targets": [vl.enc(n.target)], "extra": [], "value": vl.enc(n.value)}
        if isinstance(n, ast.Delete):
            return {"k": "delete", "targets": [vl.enc(t) for t in n.targets]}
        if isinstance(n, ast.Expr):
            return {"k": "exprstmt", "v": vl.enc(n.value)}
        if isinstance(n, (ast.Try, getattr(ast, "TryStar", ast.Try))):
            # `try ... except*` too: since /repo 6e8e4cc RootContextBuilder.visit_TryStar delegates to visit_Try; every
            # other walker of the model treats `try` exactly like a generic compound statement (field order)
            return {"k": "try", "body": [self.top(s) for s in n.body], "handlers": [self.kid(h) for h in n.handlers],
                    "orelse": [self.top(s) for s in n.orelse], "finalbody": [self.top(s) for s in n.finalbody]}
        return {"k": "compound", "kind": type(n).__name__, "kids": [self.kid(c) for c in vl.generic_children(n)]}


def mod_fact(name):
    return {"blacklisted": bool(is_in_import_blacklist(name)),
            "originFound": Import(name="x", qualified_name=name).origin is not None,
            "modExists": bool(module_exists(name))}


# ------------------------------------------------------------------ message templates

TEMPLATES = [
    (re.compile(r"^do not import multiple modules on one line$"), "multi-import"),
    (re.compile(r"^do not use 'from (.*) import \*' outside of __init__.py files, be explicit$"), "star-outside-init"),
    (re.compile(r"^unable to resolve relative starred import$"), "unresolved-rel-star"),
    (re.compile(r"^unable to resolve relative import$"), "unresolved-rel"),
    (re.compile(r"^node has no module$"), "no-module"),
    (re.compile(r"^unable to find module '(.*)'$"), "unable-to-find-module"),
    (re.compile(r"^multiple deeply nested walrus assignments$"), "multi-walrus"),
    (re.compile(r"^avoid using 'del' at the module level"), "module-del"),
    (re.compile(r"^top-level lambdas must be named$"), "top-level-lambda"),
    (re.compile(r"^unexpected top-level 'ast\.(.*)'$"), "unexpected-top-level"),
    (re.compile(r"^function '(.*)' is not defined in the current context$"), "func-undefined"),
    (re.compile(r"^class '(.*)' is not defined in the current context$"), "class-undefined"),
    (re.compile(r"^module level lambdas unsupported$"), "module-level-lambda"),
    (re.compile(r"^found multiple __init__ methods for class$"), "multiple-init"),
    (re.compile(r"^found async __init__ method for class$"), "async-init"),
    (re.compile(r"^unable to evaluate .* at compile-time$", re.S), "unable-to-evaluate"),
    (re.compile(r"^unable to parse 'rattr_results', you are likely missing"), "likely-missing-comma"),
    (re.compile(r"^unexpected positional arguments to 'rattr_results'"), "positional-args"),
    (re.compile(r"^unexpected keyword arguments to 'rattr_results'"), "unexpected-keywords"),
    (re.compile(r"^'rattr_results' expects a set\[Identifier\]"), "expects-set-of-names"),
    (re.compile(r"^'rattr_results' expects 'calls' to be"), "expects-call-specs"),
    (re.compile(r"^duplicated annotation"), "duplicated-annotation"),
]


def template_of(ev):
    msg = ev["message"]
    for pat, tid in TEMPLATES:
        m = pat.match(msg)
        if m:
            return [ev["level"], tid, m.group(1) if m.groups() else ""]
    return vl.template_of(ev)


def canon_diags(ds):
    """Everything up to and including the first fatal (a SystemExit caught and re-raised by the
    rattr_results parser emits more than one fatal event; only the first is compared)."""
    out = []
    ds = [vl.canon_model_diag(list(d)) for d in ds]
    for i, d in enumerate(ds):
        if d[:2] == ["fatal", "unable-to-evaluate"] and i + 1 < len(ds) and ds[i + 1][:2] == ["fatal", "likely-missing-comma"]:
            continue        # safe_eval's SystemExit is caught by the rattr_results parser and replaced by the next fatal
        out.append(d)
        if d[0] == "fatal":
            break
    return out


# ------------------------------------------------------------------ snapshots


def canon_sym(d):
    return {"kind": d["kind"], "name": d["name"], "callable": d["callable"], "iface": d["iface"],
            "qual": d.get("qual", "") if d["kind"] == "Import" else ""}


def ir_json(ir):
    return {"gets": vl.names_json(ir["gets"]), "sets": vl.names_json(ir["sets"]), "dels": vl.names_json(ir["dels"]),
            "calls": sorted((vl.canon_call(vl.call_json(c)) for c in ir["calls"]), key=vl.impl_json_key)}


def canon_model_ir(ir):
    return {"gets": sorted(map(list, {tuple(n) for n in ir["gets"]})),
            "sets": sorted(map(list, {tuple(n) for n in ir["sets"]})),
            "dels": sorted(map(list, {tuple(n) for n in ir["dels"]})),
            "calls": sorted((vl.canon_call(c) for c in ir["calls"]), key=vl.impl_json_key)}


def _outcome(out, diags):
    if out[0] == "ok":
        return "ok", ""
    if out[0] == "fatal":
        fat = [d for d in diags if d[0] == "fatal"]
        return "fatal", (fat[-1][1] if fat else "")
    return "crash", out[1]


# ------------------------------------------------------------------ one module through both sides


class FileCase:
    __slots__ = ("src", "target", "files", "payload", "root_im", "file_im", "root_mo", "file_mo", "skipped", "tree")


def run_case(project: Path, target_rel: str, src: str, excluded=(), excluded_imports=(), extra_config=None):
    """Real S2 and S4 on `src` written at project/target_rel; returns a FileCase (payload for the
    model + the implementation's snapshots), or one with `.skipped` set. `extra_config`: further
    `Arguments` overrides for the run (e.g. `_follow_imports_level`)."""
    c = FileCase()
    c.src, c.target, c.skipped = src, target_rel, None
    c.root_im = c.file_im = c.root_mo = c.file_mo = None
    (project / target_rel).parent.mkdir(parents=True, exist_ok=True)
    (project / target_rel).write_text(src)
    target = Path(target_rel)
    with impl.in_dir(str(project)):
        impl.reset_config(target=target, _excluded_names=list(excluded), _excluded_imports=list(excluded_imports),
                          **(extra_config or {}))
        tree = ast.parse(src)
        c.tree = tree
        with enter_file(target):
            # ---- S2, real
            with impl.Tap() as tap:
                out = impl.outcome_of(compile_root_context, tree)
            diags = [template_of(e) for e in tap.events]
            oc, exc = _outcome(out, diags)
            c.root_im = {"outcome": oc, "exc": exc, "diags": canon_diags(diags)}
            ctx = out[1] if out[0] == "ok" else None
            if ctx is not None:
                c.root_im["symbols"] = [canon_sym(vl.sym_json(s)) for s in ctx.symbol_table.symbols]
            # ---- the model's input (facts from the real locator functions)
            try:
                enc = Encoder()
                body = [enc.top(s) for s in tree.body]
            except OutsideFragment as e:
                c.skipped = str(e)
                return c
            names = {n.name for n in ast.walk(tree) if isinstance(n, (ast.FunctionDef, ast.AsyncFunctionDef, ast.ClassDef))}
            mn = derive_module_name_from_path(target)
            c.payload = {
                "env": vl.env_json(), "module": mn or "", "builtins": list(PYTHON_BUILTINS), "body": body,
                "facts": {"mods": [[n, mod_fact(n)] for n in sorted(enc.candidates)],
                          "isInit": target.name == "__init__.py",
                          "excluded": sorted(n for n in names if is_excluded_name(n))},
            }
            # ---- S4, real (on the same context object, as the pipeline does)
            if ctx is not None:
                fa = FileAnalyser(tree, ctx)
                with impl.Tap() as tap:
                    out = impl.outcome_of(fa.analyse)
                diags = [template_of(e) for e in tap.events]
                oc, exc = _outcome(out, diags)
                c.file_im = {"outcome": oc, "exc": exc, "diags": canon_diags(diags)}
                if oc == "ok":
                    keys = [(canon_sym(vl.sym_json(k)), ir_json(v)) for k, v in fa.file_ir._file_ir.items()]
                    proj = [vl.impl_json_key(k) for k, _ in keys]
                    if len(set(proj)) != len(proj):
                        c.skipped = "two FileIr keys differ only in is_async"
                        return c
                    c.file_im["keys"] = [{"sym": k, "ir": v} for k, v in keys]
                    c.file_im["symbols"] = [canon_sym(vl.sym_json(s)) for s in ctx.symbol_table.symbols]
    return c


def compare_root(im, mo):
    if "__error__" in mo:
        return "model error: " + str(mo["__error__"])
    if im["outcome"] != mo["outcome"]:
        return f"root outcome {im['outcome']}/{im['exc']} vs {mo['outcome']}/{mo['exc']}"
    if im["outcome"] == "crash":
        return None if im["exc"] == mo["exc"] else f"root crash class {im['exc']} vs {mo['exc']}"
    md = canon_diags(mo["diags"])
    if im["diags"] != md:
        return f"root diags: impl={im['diags']} model={md}"
    if im["outcome"] == "fatal":
        return None
    ms = [canon_sym(s) for s in mo["symbols"]]
    if im["symbols"] != ms:
        for i, (a, b) in enumerate(zip(im["symbols"], ms)):
            if a != b:
                return f"root symbol #{i}: impl={a} model={b}"
        return f"root symbols: impl has {len(im['symbols'])}, model {len(ms)}: impl tail={im['symbols'][len(ms):][:3]} model tail={ms[len(im['symbols']):][:3]}"
    return None


def compare_file(im, mo):
    if "__error__" in mo:
        return "model error: " + str(mo["__error__"])
    if im["outcome"] != mo["outcome"]:
        return f"file outcome {im['outcome']}/{im['exc']} vs {mo['outcome']}/{mo['exc']}"
    if im["outcome"] == "crash":
        return None if im["exc"] == mo["exc"] else f"file crash class {im['exc']} vs {mo['exc']}"
    md = canon_diags(mo["diags"])
    if im["diags"] != md:
        for i, (a, b) in enumerate(zip(im["diags"], md)):
            if a != b:
                return f"file diag #{i}: impl={a} model={b}"
        return f"file diags: impl has {len(im['diags'])}, model {len(md)}: {im['diags'][len(md):][:3]} / {md[len(im['diags']):][:3]}"
    if im["outcome"] == "fatal":
        return None
    mk = [{"sym": canon_sym(k["sym"]), "ir": canon_model_ir(k["ir"])} for k in mo["keys"]]
    ik = im["keys"]
    if [k["sym"] for k in ik] != [k["sym"] for k in mk]:
        return f"FileIr keys: impl={[ (k['sym']['kind'], k['sym']['name']) for k in ik]} model={[(k['sym']['kind'], k['sym']['name']) for k in mk]}" \
               f" first differing: {next(((a['sym'], b['sym']) for a, b in zip(ik, mk) if a['sym'] != b['sym']), None)}"
    for a, b in zip(ik, mk):
        for f in ("gets", "sets", "dels", "calls"):
            if a["ir"][f] != b["ir"][f]:
                return f"FileIr[{a['sym']['name']}].{f}: impl={a['ir'][f]} model={b['ir'][f]}"
    ms = [canon_sym(s) for s in mo["symbols"]]
    if im["symbols"] != ms:
        return f"context after the file walk differs: impl tail={im['symbols'][-4:]} model tail={ms[-4:]}"
    return None


# ------------------------------------------------------------------ the temp project

LOCAL_PACKAGE = {
    "lp/__init__.py": "from lp.sub import f\nalpha = 1\nclass Beta:\n    def __init__(self, q):\n        self.q = q\ndef gamma(x):\n    return x.g\n",
    "lp/sub.py": "def f(a):\n    return a.fa\ndef g(b, c=0):\n    return b.gb\nCONST = 3\n",
    "lp/deep/__init__.py": "",
    "lp/deep/leaf.py": "def leaf_fn(z):\n    return z.leaf\n__all__ = ['leaf_fn']\n",
    "solo.py": "def solo_fn(s):\n    return s.solo\n",
    "nspkg/inner.py": "def in_ns(n):\n    return n.ns\n",
}


def make_project():
    tmp = Path(tempfile.mkdtemp(prefix="rattr-filestage-"))
    for rel, text in LOCAL_PACKAGE.items():
        p = tmp / rel
        p.parent.mkdir(parents=True, exist_ok=True)
        p.write_text(text)
    return tmp


def drop_project(tmp):
    shutil.rmtree(tmp, ignore_errors=True)

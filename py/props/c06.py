"""C06 — following an import gives the same answer as defining the callee locally.

Generated PAIRS (single-file program, split project): a clean `ProgGen` program plus classes with
`__init__` and classes with a static method; a downward-closed random subset of the callees is moved
into modules / packages (depth <= 3) of a temporary project and each moved callee is reached from its
(unique) caller by an import form drawn from FORMS; the caller's source is unchanged except for the callee
spelling the form requires.  Both versions run through the real CLI (`-o results`); the property oracle is
equality of each remaining function's results entry (single-file = reference), after mapping the spelled
callee back and dropping the module-path gets the dotted spelling itself introduces.

Self-checks (internal errors, never violations): CPython itself imports every split project and must bind
each spelled callee to the moved definition; the Lean spec `Spec.ImportEquiv.expected` must agree with
CPython.  Correspondence (Tie B): for each cross-module call, the Lean model (`callTargetFor` +
`resolveImport`, fed with the REAL root-context symbols of every module) vs the real `Context.
get_call_target` answer recorded in the caller's IR and the real `find_call_target_and_ir`.
"""
from __future__ import annotations

import ast
import json
import os
import random
import re
import shutil
import subprocess
import sys
import tempfile
from concurrent.futures import ThreadPoolExecutor
from pathlib import Path

import common
import impl
from props import resultslib as rl
from props import visitlib as vl

PID = "C06"
TABLES = ["C06"]
CLI_TIMEOUT = 180   # generous: wall-clock under load must not become a verdict

# form -> (needs importer in a package, min depth of the callee module, style)
#   style "prefix": the callee is spelled <prefix>.<local spelling>;  "name": the bare (possibly aliased) name
FORMS = {
    "import":                 dict(pkg=False, style="prefix"),
    "import-dotted":          dict(pkg=False, style="prefix"),
    "import-dotted+parent":   dict(pkg=False, style="prefix"),
    "import-as":              dict(pkg=False, style="prefix"),
    "from":                   dict(pkg=False, style="name"),
    "from-as":                dict(pkg=False, style="name"),
    "from-parent":            dict(pkg=False, style="prefix"),
    "from-parent-as":         dict(pkg=False, style="prefix"),
    "relative-from-1":        dict(pkg=True, style="name"),
    "relative-from-2":        dict(pkg=True, style="name"),
    "relative-module":        dict(pkg=True, style="prefix"),
    "reexport-init":          dict(pkg=False, style="name"),
    "reexport-chain2":        dict(pkg=False, style="name"),
    "reexport-chain3":        dict(pkg=False, style="name"),
    "reexport-star":          dict(pkg=False, style="name"),
    # pkg/__init__: from .y import *  /  pkg/y.py: from .x import k   (star of a name the starred module itself imports)
    "reexport-star-chain2":   dict(pkg=False, style="name"),
    # pkg/sub/__init__: from ..x import k   (relative level 2 written inside a package __init__)
    "reexport-init-level2":   dict(pkg=False, style="name"),
    "import-pkg-attr":        dict(pkg=False, style="prefix"),
    "pkg-submodule-imported": dict(pkg=False, style="prefix"),
}
KINDS = ("func", "class", "static")


# ------------------------------------------------------------------ base programs

class Entity:
    def __init__(self, name, kind, src, spelled, import_name, marks):
        self.name, self.kind, self.src = name, kind, src
        self.spelled = spelled            # how a local call spells the callee
        self.import_name = import_name    # the name an import statement must bind
        self.marks = marks                # distinctive attribute names the definition contributes
        self.calls = []                   # callee entity names
        self.caller = None
        self.assigned = None              # class callers: the variable the instance is assigned to
        self.arg = None


def base_program(rng):
    n = rng.randint(3, 6)
    src, _sigs = rl.ProgGen(rng, n_funcs=n, clean=True).build()
    ents, order = {}, []
    tree = ast.parse(src)
    lines = src.splitlines()
    for node in tree.body:
        i = node.name[1:]
        first = (node.args.posonlyargs + node.args.args + node.args.kwonlyargs)[0].arg
        # every definition contributes one access that is certainly its own (used to tell which edge was followed)
        chunk = "\n".join(lines[node.lineno - 1: node.end_lineno]) + f"\n    {first}.own{i}\n"
        marks = {f"own{i}"}
        e = Entity(node.name, "func", chunk, node.name, node.name, marks)
        for c in ast.walk(node):
            if isinstance(c, ast.Call) and isinstance(c.func, ast.Name) and re.fullmatch(r"f\d+", c.func.id):
                e.calls.append(c.func.id)
        ents[node.name] = e
        order.append(node.name)
    classes, tail, wrappers = [], [], []
    for i in range(rng.randint(1, 2)):
        k = f"K{i}"
        ents[k] = Entity(k, "class", f"class {k}:\n    def __init__(self, ka{i}):\n        self.kf{i} = ka{i}.kw{i}\n",
                         k, k, {f"kf{i}", f"kw{i}"})
        c = Entity(f"ck{i}", "func", f"def ck{i}(pk{i}):\n    pk{i}.ownck{i}\n    xk{i} = {k}(pk{i})\n    return xk{i}\n",
                   f"ck{i}", f"ck{i}", {f"ownck{i}"})
        c.calls.append(k)
        ents[c.name] = c
        if rng.random() < 0.6:      # a caller of the caller: ck{i} can be moved, with K{i} in its own module or elsewhere
            w = Entity(f"cwk{i}", "func", f"def cwk{i}(pwk{i}):\n    ck{i}(pwk{i})\n", f"cwk{i}", f"cwk{i}", set())
            w.calls.append(c.name)
            ents[w.name] = w
            wrappers.append(w.name)
        ents[k].assigned, ents[k].arg = f"xk{i}", f"pk{i}"
        classes.append(k)
        tail.append(c.name)
    for i in range(rng.randint(1, 2)):
        h = f"H{i}"
        ents[h] = Entity(h, "static", f"class {h}:\n    @staticmethod\n    def sm{i}(hz{i}):\n        return hz{i}.hs{i}\n",
                         f"{h}.sm{i}", h, {f"hs{i}"})
        c = Entity(f"ch{i}", "func", f"def ch{i}(ph{i}):\n    ph{i}.ownch{i}\n    {h}.sm{i}(ph{i})\n", f"ch{i}", f"ch{i}",
                   {f"ownch{i}"})
        c.calls.append(h)
        ents[c.name] = c
        if rng.random() < 0.6:
            w = Entity(f"cwh{i}", "func", f"def cwh{i}(pwh{i}):\n    ch{i}(pwh{i})\n", f"cwh{i}", f"cwh{i}", set())
            w.calls.append(c.name)
            ents[w.name] = w
            wrappers.append(w.name)
        ents[h].arg = f"ph{i}"
        classes.append(h)
        tail.append(c.name)
    for e in ents.values():
        for c in e.calls:
            ents[c].caller = e.name
    return ents, classes + order + tail + wrappers


def respell(src, ent, spelled):
    """Rewrite calls to `ent` in the body of a def chunk (never the header)."""
    head, _, body = src.partition("\n")
    return head + "\n" + re.sub(rf"(?<![\w.]){re.escape(ent.spelled)}\(", spelled + "(", body)


# ------------------------------------------------------------------ splitting

class Edge:
    def __init__(self, u, v, importer, module, form, kind, spelled, depth, chain, qualname):
        self.u, self.v, self.importer, self.module = u, v, importer, module
        self.form, self.kind, self.spelled = form, kind, spelled
        self.depth, self.chain, self.qualname = depth, chain, qualname

    def meta(self):
        return {"caller": self.u, "callee": self.v, "importer": self.importer, "module": self.module, "form": self.form,
                "kind": self.kind, "spelled": self.spelled, "depth": self.depth, "chain": self.chain}


class Split:
    def __init__(self, rng, ents, order, layout, want):
        self.rng, self.ents, self.order = rng, ents, order
        self.target_mod = {"root": "target", "pkg": "tp.target", "pkg2": "tp.tq.target"}[layout]
        self.want = want                  # list of (form, kind) still to be covered (mutated)
        self.n = 0
        self.modules = {}                 # dotted name -> {"pkg": bool, "imports": [(line, json)], "defs": [src]}
        self.loc = {}                     # entity -> module
        self.edges = []
        self.ensure(self.target_mod, False)
        # ensure() creates the parent packages (tp, tp.tq) with empty __init__ files

    def fresh(self, p):
        self.n += 1
        return f"{p}{self.n}"

    def ensure(self, mod, pkg):
        parts = mod.split(".")
        for i in range(1, len(parts)):
            self.modules.setdefault(".".join(parts[:i]), {"pkg": True, "imports": [], "defs": []})
        return self.modules.setdefault(mod, {"pkg": pkg, "imports": [], "defs": []})

    def new_mod(self, depth):
        parts = [self.fresh("zp") for _ in range(depth - 1)] + [self.fresh("zm")]
        mod = ".".join(parts)
        self.ensure(mod, False)
        return mod

    def imp(self, mod, line, js):
        self.modules[mod]["imports"].append((line, js))

    def applicable(self, form, importer):
        in_pkg = "." in importer
        if FORMS[form]["pkg"] and not in_pkg:
            return False
        if form == "relative-from-2" and importer.count(".") < 2:
            return False
        return True

    def choose_form(self, importer, kind):
        for i, (f, k) in enumerate(self.want):
            if k == kind and self.applicable(f, importer):
                del self.want[i]
                return f
        forms = [f for f in FORMS if self.applicable(f, importer)]
        return self.rng.choice(forms)

    def place(self, v):
        """Decide module + import form for moved callee v (its caller is already placed)."""
        e = self.ents[v]
        importer = self.loc[e.caller]
        # a class / static-method holder called from a followed module often lives in that same module
        if importer != self.target_mod and self.rng.random() < (0.5 if e.kind != "func" else 0.2):
            self.loc[v] = importer
            self.modules[importer]["defs"].append(v)
            return
        form = self.choose_form(importer, e.kind)
        k = e.import_name
        r = self.rng
        chain = 0
        if form == "import":
            mod = self.new_mod(1)
            self.imp(importer, f"import {mod}", {"k": "plain", "module": mod})
            prefix = mod
        elif form == "import-dotted":
            mod = self.new_mod(r.choice([2, 3]))
            self.imp(importer, f"import {mod}", {"k": "plain", "module": mod})
            prefix = mod
        elif form == "import-dotted+parent":
            mod = self.new_mod(r.choice([2, 3]))
            top = mod.split(".")[0]
            self.imp(importer, f"import {top}", {"k": "plain", "module": top})
            self.imp(importer, f"import {mod}", {"k": "plain", "module": mod})
            prefix = mod
        elif form == "import-as":
            mod = self.new_mod(r.choice([1, 2, 3]))
            a = self.fresh("za")
            self.imp(importer, f"import {mod} as {a}", {"k": "plain", "module": mod, "asname": a})
            prefix = a
        elif form == "from":
            mod = self.new_mod(r.choice([1, 2, 3]))
            self.imp(importer, f"from {mod} import {k}", {"k": "from", "module": mod, "name": k})
            prefix = None
        elif form == "from-as":
            mod = self.new_mod(r.choice([1, 2, 3]))
            a = self.fresh("zg")
            self.imp(importer, f"from {mod} import {k} as {a}", {"k": "from", "module": mod, "name": k, "asname": a})
            prefix = ("alias", a)
        elif form in ("from-parent", "from-parent-as"):
            mod = self.new_mod(r.choice([2, 3]))
            parent, last = mod.rsplit(".", 1)
            if form == "from-parent":
                self.imp(importer, f"from {parent} import {last}", {"k": "from", "module": parent, "name": last})
                prefix = last
            else:
                a = self.fresh("za")
                self.imp(importer, f"from {parent} import {last} as {a}",
                         {"k": "from", "module": parent, "name": last, "asname": a})
                prefix = a
        elif form in ("relative-from-1", "relative-from-2", "relative-module"):
            level = 2 if form == "relative-from-2" else 1
            pkg_parts = importer.split(".")[:-1]
            base = pkg_parts[:len(pkg_parts) - (level - 1)]
            last = self.fresh("zm")
            mod = ".".join(base + [last])
            self.ensure(mod, False)
            dots = "." * level
            if form == "relative-module":
                self.imp(importer, f"from {dots} import {last}", {"k": "rel", "level": level, "module": None, "name": last})
                prefix = last
            else:
                self.imp(importer, f"from {dots}{last} import {k}", {"k": "rel", "level": level, "module": last, "name": k})
                prefix = None
        elif form == "reexport-init-level2":
            chain = 1
            pkg = self.fresh("zr")
            self.ensure(pkg, True)
            sub = f"{pkg}.{self.fresh('zq')}"
            self.ensure(sub, True)
            last = self.fresh("zx")
            mod = f"{pkg}.{last}"
            self.ensure(mod, False)
            self.imp(sub, f"from ..{last} import {k}", {"k": "rel", "level": 2, "module": last, "name": k})
            self.imp(importer, f"from {sub} import {k}", {"k": "from", "module": sub, "name": k})
            prefix = None
        elif form in ("reexport-init", "reexport-chain2", "reexport-chain3", "reexport-star", "reexport-star-chain2",
                      "import-pkg-attr"):
            chain = {"reexport-chain2": 2, "reexport-chain3": 3, "reexport-star-chain2": 2}.get(form, 1)
            pkg = self.fresh("zr")
            self.ensure(pkg, True)
            hops = [pkg] + [f"{pkg}.{self.fresh('zy')}" for _ in range(chain - 1)]
            mod = f"{pkg}.{self.fresh('zx')}"
            self.ensure(mod, False)
            for i, h in enumerate(hops):
                self.ensure(h, i == 0)
                nxt = (hops[i + 1] if i + 1 < len(hops) else mod).rsplit(".", 1)[1]
                if form in ("reexport-star", "reexport-star-chain2") and i == 0:
                    self.imp(h, f"from .{nxt} import *", {"k": "relstar", "level": 1, "module": nxt})
                else:
                    self.imp(h, f"from .{nxt} import {k}", {"k": "rel", "level": 1, "module": nxt, "name": k})
            if form == "import-pkg-attr":
                self.imp(importer, f"import {pkg}", {"k": "plain", "module": pkg})
                prefix = pkg
            else:
                self.imp(importer, f"from {pkg} import {k}", {"k": "from", "module": pkg, "name": k})
                prefix = None
        elif form == "pkg-submodule-imported":
            pkg = self.fresh("zr")
            self.ensure(pkg, True)
            last = self.fresh("zs")
            mod = f"{pkg}.{last}"
            self.ensure(mod, False)
            self.imp(pkg, f"from . import {last}", {"k": "rel", "level": 1, "module": None, "name": last})
            self.imp(importer, f"import {pkg}", {"k": "plain", "module": pkg})
            prefix = mod
        else:
            raise AssertionError(form)
        if isinstance(prefix, tuple):
            spelled = prefix[1] + e.spelled[len(e.import_name):]
        elif prefix is None:
            spelled = e.spelled
        else:
            spelled = f"{prefix}.{e.spelled}"
        self.loc[v] = mod
        self.modules[mod]["defs"].append(v)
        self.edges.append(Edge(e.caller, v, importer, mod, form, e.kind, spelled, mod.count(".") + 1, chain, e.spelled))

    def build(self):
        ents, r = self.ents, self.rng
        callees = [n for n in self.order if ents[n].caller is not None]
        moved = set()
        roots = [n for n in callees if ents[ents[n].caller].caller is None]
        # the kinds the coverage list still needs come first
        for n in callees:
            if ents[n].caller in moved or r.random() < 0.6:
                moved.add(n)
        if not moved:
            moved.add(r.choice(roots or callees))
        changed = True
        while changed:
            changed = False
            for n in list(moved):
                for c in ents[n].calls:
                    if c not in moved:
                        moved.add(c)
                        changed = True
        for n in self.order:
            if n not in moved:
                self.loc[n] = self.target_mod
                self.modules[self.target_mod]["defs"].append(n)
        # parents before children
        todo = [n for n in self.order if n in moved]
        while todo:
            for n in list(todo):
                if ents[n].caller in self.loc:
                    self.place(n)
                    todo.remove(n)
        return self

    def source_of(self, mod):
        m = self.modules[mod]
        by_caller = {}
        for ed in self.edges:
            by_caller.setdefault(ed.u, []).append(ed)
        out = [l for l, _ in m["imports"]]
        if out:
            out.append("")
        # classes first, as in the single-file version (a static method resolves only if its class comes earlier)
        for n in sorted(m["defs"], key=lambda n: self.ents[n].kind == "func"):
            src = self.ents[n].src
            for ed in by_caller.get(n, []):
                src = respell(src, self.ents[ed.v], ed.spelled)
            out.append(src)
        return "\n".join(out) + ("\n" if out else "")

    def files(self):
        fs = {}
        for mod, m in self.modules.items():
            path = mod.replace(".", "/") + ("/__init__.py" if m["pkg"] else ".py")
            fs[path] = self.source_of(mod)
        return fs

    def spec_project(self):
        mods = []
        for mod, m in self.modules.items():
            decls = [dict(js) for _, js in m["imports"]]
            for n in sorted(m["defs"], key=lambda n: self.ents[n].kind == "func"):
                e = self.ents[n]
                members = [e.spelled.split(".", 1)[1]] if e.kind == "static" else []
                decls.append({"k": "def", "name": e.import_name, "isClass": e.kind != "func", "members": members})
            mods.append({"name": mod, "isPkg": m["pkg"], "decls": decls})
        return mods


def single_source(ents, order):
    return "\n".join(ents[n].src for n in order)


# ------------------------------------------------------------------ dedicated projects

def dedicated(rng, i):
    """(label, form, kind, files, single source or None, caller name, python_valid)."""
    a, b = f"in_a{i}", f"in_b{i}"
    out = []
    # valid module-level import cycle (back edge through `import m` so that CPython accepts it)
    out.append(("module-cycle", "module-cycle", "func", {
        "target.py": f"from zca{i} import ga{i}\n\ndef caller{i}(p):\n    ga{i}(p)\n",
        f"zca{i}.py": f"import zcb{i}\n\ndef fa{i}(x):\n    return x.{a}\n\ndef ga{i}(y):\n    zcb{i}.fb{i}(y)\n",
        f"zcb{i}.py": f"import zca{i}\n\ndef fb{i}(w):\n    w.{b}\n    zca{i}.fa{i}(w)\n",
    }, f"def fa{i}(x):\n    return x.{a}\n\ndef fb{i}(w):\n    w.{b}\n    fa{i}(w)\n\ndef ga{i}(y):\n    fb{i}(y)\n\n"
       f"def caller{i}(p):\n    ga{i}(p)\n", f"caller{i}", True))
    # re-export cycle of a NAME (CPython itself fails: the answer is undefined, rattr must still end)
    out.append(("reexport-cycle", "reexport-cycle", "func", {
        "target.py": f"from zna{i} import f{i}\n\ndef caller{i}(p):\n    f{i}(p)\n",
        f"zna{i}.py": f"from znb{i} import f{i}\n",
        f"znb{i}.py": f"from zna{i} import f{i}\n",
    }, None, f"caller{i}", False))
    # import pkg; pkg.sub.f() where nothing imports pkg.sub (CPython: AttributeError)
    out.append(("pkg-submodule-unimported", "pkg-submodule-unimported", "func", {
        "target.py": f"import zr{i}\n\ndef caller{i}(p):\n    zr{i}.zs{i}.f{i}(p)\n",
        f"zr{i}/__init__.py": "",
        f"zr{i}/zs{i}.py": f"def f{i}(x):\n    return x.{a}\n",
    }, None, f"caller{i}", False))
    # module name occurring inside the callee name: `import am; am.Ham.sm()`
    out.append(("module-name-inside-callee-name", "import", "static", {
        "target.py": f"import am{i}\n\ndef caller{i}(p):\n    am{i}.Ham{i}.sm(p)\n",
        f"am{i}.py": f"class Ham{i}:\n    @staticmethod\n    def sm(z):\n        return z.{a}\n",
    }, f"class Ham{i}:\n    @staticmethod\n    def sm(z):\n        return z.{a}\n\ndef caller{i}(p):\n    Ham{i}.sm(p)\n",
        f"caller{i}", True))
    return out


# ------------------------------------------------------------------ running

def run_cli(project, target):
    env = dict(os.environ, PYTHONHASHSEED="0")
    try:
        p = subprocess.run([sys.executable, "-m", "rattr", "-w", "none", "-o", "results", target], cwd=str(project),
                           capture_output=True, text=True, timeout=CLI_TIMEOUT, env=env)
    except subprocess.TimeoutExpired:
        return {"outcome": "timeout"}
    if p.returncode == 0:
        try:
            return {"outcome": "ok", "results": json.loads(p.stdout)}
        except Exception:
            return {"outcome": "bad-json", "stdout": p.stdout[-400:]}
    if "Traceback (most recent call last)" in p.stderr:
        last = [l for l in p.stderr.strip().splitlines() if l and not l.startswith(" ")][-1]
        return {"outcome": "crash", "exc": re.split(r"[:\s]", last)[0].split(".")[-1], "stderr": p.stderr[-600:]}
    return {"outcome": f"exit-{p.returncode}", "stderr": p.stderr[-600:]}


CPY = r"""
import importlib, json, sys
sys.path.insert(0, '.')
out = []
for importer, spelled in json.loads(sys.argv[1]):
    try:
        m = importlib.import_module(importer)
        o = eval(spelled, vars(m))
        out.append([getattr(o, '__module__', None), getattr(o, '__qualname__', None)])
    except BaseException as e:
        out.append(['!' + type(e).__name__, str(e)[:120]])
print(json.dumps(out))
"""


def run_cpython(project, queries):
    p = subprocess.run([sys.executable, "-c", CPY, json.dumps(queries)], cwd=str(project), capture_output=True, text=True,
                       timeout=60, env=dict(os.environ, PYTHONDONTWRITEBYTECODE="1"))
    try:
        return json.loads(p.stdout.strip().splitlines()[-1])
    except Exception:
        return [["!harness", (p.stderr or p.stdout)[-200:]] for _ in queries]


def write_project(root, files):
    for rel, content in files.items():
        f = root / rel
        f.parent.mkdir(parents=True, exist_ok=True)
        f.write_text(content)


def module_path_gets(spelled):
    parts = spelled.split(".")
    return {".".join(parts[:k]) for k in range(2, len(parts))}


def normalise(entry, edges_of_caller, edges_below, ents):
    """Map the split version's entry back to the local spelling: the caller's own calls, and the
    module-path gets of every dotted cross-module spelling at or below it (they are rooted at a module
    name, never substituted, so they surface unchanged in every transitive caller)."""
    e = {k: list(v) for k, v in entry.items()}
    for ed in edges_of_caller:
        local = ents[ed.v].spelled
        e["calls"] = [local + "()" if c == ed.spelled + "()" else c for c in e["calls"]]
    for ed in edges_below:
        drop = module_path_gets(ed.spelled) - module_path_gets(ents[ed.v].spelled)
        e["gets"] = [g for g in e["gets"] if g not in drop]
    return {k: sorted(v) for k, v in e.items()}


def has_marks(entry, marks):
    names = [n for k in ("gets", "sets", "dels") for n in entry[k]]
    return {m for m in marks if any(re.search(rf"\.{m}\b", n) for n in names)}


# ------------------------------------------------------------------ correspondence (in-process)

WHY = [("it is likely ignored", "likely-ignored"), ("it is a method", "is-method"),
       ("it is likely undefined", "likely-undefined"), ("ignoring call to", "ignored")]


def msym_json(s, file_ir):
    from rattr.models.symbol import Class, Func, Import
    if isinstance(s, Func):
        return {"k": "func", "name": s.name, "hasIr": s in file_ir}
    if isinstance(s, Class):
        return {"k": "cls", "name": s.name, "hasIr": s in file_ir}
    if isinstance(s, Import):
        return {"k": "imp", "name": s.name, "qual": s.qualified_name}
    return {"k": "other", "name": s.name}


def correspondence(project, target_rel, edges):
    """Real get_call_target / find_call_target_and_ir per cross-module call + the model request."""
    from rattr.analyser import file as F
    from rattr.models.symbol import Import
    from rattr.module_locator.util import module_exists
    from rattr.results import IrCall, IrEnvironment, find_call_target_and_ir

    rows = []
    with impl.in_dir(str(project)):
        impl.reset_config(target=Path(target_rel))
        with impl.Tap():
            out = impl.outcome_of(F.parse_and_analyse_file)
        if out[0] != "ok":
            return None, f"{out[0]}:{out[1]}"
        file_ir, import_irs, _ = out[1]
        target_mod = target_rel[:-3].replace("/", ".")
        irs = {target_mod: file_ir}
        irs.update(import_irs)
        env = IrEnvironment(target_ir=file_ir, import_irs=import_irs)
        quals = set()
        for ir in irs.values():
            for s in ir.context.symbol_table.symbols:
                if isinstance(s, Import):
                    quals.add(s.qualified_name)
        found = []
        for ed in edges:
            ir = irs.get(ed.importer)
            if ir is None:
                rows.append((ed, None, None))
                continue
            usym = next((s for s in ir if s.name == ed.u), None)
            call = next((c for c in ir[usym]["calls"] if c.name == ed.spelled), None) if usym is not None else None
            if call is None:
                rows.append((ed, None, None))
                continue
            t = call.target
            if isinstance(t, Import):
                quals.add(t.qualified_name)
            found.append((ed, ir, usym, call))
        cands = set()
        for q in quals:
            parts = q.split(".")
            cands.update(".".join(parts[:i]) for i in range(1, len(parts) + 1))
        existing = sorted(c for c in cands if module_exists(c))
        world = {"existing": existing, "ignored": [],
                 "irs": [[name, [msym_json(s, ir) for s in ir.context.symbol_table.symbols]]
                         for name, ir in import_irs.items()]}
        for ed, ir, usym, call in found:
            t = call.target
            tj = None if t is None else {"kind": type(t).__name__, "name": t.name,
                                         "qual": getattr(t, "qualified_name", "")}
            if isinstance(t, Import):
                with impl.Tap() as tap:
                    o = impl.outcome_of(find_call_target_and_ir, IrCall(caller=usym, symbol=call), environment=env)
                if o[0] == "ok" and o[1] is not None:
                    modname = next((n for n, mir in import_irs.items()
                                    if o[1].symbol in mir and mir[o[1].symbol] is o[1].ir), "?")
                    oj = {"k": "found", "module": modname,
                          "sym": [{"Func": "func", "Class": "cls"}.get(type(o[1].symbol).__name__, "?"), o[1].symbol.name]}
                elif o[0] == "ok":
                    msg = tap.events[-1]["message"] if tap.events else ""
                    oj = {"k": "none", "why": next((w for pat, w in WHY if pat in msg), None)}
                else:
                    oj = {"k": o[1] if o[0] == "crash" else "fatal"}
            else:
                oj = {"k": "no-import-target", "kind": None if t is None else type(t).__name__}
            e = None
            req = {**world, "root": vl.root_snapshot(ir.context), "callee": ed.spelled, "fuel": 64}
            record = None
            if ed.kind in ("class", "static"):
                record = list(call.args.args)
                req["assignedTo"], req["args"] = ed.assigned, [ed.arg]
            rows.append((ed, {"target": tj, "outcome": oj, "recordArgs": record}, req))
    return rows, None


def canon_model(mo, with_record):
    t = mo["target"]
    tj = None if t is None else {"kind": t["kind"], "name": t["name"], "qual": t["qual"] if t["kind"] == "Import" else ""}
    o = mo["outcome"]
    if o["k"] == "found":
        oj = {"k": "found", "module": o["module"], "sym": [o["sym"]["k"], o["sym"]["name"]]}
    elif o["k"] == "none":
        oj = {"k": "none", "why": o["why"]}
    elif o["k"] == "no-import-target":
        oj = {"k": "no-import-target", "kind": o["kind"]}
    else:
        oj = {"k": o["k"]}
    return {"target": tj, "outcome": oj, "recordArgs": mo["recordArgs"] if with_record else None}


# ------------------------------------------------------------------ the check

def run(tier, seed, build):
    res = common.Result(PID)
    res.rule = ("pairs (single-file program, split project) run through the real CLI; the split moves a downward-closed "
                "random subset of the callees (functions, classes with __init__, classes with a static method) into "
                "modules/packages of depth <= 3 and reaches each from its caller by an import form of the table "
                "(every form x callee kind at least 5 (quick) / 30 (thorough) times, re-export chains up to 3, star re-export of a name the starred module itself "
                "imports, relative level 2 inside a package __init__, moved callers whose class / static-method callee lives in the "
                "same followed module (chain depth >= 2), valid module cycles, name cycles); oracle = equality of each remaining function's results entry with the single-file "
                "reference after mapping the callee spelling back. non-trivial = distinct (form, callee kind, module depth, "
                "chain length) of a judged cross-module call")
    rng = random.Random(seed)
    per_cell = 5 if tier == "quick" else 30
    max_pairs = 230 if tier == "quick" else 900
    want = [(f, k) for f in FORMS for k in KINDS for _ in range(per_cell)]
    rng.shuffle(want)
    tmp = Path(tempfile.mkdtemp(prefix="rattr-c06-"))
    model = common.Model()
    try:
        pairs = []
        while (want or len(pairs) < 40) and len(pairs) < max_pairs:
            ents, order = base_program(rng)
            needs_pkg = any(FORMS[f]["pkg"] for f, _ in want[:6])
            layout = "pkg" if (needs_pkg or rng.random() < 0.25) else "root"
            if layout == "pkg" and (any(f == "relative-from-2" for f, _ in want) or rng.random() < 0.2):
                layout = "pkg2"
            sp = Split(rng, ents, order, layout, want).build()
            i = len(pairs)
            d1, d2 = tmp / f"s{i}", tmp / f"p{i}"
            target_rel = sp.target_mod.replace(".", "/") + ".py"
            single_files = {target_rel: single_source(ents, order)}
            if layout != "root":
                single_files["tp/__init__.py"] = ""
            if layout == "pkg2":
                single_files["tp/tq/__init__.py"] = ""
            write_project(d1, single_files)
            write_project(d2, sp.files())
            pairs.append({"i": i, "single": d1, "split": d2, "target": target_rel, "sp": sp, "ents": ents, "order": order,
                          "files": sp.files(), "single_src": single_files[target_rel]})
        ded = []
        n_ded = 2 if tier == "quick" else 6
        for j in range(n_ded):
            for label, form, kind, files, single, caller, pyvalid in dedicated(rng, j):
                i = len(pairs) + len(ded)
                d1, d2 = tmp / f"s{i}", tmp / f"p{i}"
                write_project(d2, files)
                if single is not None:
                    write_project(d1, {"target.py": single})
                ded.append({"i": i, "label": label, "form": form, "kind": kind, "files": files, "single": d1 if single else None,
                            "single_src": single, "split": d2, "caller": caller, "pyvalid": pyvalid})

        jobs = []
        for p in pairs:
            jobs.append((p["single"], p["target"]))
            jobs.append((p["split"], p["target"]))
        for p in ded:
            if p["single"] is not None:
                jobs.append((p["single"], "target.py"))
            jobs.append((p["split"], "target.py"))
        with ThreadPoolExecutor(max_workers=16) as ex:
            outs = list(ex.map(lambda j: run_cli(*j), jobs))
            cpy = list(ex.map(lambda p: run_cpython(p["split"], [[e.importer, e.spelled] for e in p["sp"].edges]), pairs))
        it = iter(outs)

        # ---- self-check: CPython binds every spelled callee to the moved definition; so does the Lean spec
        spec_reqs = []
        for p, got in zip(pairs, cpy):
            sp = p["sp"]
            for ed, g in zip(sp.edges, got):
                want_obj = [ed.module, ed.qualname]
                if g != want_obj:
                    res.internal_errors.append({"what": "generator: CPython does not bind the spelled callee to the moved "
                                                "definition", "edge": ed.meta(), "cpython": g, "files": p["files"]})
            spec_reqs.append(("import_spec", {"modules": sp.spec_project(), "fuel": 12,
                                              "queries": [[e.importer, e.spelled] for e in sp.edges]}))
        for p, mo in zip(pairs, model.batch(spec_reqs)):
            if isinstance(mo, dict) and "__error__" in mo:
                res.internal_errors.append({"what": "spec driver error", "detail": mo})
                continue
            for ed, m in zip(p["sp"].edges, mo):
                if m is None or m[:3] != ["obj", ed.module, ed.qualname]:
                    res.internal_errors.append({"what": "Lean spec disagrees with CPython's binding", "edge": ed.meta(),
                                                "spec": m, "files": p["files"]})

        # ---- the pair oracle
        for p in pairs:
            o1, o2 = next(it), next(it)
            sp, ents = p["sp"], p["ents"]
            res.evaluations += 1
            forms = sorted({e.form for e in sp.edges})
            case = {"files": p["files"], "single": p["single_src"], "target": p["target"],
                    "edges": [e.meta() for e in sp.edges]}
            if o1["outcome"] != "ok":
                res.internal_errors.append({"what": "single-file reference did not run", "out": o1, "source": p["single_src"]})
                continue
            if o2["outcome"] != "ok":
                exc = o2.get("exc", o2["outcome"].capitalize())
                sig = f"import-form-crash:{'+'.join(forms)}:{exc}"
                res.count("outcome:" + sig)
                res.violations.append({"signature": sig, "case": case, "detail": o2})
                continue
            r1, r2 = o1["results"], o2["results"]
            by_caller = {}
            for e in sp.edges:
                by_caller.setdefault(e.u, []).append(e)
            for fn in sp.modules[sp.target_mod]["defs"]:
                if ents[fn].kind != "func":
                    continue
                if fn not in r1 or fn not in r2:
                    res.violations.append({"signature": "import-changes-answer:caller-missing-from-results", "case": case,
                                           "function": fn})
                    continue
                ref = {k: sorted(v) for k, v in r1[fn].items()}
                below = []

                def collect(u):
                    for c in ents[u].calls:
                        ed = next((e for e in sp.edges if e.v == c), None)
                        if ed is not None:
                            below.append(ed)
                        collect(c)

                collect(fn)
                got = normalise(r2[fn], by_caller.get(fn, []), below, ents)
                # walk the cross-module edges below fn, parents first
                failed, failed_local, judged = [], [], 0

                def walk(u, blocked, above=None):
                    nonlocal judged
                    for c in ents[u].calls:
                        ed = next((e for e in sp.edges if e.v == c), None)
                        if ed is None and not blocked and above is not None and sp.loc[c] != sp.target_mod:
                            # a local call inside a followed module (caller and callee moved together)
                            res.count(f"local-callee-in-followed-module:{ents[c].kind}")
                            res.nontrivial.add(common.digest(["local", above.form, ents[c].kind]))
                            if has_marks(ref, ents[c].marks) and not has_marks(got, ents[c].marks):
                                failed_local.append((above, c))
                                walk(c, True, above)
                                continue
                        if ed is not None and not blocked:
                            judged += 1
                            res.nontrivial.add(common.digest([ed.form, ed.kind, ed.depth, ed.chain]))
                            res.count(f"form:{ed.form}|{ed.kind}")
                            res.count(f"depth:{ed.depth}")
                            res.count(f"chain:{ed.chain}")
                            want_marks = has_marks(ref, ents[c].marks)
                            if want_marks and not has_marks(got, ents[c].marks):
                                failed.append(ed)
                                res.count("skipped-below-a-failed-edge", sum(1 for _ in ents[c].calls))
                                walk(c, True, ed)
                                continue
                        walk(c, blocked, ed if ed is not None else above)

                walk(fn, False)
                if got == ref:
                    res.count("verdict:same")
                    continue
                if failed:
                    for ed in failed:
                        sig = f"import-form-not-followed:{ed.form}:{ed.kind}"
                        res.count("verdict:" + sig)
                        res.violations.append({"signature": sig, "case": {"_edge": ed.meta(), **case}, "function": fn,
                                               "edge": ed.meta(), "reference": ref, "split": got})
                if failed_local:
                    for ed, c in failed_local:
                        sig = f"import-changes-answer:{ed.form}:local-{ents[c].kind}-callee-of-followed-{ed.kind}-lost"
                        res.count("verdict:" + sig)
                        res.violations.append({"signature": sig, "case": {"_edge": ed.meta(), **case}, "function": fn,
                                               "lost_callee": c, "reference": ref, "split": got})
                if failed or failed_local:
                    continue
                # everything was followed, yet the answer differs: classify
                diff = {k: sorted(set(ref[k]) ^ set(got[k])) for k in ref if ref[k] != got[k]}
                cls_edges = [e for e in below if e.kind == "class"]
                names = [n for v in diff.values() for n in v]
                if cls_edges and all(any(re.search(rf"\.{m}\b", n) for e in cls_edges for m in ents[e.v].marks) for n in names):
                    for ed in cls_edges:
                        sig = f"import-changes-answer:{ed.form}:class-instance-argument"
                        res.count("verdict:" + sig)
                        res.violations.append({"signature": sig, "case": {"_edge": ed.meta(), **case}, "function": fn,
                                               "edge": ed.meta(), "reference": ref, "split": got})
                else:
                    sig = f"import-changes-answer:{'+'.join(sorted({e.form for e in below}))}:other"
                    res.count("verdict:" + sig)
                    res.violations.append({"signature": sig, "case": case, "function": fn, "diff": diff,
                                           "reference": ref, "split": got})
            res.sample({"target": p["target"], "edges": [e.meta() for e in sp.edges][:4],
                        "files": {k: v[:300] for k, v in list(p["files"].items())[:4]}}, cap=3)

        for p in ded:
            o1 = next(it) if p["single"] is not None else None
            o2 = next(it)
            res.evaluations += 1
            res.count(f"dedicated:{p['label']}:{o2['outcome']}")
            case = {"files": p["files"], "single": p["single_src"], "label": p["label"]}
            if o2["outcome"] != "ok":
                exc = o2.get("exc", o2["outcome"].capitalize())
                sig = (f"import-cycle-crash:{exc}" if p["label"] == "reexport-cycle" else f"import-form-crash:{p['form']}:{exc}")
                res.violations.append({"signature": sig, "case": case, "detail": o2})
                continue
            if o1 is None:
                continue
            if o1["outcome"] != "ok":
                res.internal_errors.append({"what": "dedicated single-file reference did not run", "out": o1})
                continue
            ref = {k: sorted(v) for k, v in o1["results"][p["caller"]].items()}
            got = o2["results"].get(p["caller"], {})
            got = {k: sorted(v) for k, v in got.items()}
            got_names = {re.sub(r"^.*\.", "", n) for k in ("gets", "sets", "dels") for n in got.get(k, [])}
            ref_names = {re.sub(r"^.*\.", "", n) for k in ("gets", "sets", "dels") for n in ref.get(k, [])}
            if ref_names - got_names:
                sig = (f"import-form-not-followed:{p['form']}:{p['kind']}" +
                       (":module-name-occurs-in-callee-name" if p["label"] == "module-name-inside-callee-name" else ""))
                res.violations.append({"signature": sig, "case": case, "reference": ref, "split": got})
            else:
                res.count(f"dedicated:{p['label']}:same")

        # ---- correspondence: model vs the real call-site target and the real find_call_target_and_ir
        reqs, metas = [], []
        n_corr = len(pairs) if tier == "quick" else min(len(pairs), 400)
        for p in pairs[:n_corr]:
            sp = p["sp"]
            for e in sp.edges:
                e.assigned, e.arg = p["ents"][e.v].assigned, p["ents"][e.v].arg
            rows, err = correspondence(p["split"], p["target"], sp.edges)
            if rows is None:
                res.internal_errors.append({"what": "in-process analysis failed", "detail": err, "files": p["files"]})
                continue
            for ed, im, req in rows:
                if im is None:
                    res.skipped_outside_fragment += 1      # importer module never analysed (below a failed edge)
                    continue
                reqs.append(("resolve_import", req))
                metas.append((p, ed, im))
        for (p, ed, im), mo in zip(metas, model.batch(reqs)):
            res.evaluations += 1
            if "__error__" in mo:
                res.disagreements.append({"case": ed.meta(), "model": mo})
                continue
            mm = canon_model(mo, im["recordArgs"] is not None)
            res.count("resolve:" + im["outcome"]["k"] + (":" + str(im["outcome"].get("why")) if im["outcome"]["k"] == "none" else ""))
            if mm != im:
                res.disagreements.append({"case": {"edge": ed.meta(), "files": p["files"]}, "impl": im, "model": mm})
        # ---- the MULTI-file pipeline model (`Pipeline2.run2`) vs the real run with imports followed
        from props import pipeline2
        pipeline2.run_pipeline2_stage(res, random.Random(seed + 7206), 40 if tier == "quick" else 500, model)
        res.extra["pairs"] = len(pairs)
        res.extra["uncovered_cells"] = len(want)
    finally:
        shutil.rmtree(tmp, ignore_errors=True)
    res.assumptions = [
        "[interp] 'the same answer' = the results entry of every function that stays in the target file, with the callee "
        "spelling mapped back (calls) and without the module-path gets (`m.H` for `m.H.sm()`, `p.m` for `p.m.f()`) that "
        "rattr records for any dotted callee spelling",
        "[interp] the single-file version is the reference; programs come from the clean ProgGen fragment (forest call graph, "
        "bare-parameter arguments) so that the reference itself is well-defined (C03/C05 findings excluded)",
        "re-export cycles of a NAME (a: from b import f / b: from a import f) are not valid Python; only termination is demanded",
        "`import pkg; pkg.sub.f()` with nothing importing pkg.sub is not valid Python either (AttributeError); reported as a crash class",
        "follow level 1 (local modules), no exclusions: the blacklist / follow-level rungs are C12's",
        "pipeline2 stage: the whole multi-file pipeline model (target + import BFS + star expansion + location-aware call "
        "resolution + one shared store over all FileIrs) must reproduce the real in-process run (outcome, document, ordered "
        "diagnostics, import_irs keys, every FileIr after result generation) on generated 2-4 module projects; file-system "
        "facts (module name -> origin, blacklist / stdlib / pip verdicts, module_exists, derive_module_name_from_path) are "
        "per-case parameters computed by the real locator functions",
    ]
    return res


def replay(path):
    j = json.load(open(path))
    print(json.dumps(j, indent=1)[:8000])
    case = j.get("case") or {}
    files = case.get("files")
    if files:
        tmp = Path(tempfile.mkdtemp(prefix="rattr-c06-replay-"))
        try:
            write_project(tmp, files)
            print(json.dumps(run_cli(tmp, case.get("target", "target.py")), indent=1)[:4000])
        finally:
            shutil.rmtree(tmp, ignore_errors=True)
    return 0
